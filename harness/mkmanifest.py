#!/venv/bin/python
"""Regenerates MANIFEST.json from harness/props/*.py metadata (run by hand after adding a property)."""
import os, sys, json, importlib
ROOT = os.path.dirname(os.path.dirname(os.path.abspath(__file__)))
sys.path.insert(0, ROOT)
ALL = ['C%02d' % i for i in range(1, 21)]
checks, na = [], []
for pid in ALL:
    path = os.path.join(ROOT, 'harness', 'props', pid + '.py')
    if not os.path.exists(path):
        na.append({'property_id': pid, 'reason': 'not yet built in this round (model and theorems planned in DESIGN.md §5.%s); no check is claimed' % pid})
        continue
    m = importlib.import_module('harness.props.' + pid)
    if getattr(m, 'NOT_CLAIMED', None):
        na.append({'property_id': pid, 'reason': m.NOT_CLAIMED})
        continue
    checks.append({
        'property_id': pid,
        'quick_cmd': './check %s --tier quick' % pid,
        'thorough_cmd': './check %s --tier thorough' % pid,
        'evidence_file': '/verif/evidence/%s.json' % pid,
        'replay_cmd_template': './check %s --replay {path}' % pid,
        'engine': 'coq-proof+correspondence',
        'level_claimed': {'category': getattr(m, 'LEVEL', 'proof'), 'text': m.LEVEL_TEXT, 'design_ref': '§5.%s' % pid},
        'level_note': m.LEVEL_NOTE,
        'technique': m.TECHNIQUE,
    })
man = {
    'version': 1,
    'setup_cmd': 'cd /verif && harness/build.sh all',
    'hooks': {'guard': 'EXETERA_VERIF', 'enable': 'no source hooks: the harness wraps module attributes inside its own worker processes (chunk sizes) and uses the repository\'s own USE_NUMBA / numba\'s NUMBA_BOUNDSCHECK switches',
              'baseline_off_cmd': 'cd /repo && /venv/bin/python -m pytest -ra -q -p no:cacheprovider --timeout=900 --continue-on-collection-errors',
              'source_commits': [], 'add_only': True},
    'engines': [{'name': 'coq-proof+correspondence', 'path': '/verif/check',
                 'serves_properties': [c['property_id'] for c in checks],
                 'kind_free_text': 'Coq 8.16.1 theorems about hand-written executable Gallina models (coq/Model, coq/Proofs, coq/Props) + differential correspondence of the extracted model against /repo (harness/)'}],
    'checks': checks,
    'not_applicable': na,
    'notes': 'See DESIGN.md. Exit 0 held / 1 VIOLATION / 2 machinery error. known_findings.json lists recorded and fixed defects.',
}
json.dump(man, open(os.path.join(ROOT, 'MANIFEST.json'), 'w'), indent=1)
print('checks:', [c['property_id'] for c in checks], 'n/a:', len(na))
