#!/bin/bash
# Build the Coq development (full .vo build) and the extracted OCaml driver.
# Usage: harness/build.sh [coq|ocaml|all]   (default all).  Runs under a lock so that
# concurrently started checks do not race.
set -u
HERE="$(cd "$(dirname "$0")/.." && pwd)"
WHAT="${1:-all}"
cd "$HERE/coq" || exit 2
exec 9>"$HERE/coq/.build.lock"
flock 9
{
  echo "-Q . EV"
  echo "-arg -w -arg -notation-overridden,-deprecated-hint-without-locality,-deprecated-instance-without-locality,-extraction-opaque-accessed,-extraction-reserved-identifier"
  find Base Model Spec Proofs Props Gen Extract -name '*.v' 2>/dev/null | LC_ALL=C sort
} > _CoqProject.new
if ! cmp -s _CoqProject.new _CoqProject 2>/dev/null; then
  mv _CoqProject.new _CoqProject
  coq_makefile -f _CoqProject -o Makefile >/dev/null 2>&1 || { echo "coq_makefile failed"; exit 2; }
else
  rm -f _CoqProject.new
  [ -f Makefile ] || coq_makefile -f _CoqProject -o Makefile >/dev/null 2>&1
fi
if [ "$WHAT" = coq ] || [ "$WHAT" = all ]; then
  timeout 3000 make -j"${VERIF_JOBS:-16}" -k > "$HERE/coq/.build.log" 2>&1
  rc=$?
  if [ $rc -ne 0 ]; then
    echo "coq build failed (rc=$rc); tail of coq/.build.log:"; grep -n "Error" -B8 -A8 "$HERE/coq/.build.log" | head -80
    exit 2
  fi
fi
if [ "$WHAT" = ocaml ] || [ "$WHAT" = all ]; then
  cd "$HERE/ocaml" || exit 2
  if [ ! -x driver ] || [ ../coq/model.ml -nt driver ] || [ driver.ml -nt driver ]; then
    cp ../coq/model.ml ../coq/model.mli . || exit 2
    timeout 900 ocamlfind ocamlopt -O3 -w -a -package str model.mli model.ml driver.ml -o driver.tmp > .build.log 2>&1 \
      || timeout 900 ocamlfind ocamlopt -w -a model.mli model.ml driver.ml -o driver.tmp > .build.log 2>&1 \
      || { echo "ocaml build failed"; cat .build.log | head -40; exit 2; }
    mv driver.tmp driver
  fi
fi
exit 0
