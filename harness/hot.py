"""harness/hot.py — change-directed escalation (DESIGN §2.2).

The integer literals of the library sources (AST, incl. constant shifts like 1 << 20 and small products) are recorded
for the tree the models were written against (harness/constants_baseline.json).  At check time the literals of the tree
under test are compared with that record: a literal that is NEW is a size / threshold somebody introduced, and the
generators of every property plant inputs around it (lengths, chunk sizes, run lengths, byte widths K-1, K, K+1, 2K …)
when it is small enough to be enumerated.  The comparison never decides anything; it only directs the search."""
import ast, os, json, glob, hashlib, warnings

ROOT = os.path.dirname(os.path.dirname(os.path.abspath(__file__)))
BASE = os.path.join(ROOT, 'harness', 'constants_baseline.json')
DIRS = ['exetera/core', 'exetera/io', 'exetera/processing']
MAX_HOT = 6000


def _consts(tree):
    out = set()

    def val(n):
        if isinstance(n, ast.Constant) and isinstance(n.value, int) and not isinstance(n.value, bool):
            return n.value
        if isinstance(n, ast.UnaryOp) and isinstance(n.op, ast.USub):
            v = val(n.operand)
            return None if v is None else -v
        if isinstance(n, ast.BinOp):
            a, b = val(n.left), val(n.right)
            if a is None or b is None:
                return None
            try:
                if isinstance(n.op, ast.LShift) and 0 <= b < 64: return a << b
                if isinstance(n.op, ast.Mult): return a * b
                if isinstance(n.op, ast.Pow) and 0 <= b < 64: return a ** b
                if isinstance(n.op, ast.Add): return a + b
                if isinstance(n.op, ast.Sub): return a - b
            except Exception:
                return None
        return None

    for n in ast.walk(tree):
        v = val(n)
        if v is not None:
            out.add(v)
    return out


def scan(repo):
    res, digests = {}, {}
    for d in DIRS:
        for p in sorted(glob.glob(os.path.join(repo, d, '*.py'))):
            rel = os.path.relpath(p, repo)
            try:
                src = open(p).read()
                with warnings.catch_warnings():
                    warnings.simplefilter('ignore')
                    tree = ast.parse(src)
            except Exception:
                continue
            res[rel] = sorted(_consts(tree))
            digests[rel] = hashlib.sha256(ast.dump(tree).encode()).hexdigest()[:16]
    return res, digests


def record(repo='/repo'):
    res, digests = scan(repo)
    json.dump({'constants': res, 'digests': digests}, open(BASE, 'w'))
    return res


_cache = {}


def analyse(repo):
    """-> {'hot': [small new literals], 'big': [new literals too large to enumerate], 'changed_files': [...]}"""
    if repo in _cache:
        return _cache[repo]
    out = {'hot': [], 'big': [], 'changed_files': []}
    if os.path.exists(BASE):
        base = json.load(open(BASE))
        cur, dig = scan(repo)
        new = set()
        for f, cs in cur.items():
            old = set(base['constants'].get(f, []))
            new |= set(c for c in cs if c not in old)
            if base['digests'].get(f) != dig.get(f):
                out['changed_files'].append(f)
        out['hot'] = sorted(c for c in new if 2 <= c <= MAX_HOT)
        out['big'] = sorted(c for c in new if c > MAX_HOT)
    _cache[repo] = out
    return out


def hot_sizes():
    """the small new literals of the tree under test (empty on the unchanged tree); at most 4 of them"""
    v = os.environ.get('VERIF_HOT_SIZES', '')
    return [int(x) for x in v.split(',') if x.strip()][:4]


def big_sizes():
    """the NEW literals of the tree under test that are too large to enumerate (> MAX_HOT), ascending, at most 8: a block
    length / buffer size somebody introduced.  A property whose entry points are vectorised may still afford a few inputs
    with a feature planted exactly at K-1, K, K+1, 2K when the model side works on a compressed (run-length) encoding."""
    v = os.environ.get('VERIF_HOT_BIG', '')
    return [int(x) for x in v.split(',') if x.strip()][:8]


def changed():
    return os.environ.get('VERIF_SRC_CHANGED', '') == '1'


if __name__ == '__main__':
    import sys
    r = record(sys.argv[1] if len(sys.argv) > 1 else '/repo')
    print('recorded', sum(len(v) for v in r.values()), 'literals of', len(r), 'files')
