#!/venv/bin/python
"""harness/addfindings.py Cxx id=commit [id=commit ...] — copy the entries of work/Cxx/findings.json into
known_findings.json; ids given a commit become status=fixed (text prefixed as the interface requires), the
others keep status=known. Dev helper, run by hand when a property branch is integrated."""
import sys, json, os
ROOT = os.path.dirname(os.path.dirname(os.path.abspath(__file__)))
prop = sys.argv[1]
commits = dict(a.split('=') for a in sys.argv[2:])
kf_path = os.path.join(ROOT, 'known_findings.json')
kf = json.load(open(kf_path))
src = json.load(open(os.path.join(ROOT, 'work', prop, 'findings.json')))
if isinstance(src, dict):
    src = src.get('findings', [])
have = {f['id'] for f in kf['findings']}
for f in src:
    if f['id'] in have:
        kf['findings'] = [x for x in kf['findings'] if x['id'] != f['id']]
    e = {'id': f['id'], 'property': f.get('property', prop)}
    if f['id'] in commits:
        e['status'] = 'fixed'
        e['commit'] = commits[f['id']]
        e['text'] = 'fixed: property=%s %s %s' % (e['property'], commits[f['id']], f.get('text', ''))
    else:
        e['status'] = 'known'
        e['text'] = f.get('text', '')
    for k in ('witness', 'observed', 'expected', 'region'):
        if k in f:
            e[k] = f[k]
    kf['findings'].append(e)
json.dump(kf, open(kf_path, 'w'), indent=1)
print([ (f['id'], f['status']) for f in kf['findings']])
