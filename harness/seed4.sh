#!/bin/bash
# confirm round-4 seeds: harness/seed2.sh  (list inside)
cd /verif
run() { # mutdir n prop [extras] ; stores as seeded/<prop>-r4-<n>
  echo "=== $3-r4-$2"; SEED_SUFFIX=r4 harness/seed.py "$@" 2>&1 | tail -6
}
for spec in "$@"; do
  set -- $spec
  p=$1; n=$2; shift 2
  run /tmp/mut4_$p $n $p "$@"
done
echo ALLDONE
