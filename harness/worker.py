#!/venv/bin/python
"""Implementation-side worker ("zygote").

Started by harness/core.py once per mode with the environment of that mode already set
(USE_NUMBA / NUMBA_BOUNDSCHECK, PYTHONPATH=/repo, PYTHONHASHSEED=0).  It imports the
property module, lets it import ExeTera from /repo's working tree and warm the JIT up once,
then forks N children that share the compiled code and run the cases.  A child that does
not answer within the case's time limit is killed (result "HANG") and replaced by a fresh
fork; a child that dies is reported as "CRASH".

usage: worker.py <prop> <cases.jsonl> <out.jsonl> <nchildren> <timeout_s>
cases.jsonl: one {"i": int, "c": case, "t": optional per-case timeout} per line.
out.jsonl:   one {"i": int, "r": result} per line.
"""
import sys, os, json, time, importlib, traceback, signal
import multiprocessing as mp
from multiprocessing.connection import wait as mp_wait

sys.path.insert(0, os.path.join(os.path.dirname(os.path.abspath(__file__)), '..'))


def exc_name(e):
    for cls in (IndexError, KeyError, ValueError, TypeError, OverflowError, ZeroDivisionError,
                AttributeError, NotImplementedError, RuntimeError, OSError, AssertionError):
        if isinstance(e, cls):
            return cls.__name__
    n = type(e).__name__
    # numba wraps some errors
    if 'Typing' in n or 'Lowering' in n:
        return 'NumbaCompileError'
    return n


def run_one(mod, case):
    try:
        return mod.run(case)
    except BaseException as e:  # noqa
        if isinstance(e, (KeyboardInterrupt, SystemExit)):
            raise
        return {"exc": exc_name(e), "msg": str(e)[:200]}


def child_main(mod, conn):
    signal.signal(signal.SIGINT, signal.SIG_IGN)
    while True:
        try:
            msg = conn.recv()
        except EOFError:
            return
        if msg is None:
            return
        for (i, case) in msg:
            conn.send((i, run_one(mod, case)))


class Child:
    def __init__(self, ctx, mod):
        self.parent_conn, child_conn = ctx.Pipe()
        self.proc = ctx.Process(target=child_main, args=(mod, child_conn), daemon=True)
        self.proc.start()
        child_conn.close()
        self.batch = None
        self.pos = 0
        self.deadline = None

    def kill(self):
        try:
            self.proc.kill()
            self.proc.join(2)
        except Exception:
            pass
        try:
            self.parent_conn.close()
        except Exception:
            pass


def main():
    prop, cases_path, out_path, nchildren, timeout_s = sys.argv[1:6]
    nchildren = int(nchildren)
    timeout_s = float(timeout_s)
    mod = importlib.import_module('harness.props.' + prop)
    t0 = time.time()
    mod.setup()
    if hasattr(mod, 'warmup'):
        # the warm-up runs the library on small standard inputs before any watchdog exists: bound it with an alarm whose
        # default action kills the process even inside compiled code (core.run_impl reports that as non-termination)
        signal.signal(signal.SIGALRM, signal.SIG_DFL)
        signal.alarm(int(os.environ.get('VERIF_WARMUP_LIMIT', '600')))
        mod.warmup()
        signal.alarm(0)
    sys.stderr.write("[worker %s] setup+warmup %.1fs\n" % (os.environ.get('VERIF_MODE', '?'), time.time() - t0))
    cases = []
    with open(cases_path) as f:
        for line in f:
            if line.strip():
                d = json.loads(line)
                cases.append((d["i"], d["c"], d.get("t")))
    ctx = mp.get_context('fork')
    BATCH = int(os.environ.get('VERIF_BATCH', '64'))
    # queue of batches; each batch is a list of (i, case, t)
    queue = [cases[k:k + BATCH] for k in range(0, len(cases), BATCH)]
    queue.reverse()
    results = {}
    nfailed = [0]
    MAX_FAILED = int(os.environ.get('VERIF_MAX_FAILED', '40'))
    children = [Child(ctx, mod) for _ in range(max(1, min(nchildren, len(queue) or 1)))]

    def tlimit(item):
        return item[2] if item[2] is not None else timeout_s

    def assign(ch):
        if not queue:
            ch.batch = None
            return False
        b = queue.pop()
        ch.batch = b
        ch.pos = 0
        ch.deadline = time.time() + tlimit(b[0])
        ch.parent_conn.send([(i, c) for (i, c, _) in b])
        return True

    for ch in children:
        assign(ch)
    while any(ch.batch is not None for ch in children):
        busy = [ch for ch in children if ch.batch is not None]
        now = time.time()
        wait_t = max(0.005, min(ch.deadline for ch in busy) - now)
        ready = mp_wait([ch.parent_conn for ch in busy], timeout=min(wait_t, 1.0))
        now = time.time()
        for k, ch in enumerate(children):
            if ch.batch is None:
                continue
            failed = None
            if ch.parent_conn in ready:
                try:
                    while ch.batch is not None and ch.parent_conn.poll():
                        (i, r) = ch.parent_conn.recv()
                        results[i] = r
                        ch.pos += 1
                        if ch.pos >= len(ch.batch):
                            assign(ch)
                        else:
                            ch.deadline = time.time() + tlimit(ch.batch[ch.pos])
                    continue
                except (EOFError, OSError):
                    failed = "CRASH"
            elif now > ch.deadline:
                failed = "HANG"
            elif not ch.proc.is_alive():
                failed = "CRASH"
            if failed:
                b = ch.batch
                pos = ch.pos
                ch.kill()
                results[b[pos][0]] = failed
                nfailed[0] += 1
                rest = b[pos + 1:]
                if nfailed[0] >= MAX_FAILED:
                    # enough hangs / crashes to decide: do not spend the time limit on every remaining case
                    del queue[:]
                    rest = []
                if rest:
                    # failing cases cluster (neighbouring cases share their inputs): hand the remainder out in small pieces
                    # so that the other children share the watchdog periods instead of one child serving them in a row
                    for k2 in range(len(rest), 0, -4):
                        queue.append(rest[max(0, k2 - 4):k2])
                children[k] = Child(ctx, mod)
                assign(children[k])
    for ch in children:
        try:
            ch.parent_conn.send(None)
        except Exception:
            pass
        ch.kill()
    with open(out_path, 'w') as f:
        for i in sorted(results):
            f.write(json.dumps({"i": i, "r": results[i]}) + "\n")
    if hasattr(mod, 'teardown'):
        mod.teardown()


if __name__ == '__main__':
    main()
