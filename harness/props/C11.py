"""C11 — results are identical with and without the JIT.
Meta-check: the cases of the per-operation properties are run in JIT and interpreted mode; the two results
must be equal to each other (pairwise, independent of the model) and to the extracted model."""
from harness.props import _meta

PROP, NUM = 'C11', 11
SOURCES = _meta.available(['C01', 'C02', 'C03', 'C04', 'C05', 'C06', 'C07', 'C08', 'C09', 'C14', 'C16', 'C17', 'C19', 'C21'])
PROPS_FILES = ['Props/C11.v'] + _meta.props_files(SOURCES)
MODES = ['jit', 'nojit']
MODES_THOROUGH = ['jit', 'nojit', 'bounds']
LEVEL = 'proof'
TIMEOUT_S = 60.0
HANG_TIMEOUT_S = 3.0
RULE = ('every k-th case of the generators of %s, run with USE_NUMBA=true and USE_NUMBA=false; the two canonical '
        'results (values, dtypes, lengths, exception class) must be pairwise equal and equal to the model. Cases for '
        'which the model predicts an out-of-bounds access are undefined behaviour under the JIT and are run in the '
        'checked mode only (they are C10 violations in their own right).' % ', '.join(SOURCES))
EXHAUSTIVE = {'quick': False, 'thorough': False}
TRUSTED = ['numba type inference and code generation (typed lists, optional arguments, bytes comparison) are exercised, '
           'not modelled']
ASSUMPTIONS = ['one model stands for both runtimes: integers are unbounded in the model; the range corollaries of '
               'coq/Props/C11.v bound the indices the join kernels compute']
BUDGET = {'quick': {'*': 2500, 'C03': 12000, 'C04': 8000, 'C08': 8000, 'C16': 6000, 'C14': 5000, 'C09': 3000,
                    'C01': 1200, 'C05': 2500, 'C06': 2500, 'C17': 1200, 'C21': 8000},
          'thorough': {'*': 20000, 'C03': 120000, 'C04': 80000, 'C08': 80000, 'C16': 60000, 'C14': 50000}}


def setup():
    _meta.setup_all(SOURCES)


def warmup():
    _meta.warmup_all(SOURCES)


def teardown():
    _meta.teardown_all(SOURCES)


run, to_val, num_of, from_val = _meta.run, _meta.to_val, _meta.num_of, _meta.from_val
features, nontrivial, known, skip, shrink = _meta.features, _meta.nontrivial, _meta.known, _meta.skip, _meta.shrink
equal = _meta.src_equal
KNOWN_PROPS = ['C11'] + SOURCES


def spec_ok(case, impl, spec, mode):
    """C11 judges the two runtimes against each other (cross_mode) and against the one model (`equal`); whether
    that common behaviour meets the source property's specification is the source property's own check."""
    return True


def cross_mode(case, impl_by_mode, model):
    if 'jit' in impl_by_mode and 'nojit' in impl_by_mode:
        a, b = impl_by_mode['jit'], impl_by_mode['nojit']
        if a != b and not _meta.src_equal(case, a, b, 'jit'):
            return 'jit and interpreted results differ'
    return None


def gen(tier, rng):
    return _meta.sample(SOURCES, tier, rng, BUDGET[tier])


TECHNIQUE = 'one Coq model for both runtimes (total-correctness theorems re-checked) + pairwise differential runs JIT vs interpreted vs model'
LEVEL_TEXT = ('The theorems of the source properties hold of one model that both runtimes are compared with; the check '
              'runs each sampled case under USE_NUMBA=true and =false and requires pairwise-equal canonical results '
              '(values, dtypes, lengths, exception class).')
LEVEL_NOTE = ('Partial by nature: numba\'s typing/code generation cannot be expressed in the model; what is proved is that '
              'the modelled semantics has no out-of-bounds access and no fixed-width overflow on indices (C11.v), the two '
              'forks between CPython and compiled code; the rest is the two-sided correspondence.')
