"""C05 — CSV import (csv_reader_speedup.py, parsers.py, field_importers.IndexedStringImporter) vs coq/Model/Csv.v.

A case is either table-level ({'hdr','tab','style','nl'}: rendered here) or text-level ({'t'}: raw bytes as a
latin-1 string, expected table from Python's csv.reader on the blank-normalised text).  Two operations:
  op='drv'  read_file_using_fast_csv_reader called directly with chosen column_offsets (tight budgets force the
            regrowth paths) and real IndexedStringImporter objects over an in-memory stand-in for the HDF5 field;
  op='csv'  parsers.read_csv_with_schema_dict into a real HDF5 dataframe (include / exclude, 10*chunk_row_size budgets).
  op='typ'  (SC05) the same import with a TYPED schema: every column has a definition 'defs'[j] = ['str'] | ['fix', n] |
            ['cat', cats] | ['leaky', cats] | ['bool', inv, mode] | ['int', dtype, inv, mode]; the real importer objects
            (IndexedString / FixedString / Categorical / LeakyCategorical / Numeric importers, each with its own state
            carried from one reader pass to the next) write into a real HDF5 dataframe.  Without 'offs' the import goes
            through parsers.read_csv_with_schema_dict (production budgets field_size*chunk_row_size); with 'offs' the
            driver is called directly with those column_offsets (tight budgets: regrowth, passes that commit no record).
            Model: Model/CsvTyped.v (generic driver + the importer models of Model/Transform.v).
  op='imp'  (TC05) importer.import_with_schema: SEVERAL tables ('tables': [{'name','hdr','tab','style','nl','eol','sch'}])
            imported by one call from a schema file holding the tables 'keys', with per-table include / exclude
            dictionaries 'inc' / 'exc' = None | [[table, [field, ...]], ...] that may name only some of the tables.
            Result: per table of `files`, in order, [rows, [[field name, indices, values] per field created]].
            Model: Model/CsvImport.v (importer.py:66-111 on top of Csv.read_csv).
Canonical result: [rows, [[indices, values] per imported column]]; a typed column is [data] (fix, cat),
[codes, freetext indices, freetext values] (leaky) or [values, flags] (bool, int; flags = [] in strict mode).
"""
import os, io, csv, json, itertools

PROP, NUM = 'C05', 5
PROPS_FILES = ['Props/C05.v', 'Props/C05Typed.v', 'Props/C05Import.v']
MODES = ['jit', 'nojit']
MODES_THOROUGH = ['jit', 'nojit', 'bounds']
LEVEL = 'proof'
TIMEOUT_S = 30.0
EXHAUSTIVE = {'quick': True, 'thorough': True}

_np = _C = _P = _FI = _S = _IM = None
_ds = _tmp = None
_n = [0]


# ----------------------------------------------------------------------------- rendering / reference
def needs_quote(cell, ncols):
    return any(ch in cell for ch in ',"\n\r') or cell.startswith(' ') or (ncols == 1 and cell == '')


def render_cell(cell, ncols, style):
    if style == 'all' or needs_quote(cell, ncols):
        return '"' + cell.replace('"', '""') + '"'
    return cell


def render(hdr, tab, style, nl, eol='\n'):
    n = len(hdr)
    lines = [','.join(render_cell(c, n, style) for c in r) for r in [hdr] + tab]
    t = eol.join(lines)
    return t + eol if nl else t


def text_of(case):
    if 't' in case:
        return case['t']
    return render(case['hdr'], case['tab'], case['style'], case['nl'], case.get('eol', '\n'))


def normalize(t):
    """Drop the blanks that immediately follow an unquoted separator or line break (the property's 'modulo')."""
    out, inq, skipping = [], False, False
    for ch in t:
        if skipping and ch == ' ':
            continue
        skipping = False
        if ch == '"':
            inq = not inq
        elif not inq and ch in ',\n':
            skipping = True
        out.append(ch)
    return ''.join(out)


def ref_parse(t):
    """The reference parser of the property: Python's csv.reader (RFC-4180 dialect)."""
    return [list(r) for r in csv.reader(io.StringIO(t, newline=''), delimiter=',', quotechar='"', strict=True)]


def record_lengths(t):
    """byte lengths (with the line break) of the records of t, quote-aware; the last one counts the appended newline."""
    out, inq, cur = [], False, 0
    for ch in t:
        cur += 1
        if ch == '"':
            inq = not inq
        elif ch == '\n' and not inq:
            out.append(cur); cur = 0
    if cur:
        out.append(cur + 1)
    return out


def ncols_of(case):
    if 'hdr' in case:
        return len(case['hdr'])
    return case['nc']


def in_regime(case):
    """chunk_row_size whose byte window holds the header plus the longest record."""
    rl = record_lengths(text_of(case))
    if not rl:
        return False
    window = 2 * case['crs'] * ncols_of(case)
    return window >= rl[0] + max(rl[1:] or [0])


def expected_table(case):
    """data rows the property promises, or None (malformed / outside the supported regime)."""
    if not in_regime(case):
        return None
    if 'tab' in case:
        return case['tab']
    return case.get('exp')


def names_of(case):
    return case['hdr'] if 'hdr' in case else case['names']


def imap_of(case):
    if case['op'] == 'drv':
        return case['imap']
    if case['op'] == 'typ':
        return case['imap'] if case.get('imap') is not None else list(range(len(case['hdr'])))
    names = [k.strip() for k in names_of(case)]
    ftu = names
    if case.get('inc') is not None:
        ftu = [k for k in ftu if k in set(case['inc'])]
    if case.get('exc') is not None:
        ftu = [k for k in ftu if k not in set(case['exc'])]
    return [names.index(k) for k in ftu]


def enc_cols(tab, imap):
    cols = []
    for j in imap:
        idx, vals = [0], []
        for r in tab:
            b = r[j].encode('latin-1')
            vals.extend(b); idx.append(len(vals))
        cols.append([idx, vals])
    return [len(tab), cols]



# ----------------------------------------------------------------------------- typed columns (op='typ'): reference
DT_RANGE = {'int8': (-128, 127), 'uint8': (0, 255), 'int16': (-32768, 32767), 'uint16': (0, 65535),
            'int32': (-2 ** 31, 2 ** 31 - 1), 'uint32': (0, 2 ** 32 - 1), 'int64': (-2 ** 63, 2 ** 63 - 1)}
TRUE_LITS = (b'1', b'y', b't', b'on', b'yes', b'true')
FALSE_LITS = (b'0', b'n', b'f', b'no', b'off', b'false')


class _NoSpec(Exception):
    """the reference does not speak (the import is expected to raise: strict / allow_empty validation)"""


def field_size(d):
    """ImporterDefinition._field_size (production budget of the column = field_size * chunk_row_size)"""
    k = d[0]
    if k == 'str': return 10
    if k == 'fix': return d[1]
    if k in ('cat', 'leaky'):        # fix F-C05f: at least 1 (a table whose keys are all empty asked for a zero budget)
        return max([len(key.encode('latin-1').decode('utf-8')) for key, _ in d[1]] + [1])
    if k == 'bool': return 5
    return 20


def spec_col(d, cells):
    """what the property promises for one column, from the cell texts alone (bytes)"""
    k = d[0]
    if k == 'str':
        idx, vals = [0], []
        for c in cells:
            vals.extend(c); idx.append(len(vals))
        return [idx, vals]
    if k == 'fix':
        n = d[1]
        out = []
        for c in cells:
            out.extend(c[:n].ljust(n, b'\0'))
        return [out]
    if k == 'cat':
        m = {key.encode('latin-1'): v for key, v in d[1]}
        return [[m.get(c, 0) for c in cells]]
    if k == 'leaky':
        m = {key.encode('latin-1'): v for key, v in d[1]}
        codes, idx, vals = [], [0], []
        for c in cells:
            if c in m:
                codes.append(m[c])
            else:
                codes.append(-1); vals.extend(c)
            idx.append(len(vals))
        return [codes, idx, vals]
    if k == 'bool':
        inv, mode = d[1], d[2]
        vals, flags = [], []
        for c in cells:
            t = c.strip(b' ').lower()
            if t in TRUE_LITS or t in FALSE_LITS:
                vals.append(1 if t in TRUE_LITS else 0); flags.append(1)
            elif (t == b'' and mode >= 1) or mode == 2:
                vals.append(1 if inv else 0); flags.append(0)
            else:
                raise _NoSpec()
        return [vals, flags if mode != 0 else []]
    if k == 'int':
        lo, hi = DT_RANGE[d[1]]
        inv, mode = d[2], d[3]
        vals, flags = [], []
        for c in cells:
            if c.strip() == b'':
                if mode == 0: raise _NoSpec()
                vals.append(inv); flags.append(0); continue
            try:
                v = int(c)
            except ValueError:
                v = None
            if v is not None and lo <= v <= hi:
                vals.append(v); flags.append(1)
            elif mode == 2:
                vals.append(inv); flags.append(0)
            else:
                raise _NoSpec()
        return [vals, flags if mode != 0 else []]
    raise ValueError(k)


def spec_typed(case, tab):
    defs, imap = case['defs'], imap_of(case)
    cols = []
    for j in imap:
        cols.append(spec_col(defs[j], [r[j].encode('latin-1') for r in tab]))
    return [len(tab), cols]


# ----------------------------------------------------------------------------- implementation side
class _Arr:
    """stand-in for a field's HDF5 array: write_part = append (storage itself is property C01)."""
    def __init__(self):
        self.data = []

    def write_part(self, part):
        self.data.extend(int(x) for x in part)

    def complete(self):
        pass


class _Field:
    def __init__(self):
        self.indices, self.values = _Arr(), _Arr()


class _DF:
    def __init__(self):
        self.fields = {}

    def create_indexed_string(self, name, timestamp=None, chunksize=None):
        f = _Field(); self.fields[name] = f
        return f


class _TArr:
    """typed stand-in for a field's HDF5 dataset: write_part = cast to the dataset's dtype, copy, append"""
    def __init__(self, dtype):
        self.dtype = _np.dtype(dtype)
        self.parts = []

    def write_part(self, part):
        self.parts.append(_np.array(part).astype(self.dtype))      # h5py casts and copies at once

    def complete(self):
        pass

    def get(self):
        return _np.concatenate(self.parts) if self.parts else _np.zeros(0, dtype=self.dtype)


class _TField:
    def __init__(self, dtype=None, keys=None):
        if dtype is None:
            self.indices, self.values = _TArr('int64'), _TArr('uint8')
            self.data = self.values            # IndexedStringField.data.complete() is all the importers use
        else:
            self.data = _TArr(dtype)
        self.keys = dict(keys or {})


class _TDataset:
    session = None


class _TDF:
    """memory stand-in for the destination dataframe of a typed import (storage itself is property C01)"""
    def __init__(self):
        self.fields = {}
        self.dataset = _TDataset()

    def _add(self, name, f):
        if name in self.fields:
            raise ValueError('field %s exists' % name)
        self.fields[name] = f
        return f

    def create_indexed_string(self, name, timestamp=None, chunksize=None):
        return self._add(name, _TField())

    def create_categorical(self, name, nformat, key, timestamp=None, chunksize=None):
        return self._add(name, _TField(nformat, key))

    def create_numeric(self, name, nformat, timestamp=None, chunksize=None):
        return self._add(name, _TField(nformat))

    def create_fixed_string(self, name, length, timestamp=None, chunksize=None):
        return self._add(name, _TField('S%d' % length))

    def create_timestamp(self, name, timestamp=None, chunksize=None):
        return self._add(name, _TField('float64'))


def setup():
    global _np, _C, _P, _FI, _S, _ds, _tmp
    import warnings, tempfile
    warnings.filterwarnings('ignore')
    import numpy as np
    from exetera.core import csv_reader_speedup as C
    from exetera.io import parsers as P
    from exetera.io import field_importers as FI
    from exetera.core.session import Session
    from exetera.io import importer as IM
    global _IM
    _IM = IM
    _np, _C, _P, _FI = np, C, P, FI
    _S = Session()
    _ds = _S.open_dataset(io.BytesIO(), 'w', 'ds')
    _tmp = tempfile.mkdtemp(prefix='c05_')


def warmup():
    run({'op': 'drv', 'hdr': ['a', 'b'], 'tab': [['x', 'y'], ['p,q', 'z']], 'style': 'min', 'nl': True, 'crs': 10,
         'offs': [0, 100, 200], 'imap': [0, 1]})


MODE_NAME = {0: 'strict', 1: 'allow_empty', 2: 'relaxed'}


def _definition(d):
    FI = _FI
    k = d[0]
    if k == 'str': return FI.String()
    if k == 'fix': return FI.String(d[1])
    if k in ('cat', 'leaky'):
        cats = {key.encode('latin-1').decode('utf-8'): v for key, v in d[1]}
        return FI.Categorical(cats, 'int8', allow_freetext=(k == 'leaky'))
    if k == 'bool': return FI.Numeric('bool', d[1], MODE_NAME[d[2]], True, '_valid')
    if k == 'int': return FI.Numeric(d[1], d[2], MODE_NAME[d[3]], True, '_valid')
    raise ValueError(k)


def _read_col_mem(df, name, d):
    k = d[0]
    F = df.fields
    ints = lambda a: [int(x) for x in a.get()]
    if k == 'str':
        return [ints(F[name].indices), ints(F[name].values)]
    if k == 'fix':
        return [list(F[name].data.get().tobytes())]
    if k == 'cat':
        return [ints(F[name].data)]
    if k == 'leaky':
        ft = F[name + '_freetext']
        return [ints(F[name].data), ints(ft.indices), ints(ft.values)]
    fl = name + '_valid'
    return [ints(F[name].data), ints(F[fl].data) if fl in F else []]


def _read_col(df, name, d):
    k = d[0]
    ints = lambda a: [int(x) for x in a]
    if k == 'str':
        return [df[name].indices[:].tolist(), df[name].values[:].tolist()]
    if k == 'fix':
        a = df[name].data[:]
        assert a.dtype == _np.dtype('S%d' % d[1])
        return [list(a.tobytes())]
    if k == 'cat':
        return [ints(df[name].data[:])]
    if k == 'leaky':
        ft = df[name + '_freetext']
        return [ints(df[name].data[:]), ints(ft.indices[:]), ints(ft.values[:])]
    fl = name + '_valid'
    return [ints(df[name].data[:]), ints(df[fl].data[:]) if fl in df else []]


def _run_typed_mem(case, path):
    np = _np
    df = _TDF()
    names = [k.strip() for k in case['hdr']]
    defs = case['defs']
    imap = imap_of(case)
    if case.get('offs') is None:
        schema = {names[j]: _definition(defs[j]) for j in range(len(names))}
        _P.read_csv_with_schema_dict(path, df, schema, 0.0, None, None, case['crs'])
        rows = len(df.fields['j_valid_from'].data.get())
    else:
        imps = [_definition(defs[j])._importer(None, df, names[j], 0.0) for j in imap]
        rows = int(_C.read_file_using_fast_csv_reader(path, case['crs'], np.array(case['offs'], dtype=np.int64),
                                                      list(imap), imps, None))
    return [rows, [_read_col_mem(df, names[j], defs[j]) for j in imap]]


def _run_typed(case, path):
    np = _np
    if case.get('mem'):
        return _run_typed_mem(case, path)
    _n[0] += 1
    name = 'y%d_%d' % (os.getpid(), _n[0])
    df = _ds.create_dataframe(name)
    try:
        names = [k.strip() for k in case['hdr']]
        defs = case['defs']
        imap = imap_of(case)
        if case.get('offs') is None:
            schema = {names[j]: _definition(defs[j]) for j in range(len(names))}
            _P.read_csv_with_schema_dict(path, df, schema, 0.0, None, None, case['crs'])
            rows = len(df['j_valid_from'].data)
        else:
            imps = [_definition(defs[j])._importer(_S, df, names[j], 0.0) for j in imap]
            rows = int(_C.read_file_using_fast_csv_reader(path, case['crs'], np.array(case['offs'], dtype=np.int64),
                                                          list(imap), imps, None))
        return [rows, [_read_col(df, names[j], defs[j]) for j in imap]]
    finally:
        del _ds[name]


def imp_text(t):
    return render(t['hdr'], t['tab'], t.get('style', 'min'), t.get('nl', True), t.get('eol', '\n'))


def imp_names(t):
    return [k.strip() for k in t['hdr']]


def imp_schema_json(case):
    sch = {}
    for key in case['keys']:
        tt = [t for t in case['tables'] if t['name'] == key]
        fields = (tt[0].get('sch') if tt and tt[0].get('sch') is not None else imp_names(tt[0])) if tt else ['zz']
        sch[key] = {'primary_keys': [], 'fields': {_u(k): {'field_type': 'string'} for k in fields}}
    return json.dumps({'exetera': {'version': '1.0.0'}, 'schema': sch})


def _u(k):
    """wire strings are latin-1 images of the UTF-8 bytes; the library gets the text"""
    return k.encode('latin-1').decode('utf-8')


def _run_imp(case):
    _n[0] += 1
    alias = 'imp%d_%d' % (os.getpid(), _n[0])
    files = {}
    for i, t in enumerate(case['tables']):
        path = os.path.join(_tmp, 'i%d_%d.csv' % (os.getpid(), i))
        with open(path, 'wb') as f:
            f.write(imp_text(t).encode('latin-1'))
        files[t['name']] = path
    dct = lambda d: None if d is None else {k: [_u(x) for x in v] for k, v in d}
    try:
        _IM.import_with_schema(_S, io.BytesIO(), alias, io.StringIO(imp_schema_json(case)), files, False,
                               dct(case.get('inc')), dct(case.get('exc')), '2020-01-01 00:00:00+00:00',
                               chunk_row_size=case['crs'])
        ds = _S.get_dataset(alias)
        out = []
        if sorted(ds.keys()) != sorted(files):
            return ['TABLES', sorted(ds.keys())]
        for t in case['tables']:
            df = ds[t['name']]
            if 'j_valid_from' not in df or 'j_valid_to' not in df:
                return ['NO-J-VALID', t['name']]
            rows = len(df['j_valid_from'].data)
            if len(df['j_valid_to'].data) != rows:
                return ['J-VALID-LENGTHS', t['name']]
            cols = [[list(k.encode('utf-8')), df[k].indices[:].tolist(), df[k].values[:].tolist()]
                    for k in df.keys() if k not in ('j_valid_from', 'j_valid_to')]
            out.append([rows, cols])
        return out
    finally:
        _S.close_dataset(alias)


def _run(case):
    np = _np
    if case['op'] == 'imp':
        return _run_imp(case)
    path = os.path.join(_tmp, 'f%d.csv' % os.getpid())
    with open(path, 'wb') as f:
        f.write(text_of(case).encode('latin-1'))
    if case['op'] == 'typ':
        return _run_typed(case, path)
    if case['op'] == 'drv':
        df = _DF()
        imap = case['imap']
        imps = [_FI.IndexedStringImporter(None, df, 'c%d' % i, 0.0) for i in range(len(imap))]
        rows = _C.read_file_using_fast_csv_reader(path, case['crs'], np.array(case['offs'], dtype=np.int64),
                                                  list(imap), imps, None)
        return [int(rows), [[list(df.fields['c%d' % i].indices.data), list(df.fields['c%d' % i].values.data)]
                            for i in range(len(imap))]]
    _n[0] += 1
    name = 't%d_%d' % (os.getpid(), _n[0])
    df = _ds.create_dataframe(name)
    try:
        names = [k.strip() for k in names_of(case)]
        schema = {k: _FI.String() for i, k in enumerate(names) if i % 2 == 0}   # odd columns: not in the schema
        _P.read_csv_with_schema_dict(path, df, schema, 0.0, case.get('inc'), case.get('exc'), case['crs'])
        imap = imap_of(case)
        got = [k for k in df.keys() if not k.startswith('j_valid')]
        want = [names[j] for j in imap]
        if sorted(got) != sorted(want):
            return ['FIELDS', sorted(got)]
        return [len(df['j_valid_from'].data),
                [[df[k].indices[:].tolist(), df[k].values[:].tolist()] for k in want]]
    finally:
        del _ds[name]


def run(case):
    try:
        return _run(case)
    except Exception as e:
        if type(e) is Exception:      # the two `raise Exception(...)` of the kernel
            return 'EXC:Other'
        raise


# ----------------------------------------------------------------------------- model side
def _b(s):
    return list(s.encode('latin-1'))


def def_val(d):
    k = d[0]
    if k == 'str': return [0]
    if k == 'fix': return [1, d[1]]
    if k in ('cat', 'leaky'): return [2 if k == 'cat' else 3, [[_b(key), v] for key, v in d[1]]]
    if k == 'bool': return [4, d[1], d[2]]
    lo, hi = DT_RANGE[d[1]]
    return [5, lo, hi, d[3], list(str(d[2]).encode()), d[2]]


def imp_to_val(case):
    dct = lambda d: [] if d is None else [[[_b(k), [_b(x) for x in v]] for k, v in d]]
    tabs = []
    for t in case['tables']:
        names = imp_names(t)
        sch = t.get('sch') if t.get('sch') is not None else names
        tabs.append([_b(t['name']), _b(imp_text(t)), [_b(k) for k in names], [10] * len(names), [_b(k) for k in sch]])
    return [5, case['crs'], [_b(k) for k in case['keys']], tabs, dct(case.get('inc')), dct(case.get('exc'))]


def imp_wellformed(case):
    """a call the property speaks about: every table has a schema, the dictionaries name only imported tables and
    only columns of the table they name, every table's window holds its header plus its longest record"""
    tabs = case['tables']
    tnames = [t['name'] for t in tabs]
    if not tabs or any(n not in case['keys'] for n in tnames):
        return False
    for t in tabs:
        names = imp_names(t)
        if any(k in ('j_valid_from', 'j_valid_to') for k in (t.get('sch') if t.get('sch') is not None else names)):
            return False
        rl = record_lengths(imp_text(t))
        if not rl or 2 * case['crs'] * len(names) < rl[0] + max(rl[1:] or [0]):
            return False
    for d in (case.get('inc'), case.get('exc')):
        for k, v in (d or []):
            if k not in tnames:
                return False
            names = imp_names(tabs[tnames.index(k)])
            if any(x not in names for x in v):
                return False
    return True


def imp_expected(case):
    """the property's promise, from the tables and the dictionaries alone (None: not a call it speaks about)"""
    if not imp_wellformed(case):
        return None
    inc = None if case.get('inc') is None else {k: v for k, v in case['inc']}
    exc = None if case.get('exc') is None else {k: v for k, v in case['exc']}
    out = []
    for t in case['tables']:
        names = imp_names(t)
        want = list(range(len(names)))
        if inc is not None and t['name'] in inc:
            want = [j for j in want if names[j] in inc[t['name']]]
        if exc is not None and t['name'] in exc:
            want = [j for j in want if names[j] not in exc[t['name']]]
        rows, cols = enc_cols(t['tab'], want)
        out.append([rows, [[_b(names[j])] + c for j, c in zip(want, cols)]])
    return out


def imp_from_val(case, v):
    from harness import core
    if v and v[0] == -1:
        model = core.decode_err([core.ERR_TAG, v[1], v[2]])
    else:
        model = ['IMP', [[t[1], [[nm] + col for nm, col in zip(t[0], t[2])]] for t in v], [t[3] for t in v]]
    exp = imp_expected(case)
    if exp is None:
        return model
    return (model, ['IMP', exp])


def to_val(case):
    if case['op'] == 'imp':
        return imp_to_val(case)
    file = _b(text_of(case))
    opt = lambda x: [] if x is None else [[_b(k) for k in x]]
    if case['op'] == 'drv':
        return [1, file, case['crs'], ncols_of(case), case['offs'], case['imap']]
    if case['op'] == 'typ':
        defs = case['defs']
        if case.get('offs') is not None:
            imap = imap_of(case)
            return [3, file, case['crs'], ncols_of(case), case['offs'], imap, [def_val(defs[j]) for j in imap]]
        names = [k.strip() for k in case['hdr']]
        return [4, file, case['crs'], [_b(k) for k in names], [field_size(d) for d in defs], [def_val(d) for d in defs]]
    names = [k.strip() for k in names_of(case)]
    return [2, file, case['crs'], [_b(k) for k in names], [10] * len(names), opt(case.get('inc')), opt(case.get('exc'))]


def from_val(case, v):
    from harness import core
    if case['op'] == 'imp':
        return imp_from_val(case, v)
    if v[0] == -1:
        model = core.decode_err([core.ERR_TAG, v[1], v[2]])
    else:
        model = [v[0], v[1], v[2]]
        if case['op'] == 'typ':
            # a strict-mode numeric importer has no flag field
            cols = []
            for j, col in zip(imap_of(case), v[1]):
                d = case['defs'][j]
                if (d[0] == 'bool' and d[2] == 0) or (d[0] == 'int' and d[3] == 0):
                    col = [col[0], []]
                cols.append(col)
            model = [v[0], cols, v[2]]
    tab = expected_table(case)
    if tab is None:
        return model
    if case['op'] == 'typ':
        try:
            return (model, spec_typed(case, tab))
        except _NoSpec:
            return model
    return (model, enc_cols(tab, imap_of(case)))


def equal(case, impl, expected, mode):
    from harness import core
    if isinstance(expected, list) and expected and expected[0] == 'IMP':
        return impl == expected[1]
    if isinstance(expected, list):
        return impl == expected[:2]
    return core.results_equal(impl, expected, mode)


# ----------------------------------------------------------------------------- features
def imp_features(case, model):
    f = ['op:imp', 'in-regime' if imp_wellformed(case) else 'malformed-or-unsupported(model-vs-impl only)']
    if isinstance(model, str):
        f.append('err:' + model.split(':')[0])
        return f
    tabs = case['tables']
    tn = [t['name'] for t in tabs]
    f.append('imp:tables=%d' % len(tabs) if len(tabs) < 4 else 'imp:tables>=4')
    for nm, d in (('include', case.get('inc')), ('exclude', case.get('exc'))):
        if d is None:
            f.append('imp:%s=None' % nm); continue
        if not d:
            f.append('imp:%s={}' % nm); continue
        named = [k for k, _ in d]
        if any(n not in named for n in tn):
            f.append('imp:%s-dict-names-only-some-tables' % nm)
        else:
            f.append('imp:%s-dict-names-every-table' % nm)
        if any(not v for _, v in d): f.append('imp:%s-list-empty' % nm)
        if len(named) >= 2: f.append('imp:%s-dict-names>=2-tables' % nm)
    if case.get('inc') and case.get('exc'):
        a, b = set(k for k, _ in case['inc']), set(k for k, _ in case['exc'])
        if a & b: f.append('imp:table-in-include-and-exclude')
        if a - b and b - a: f.append('imp:one-table-included-another-excluded')
        if set(tn) - a - b: f.append('imp:table-named-by-neither-dictionary')
    if len(set(k for t in tabs for k in imp_names(t))) < sum(len(t['hdr']) for t in tabs):
        f.append('imp:same-column-name-in-two-tables')
    if any(k not in tn for k in case['keys']): f.append('imp:schema-has-a-table-that-is-not-imported')
    if [k for k in case['keys'] if k in tn] != tn: f.append('imp:files-order-differs-from-schema-order')
    if any(t.get('sch') is not None and len(t['sch']) < len(t['hdr']) for t in tabs): f.append('imp:column-not-in-schema')
    if any(len(tr) >= 2 for tr in model[2]): f.append('calls>=2')
    if any(r[0] == 0 for r in model[1]): f.append('zero-rows')
    if any(not r[1] for r in model[1]): f.append('imp:table-with-no-selected-column')
    txt = ''.join(imp_text(t) for t in tabs)
    if '\r' in txt: f.append('cr')
    if any(ord(ch) > 127 for ch in txt): f.append('multi-byte')
    return f


def features(case, model):
    if case['op'] == 'imp':
        return imp_features(case, model)
    f = []
    t = text_of(case)
    reg = in_regime(case)
    f.append('in-regime' if reg else 'out-of-regime')
    f.append('op:' + case['op'])
    if expected_table(case) is None:
        f.append('malformed-or-unsupported(model-vs-impl only)')
    if isinstance(model, str):
        f.append('err:' + model.split(':')[0])
        return f
    tr = model[2]
    nrows = model[0]
    if nrows == 0: f.append('zero-rows')
    if not t.endswith('\n'): f.append('eof-newline-appended')
    if len(tr) >= 2: f.append('calls>=2')
    if len(tr) >= 4: f.append('calls>=4')
    for k, (chunk, start, lc, nxt, rows, ifull, vfull, esc, cand) in enumerate(tr):
        last = (chunk + lc >= len(t))
        if ifull: f.append('regrow-indices')
        if vfull: f.append('regrow-values')
        if start > 0: f.append('re-entry-at-saved-offset')
        if ifull and nxt == lc: f.append('indices-full-at-window-end')
        if esc and not cand and not last: f.append('window-ends-inside-quoted-cell')
        if nxt == lc and not last and not ifull and not vfull: f.append('window-ends-exactly-at-record-end')
        if not last and lc > 0 and chunk + lc < len(t) and t[chunk + lc - 1] == '"' and esc:
            f.append('quote-is-last-byte-of-window')
            # the kernel cannot tell which of the two it is (`index + 1 == len(source)`: retry in next chunk)
            f.append('window-ends-between-the-two-quotes-of-an-escaped-quote' if t[chunk + lc] == '"'
                     else 'window-ends-right-after-closing-quote')
        if rows == 0 and k > 0: f.append('call-completes-no-record')
        if (vfull or ifull) and rows == 0 and k > 0: f.append('full-before-any-newline')
    if case['op'] == 'typ':
        f.extend(typed_features(case, tr))
    f = sorted(set(f))
    if any(ord(ch) > 127 for ch in t): f.append('multi-byte')
    if '""' in t.replace('""""', ''): f.append('doubled-quote')
    if '\r' in t: f.append('cr')
    if case.get('eol') == '\r\n': f.append('crlf-rendered-table')
    if normalize(t) != t: f.append('blank-skipped')
    if case.get('inc') is not None: f.append('include')
    if case.get('exc') is not None: f.append('exclude')
    if 'tab' in case:
        cells = [c for r in case['tab'] for c in r]
        if any(',' in c for c in cells): f.append('cell:separator')
        if any('\n' in c for c in cells): f.append('cell:newline')
        if any('"' in c for c in cells): f.append('cell:quote')
        if any(c == '' for c in cells): f.append('cell:empty')
        if any(c.startswith(' ') for c in cells): f.append('cell:leading-blank(quoted)')
    return f


def typed_features(case, tr):
    f = ['typed:' + ('driver-direct(tight budgets)' if case.get('offs') is not None else 'through-parsers')]
    f.append('typed:destination-' + ('memory-stand-in' if case.get('mem') else 'hdf5'))
    tab, defs = case['tab'], case['defs']
    per_pass, acc = [], 0            # the records each kernel call committed
    for e in tr:
        per_pass.append((acc, acc + e[4])); acc += e[4]
    np_ = len(per_pass)
    if np_ >= 3: f.append('typed:passes>=3')
    if np_ >= 6: f.append('typed:passes>=6')
    if any(a == b for a, b in per_pass[1:]): f.append('typed:pass-commits-no-record')
    for j in imap_of(case):
        d = defs[j]
        f.append('typed:kind:' + d[0])
        if d[0] == 'leaky':
            keys = set(k for k, _ in d[1])
            free = [sum(len(r[j]) for r in tab[a:b] if r[j] not in keys) for a, b in per_pass]
            nz = [i for i, x in enumerate(free) if x > 0]
            if len(nz) >= 2: f.append('typed:freetext-in->=2-passes')
            if len(nz) >= 3: f.append('typed:freetext-in->=3-passes')
            if nz and any(free[i] > 0 for i in range(nz[0] + 2, np_)):
                f.append('typed:freetext-two-or-more-passes-after-the-first-freetext')
            if nz and any(x == 0 for x in free[nz[0]:]): f.append('typed:pass-without-freetext-after-freetext')
        if d[0] == 'str' and np_ >= 3 and any(len(r[j]) for r in tab[:per_pass[max(0, np_ - 3)][1]]):
            f.append('typed:string-bytes-before-the-last-two-passes')
    return f


def nontrivial(case, model):
    if isinstance(model, str):
        return model != 'BADCASE'
    if case['op'] == 'imp':
        return True
    return model[0] >= 1 or 'hdr' in case


def known(case, impl, model, spec, mode):
    return None


# ----------------------------------------------------------------------------- generators
POOL = ['', 'a', 'bc', ',', '"', '\n', ' x', 'é'.encode('utf-8').decode('latin-1'), 'p"q,r\ns']
HDRS = {1: ['a'], 2: ['a', 'b'], 3: ['a', 'bb', 'c'], 4: ['a', 'b', 'c', 'd'], 5: ['a', 'b', 'c', 'd', 'e'],
        6: ['a', 'b', 'c', 'd', 'e', 'f'], 7: ['a', 'b', 'c', 'd', 'e', 'f', 'g']}


def min_crs(hdr, tab, style, nl, eol='\n'):
    t = render(hdr, tab, style, nl, eol)
    rl = record_lengths(t)
    need = rl[0] + max(rl[1:] or [0])
    w = 2 * len(hdr)
    return max(1, -(-need // w)), len(t)


def crs_values(hdr, tab, style, nl, extra=2, cap=None, eol='\n'):
    lo, size = min_crs(hdr, tab, style, nl, eol)
    hi = max(lo, -(-(size + 2) // (2 * len(hdr)))) + extra
    vals = list(range(lo, hi + 1))
    if cap and len(vals) > cap:
        step = len(vals) / float(cap)
        vals = sorted(set([vals[int(i * step)] for i in range(cap)] + [vals[-1]]))
    return vals


def big_offs(n, tab, style):
    m = 4 + sum(2 * len(c) + 2 for r in tab for c in r)
    return [m * i for i in range(n + 1)]


def drv_case(hdr, tab, style, nl, crs, offs, imap=None):
    return {'op': 'drv', 'hdr': hdr, 'tab': tab, 'style': style, 'nl': nl, 'crs': crs, 'offs': offs,
            'imap': list(range(len(hdr))) if imap is None else imap}


def rand_cell(rng, long_p=0.1):
    k = rng.random()
    if k < 0.12: return ''
    if k < long_p + 0.12:
        return ''.join(rng.choice('ab,"\n xyz\r') for _ in range(rng.randint(8, 40)))
    # every byte that is special to the reader, alone and in the pairs it looks ahead for (CR LF, LF CR, "" ...)
    return ''.join(rng.choice(['a', 'b', 'z', ',', '"', '\n', ' ', 'é'.encode('utf-8').decode('latin-1'),
                               '中'.encode('utf-8').decode('latin-1'), '""', '\r', '\r\n', '\n\r', '"\r'])
                   for _ in range(rng.randint(1, 5)))


def text_case(op, t, crs, names, rng=None, **kw):
    """text-level case; expected table from the reference parser on the normalised text (if rectangular)."""
    c = {'op': op, 't': t, 'crs': crs, 'nc': len(names), 'names': names}
    c.update(kw)
    try:
        rows = ref_parse(normalize(t))
    except csv.Error:
        rows = None
    if rows and all(len(r) == len(names) for r in rows):
        c['exp'] = rows[1:]
    if op == 'drv':
        c.setdefault('offs', [200 * i for i in range(len(names) + 1)])
        c.setdefault('imap', list(range(len(names))))
    return c



# ----------------------------------------------------------------------------- typed generators (SC05)
U_E = 'é'.encode('utf-8').decode('latin-1')
CATS1 = [['', 0], ['a', 1], ['ab', 2]]
CATS2 = [['yes', 1], ['no', 2], [U_E, 3], ['maybe so', 4]]
CATS0 = [['', 0]]             # all keys empty: _field_size was 0 (F-C05f)
TYPED_KINDS = {
    # name: (definition, small cell pool (first cells = the most telling ones), extra cells for the random part)
    'leaky': (['leaky', CATS1], ['x', 'a', '', 'abc'], ['ab', 'b,c', 'q"r', 'two\nlines', U_E, ' lead', 'a' * 23, 'two\r\nlines', 'a\r', '\r']),
    'leaky2': (['leaky', CATS2], ['yes', 'nope', U_E + U_E, ''], ['no', 'maybe so', 'maybe', 'x', U_E, 'yes,no']),
    'leaky0': (['leaky', CATS0], ['', 'x', 'yz', 'a,b'], ['q', U_E]),
    'cat': (['cat', CATS1], ['a', 'x', '', 'ab'], ['abc', 'b', ' a']),
    'fix': (['fix', 3], ['abcd', 'a', '', U_E + 'z'], ['abc', 'ab,cd', 'x"y', 'a\r\nb', '\r\n\r']),
    'bool': (['bool', 0, 2], ['yes', '0', '', 'q'], ['TRUE', 'off', ' y ', 'No', '2']),
    'bool1': (['bool', 1, 1], ['1', 'n', '', 'False'], ['on', 'T']),
    'int': (['int', 'int8', 7, 2], ['1', '-3', '', '300'], ['127', '128', 'x', ' 12', '1_0', '-128']),
    'int1': (['int', 'int32', 0, 1], ['12', '', '-70000', '5'], ['2147483647', '0012', '+4']),
    'int0': (['int', 'uint8', 0, 0], ['1', '255', '0', '17'], ['9', '10']),
    'str': (['str'], ['x', '', 'p,q', 'abc'], ['q"r', 'two\nlines', U_E, 'a' * 23, 'two\r\nlines', '\r\n', 'cr\rcr']),
}


def typ_case(hdr, tab, style, nl, crs, defs, offs=None, imap=None, eol='\n', mem=False):
    c = {'op': 'typ', 'hdr': hdr, 'tab': tab, 'style': style, 'nl': nl, 'crs': crs, 'defs': defs}
    if mem: c['mem'] = True          # destination = memory stand-in (fast); else a real HDF5 dataframe (~30 ms)
    if offs is not None: c['offs'] = offs
    if imap is not None: c['imap'] = imap
    if eol != '\n': c['eol'] = eol
    return c


def passes_crs(hdr, tab, style, nl, k, eol='\n'):
    """a chunk_row_size (>= the smallest supported one) for which the file is read in about k windows"""
    lo, size = min_crs(hdr, tab, style, nl, eol)
    return max(lo, -(-size // (2 * len(hdr) * max(1, k))))


def gen_typed(tier, rng):
    from harness import hot
    big = tier == 'thorough'
    kinds = list(TYPED_KINDS)
    # TA. exhaustive: one typed column next to an id column, every cell sequence of 3 rows over 4 cells and of 4 rows
    #     over 3 cells, EVERY supported chunk_row_size up to one window (the smallest reads one record per pass)
    n = 0
    stateful = ('leaky', 'leaky2', 'str', 'int')        # importers / fields with more than an append position
    for kname in kinds:
        d, pool, _ = TYPED_KINDS[kname]
        shapes = [(3, pool[:4])] + ([(4, pool[:3])] if big or kname in stateful else []) + ([(5, pool[:3])] if big else [])
        for r, cells in shapes:
            for seq in itertools.product(cells, repeat=r):
                n += 1
                first = n % 2 == 0
                hdr = ['t', 'id'] if first else ['id', 't']
                defs = [d, ['str']] if first else [['str'], d]
                tab = [[c, 'r%d' % i] if first else ['r%d' % i, c] for i, c in enumerate(seq)]
                nl = n % 3 != 0
                for crs in crs_values(hdr, tab, 'min', nl, extra=0, cap=None if big else 3):
                    yield typ_case(hdr, tab, 'min', nl, crs, defs, mem=(n % 8 != 0))
    # TB. tight value budgets with typed importers (driver called directly): values-full, re-entry at the saved
    #     offset, passes that commit no record, the importer allocating from the regrown column_offsets
    for kname in (kinds if big else ('leaky', 'cat', 'fix', 'bool', 'int', 'str')):
        d, pool, _ = TYPED_KINDS[kname]
        for seq in itertools.product(pool[:3], repeat=3):
            tab = [['r%d' % i, c] for i, c in enumerate(seq)]
            for budget in ((1, 2, 3, 5) if big else (1, 3)):
                for crs in crs_values(HDRS[2], tab, 'min', True, extra=0, cap=3 if big else 2):
                    n += 1
                    yield typ_case(HDRS[2], tab, 'min', True, crs, [['str'], d], offs=[0, budget, 2 * budget], mem=(n % 8 != 0))
    # TE. long histories: 6 / 9 / 12 records read one per pass (and two, three per pass), the cell pattern rotating
    #     through the pool, so that importer state set in pass i is used in pass i+2 .. i+11
    for kname in kinds:
        d, pool, _ = TYPED_KINDS[kname]
        for r in (6, 9, 12) + ((20,) if big else ()):
            for shift in range(len(pool)):
                for step in ((1, 3) if big else (1,)):
                    tab = [['r%d' % i, pool[(i * step + shift) % len(pool)]] for i in range(r)]
                    lo, _ = min_crs(HDRS[2], tab, 'min', True)
                    for crs in (lo, lo + 1, 2 * lo):
                        yield typ_case(HDRS[2], tab, 'min', True, crs, [['str'], d], mem=True)
    # TC. structured random: 2..5 columns of random kinds, 3..24 rows (many reader passes), both quoting styles,
    #     CRLF, production budgets through parsers or random tight budgets through the driver
    nrand = (3000 if big else 500) * (3 if hot.changed() else 1)
    for _ in range(nrand):
        yield rand_typed(rng, rng.randint(3, 24), None)
    # TD. change-directed: a new small literal K in the tree under test -> K-1, K, K+1, 2K rows / reader passes /
    #     cell bytes, with the state-carrying kinds
    for K in hot.hot_sizes():
        if K > 400:
            continue
        for rows in sorted({max(1, K - 1), K, K + 1, 2 * K}):
            if rows > 400:
                continue
            for passes in sorted({1, 2, max(1, K - 1), K, K + 1}):
                yield rand_typed(rng, rows, passes, kinds=['leaky', 'leaky2', 'str', 'int'])
        for kname in ('leaky', 'str', 'fix'):
            d, pool, _ = TYPED_KINDS[kname]
            for L in sorted({max(1, K - 1), K, K + 1}):
                if L > 2000:
                    continue
                tab = [['r%d' % i, 'z' * L if i % 2 == 0 else pool[i % len(pool)]] for i in range(5)]
                for k in (1, 3, 5):
                    yield typ_case(HDRS[2], tab, 'min', True, passes_crs(HDRS[2], tab, 'min', True, k), [['str'], d], mem=True)


def rand_typed(rng, r, passes, kinds=None):
    c = rng.randint(2, 5)
    hdr = list(HDRS[c])
    names = [rng.choice(kinds or list(TYPED_KINDS)) for _ in range(c)]
    if not any(k.startswith('leaky') for k in names) and rng.random() < 0.5:
        names[rng.randrange(c)] = rng.choice(['leaky', 'leaky2'])
    defs = [TYPED_KINDS[k][0] for k in names]
    tab = []
    for _ in range(r):
        row = []
        for k in names:
            _, pool, extra = TYPED_KINDS[k]
            x = rng.random()
            row.append(rng.choice(pool) if x < 0.7 else rng.choice(extra) if x < 0.95 else rand_cell(rng))
        tab.append(row)
    style = rng.choice(['min', 'min', 'all'])
    nl = rng.random() < 0.6
    eol = '\r\n' if rng.random() < 0.15 else '\n'
    if passes is None:
        crs = rng.choice(crs_values(hdr, tab, style, nl, extra=1, eol=eol))
        if rng.random() < 0.5:
            crs = passes_crs(hdr, tab, style, nl, rng.randint(3, 12), eol)
    else:
        crs = passes_crs(hdr, tab, style, nl, passes, eol)
    offs = imap = None
    if rng.random() < 0.4:
        offs = [0]
        for _ in range(c):
            offs.append(offs[-1] + rng.randint(1, 12))
        if rng.random() < 0.3:
            imap = [j for j in range(c) if rng.random() < 0.7]
    return typ_case(hdr, tab, style, nl, crs, defs, offs, imap, eol, mem=rng.random() < 0.6)


# ----------------------------------------------------------------------------- TC05: every special byte in the cell alphabet
# The bytes the kernel compares against or looks ahead for: separator, quote, LF, blank, CR.  The pools above had no CR.
CR_POOL = ['', 'a', '\r', '\r\n', '\n\r', 'x\r\ny', '"\r', '\r"', ',\r', ' \r\n']


def gen_special_bytes(tier, rng):
    big = tier == 'thorough'
    # SA. exhaustive: every table over the CR pool for the small shapes x LF and CRLF line breaks x final newline x
    #     EVERY supported chunk_row_size (a window may end between the CR and the LF of a pair, inside or outside quotes)
    shapes = [(1, 1), (1, 2), (2, 1)] + ([(1, 3), (2, 2)] if big else [])
    for (r, c) in shapes:
        hdr = HDRS[c]
        pool = CR_POOL if r * c <= 2 else CR_POOL[:8] if r * c == 3 else CR_POOL[:6]
        for cells in itertools.product(pool, repeat=r * c):
            if not any('\r' in x for x in cells):
                continue                                   # section A has them
            tab = [list(cells[i * c:(i + 1) * c]) for i in range(r)]
            for eol in ('\n', '\r\n'):
                for nl in (True, False):
                    for crs in crs_values(hdr, tab, 'min', nl, extra=1, eol=eol):
                        case = drv_case(hdr, tab, 'min', nl, crs, big_offs(c, tab, 'min'))
                        if eol != '\n': case['eol'] = eol
                        yield case
    # SB. tight budgets on cells with CR (values-full in the middle of a CR LF pair, re-entry at the saved offset)
    for cells in itertools.product(['a', '\r\n', 'x\r\ny', '\r'], repeat=2):
        tab = [[cells[0], 'k'], ['m', cells[1]]]
        for budget in (1, 2, 3):
            for eol in ('\n', '\r\n'):
                for crs in crs_values(HDRS[2], tab, 'min', True, extra=0, cap=3, eol=eol):
                    case = drv_case(HDRS[2], tab, 'min', True, crs, [0, budget, 2 * budget])
                    if eol != '\n': case['eol'] = eol
                    yield case
    # SC. the full import (HDF5, production budgets) and typed columns on cells with CR
    for k, cells in enumerate(itertools.product(CR_POOL[1:6], repeat=2)):
        tab = [[cells[0], 'k%d' % k], ['m', cells[1]], [cells[1], cells[0]]]
        eol = '\r\n' if k % 2 else '\n'
        crs = crs_values(HDRS[2], tab, 'all' if k % 3 == 0 else 'min', True, extra=0, eol=eol)
        c = {'op': 'csv', 'hdr': HDRS[2], 'tab': tab, 'style': 'all' if k % 3 == 0 else 'min', 'nl': True, 'crs': crs[0 if k % 2 else -1]}
        if eol != '\n': c['eol'] = eol
        yield c
        for kname in ('leaky', 'fix', 'str'):
            d = TYPED_KINDS[kname][0]
            ttab = [['r%d' % i, row[0]] for i, row in enumerate(tab)]
            tcrs = crs_values(HDRS[2], ttab, 'min', True, extra=0, eol=eol)
            yield typ_case(HDRS[2], ttab, 'min', True, tcrs[0], [['str'], d], eol=eol, mem=True)
    # SD. text level, judged against csv.reader: CR / CR LF inside quoted cells of LF and CRLF files, every chunk size
    texts = ['a,b\nx,"p\rq"\n', 'a,b\nx,"p\r\nq"\n', 'a,b\r\n"p\r\nq",y\r\n', 'a,b\r\nx,"\r\n"\r\n', 'a,b\n"\r\n",\r\n',
             'a,b\r\n"\r","\n"\r\n"\r\n\r\n",""\r\n', 'a,b\n"x\r",q\n"""\r\n""",z', 'a,b\r\n "x",y\r\n  "\r\n",z\r\n']
    for t in texts:
        for crs in range(2, 12):
            yield text_case('drv', t, crs, ['a', 'b'])
    # SE. a lone CR outside quotes is not RFC-4180 (TEXTDATA has no CR; csv.reader takes it for a line break, the reader
    #     keeps it as data): model-vs-implementation only
    for t in ['a,b\nx,p\rq\n', 'a,b\nx\ry,q\n', 'a,b\rx,y\r', 'a,b\nx,y\r', 'a,b\nx,"y"\r', 'a,b\nx,"y"\rz\n', 'a,b\nx,y\r\r\n']:
        for crs in (2, 3, 4, 50):
            c = text_case('drv', t, crs, ['a', 'b'])
            c.pop('exp', None)
            yield c


# ----------------------------------------------------------------------------- TC05: import_with_schema, several tables
IMP_TABLES = [   # name, header, rows: the same column names occur in several tables with different data
    ('ta', ['a', 'b'], [['1', 'x'], ['2', 'y,z']]),
    ('tb', ['a', 'b'], [['7', 'p'], ['8', ''], ['9', 'q"r']]),
    ('t', ['b', 'c', 'a'], [['u', 'v', 'w']]),
    ('tab', ['k', 'a'], [['l\r\nm', 'n']]),
]


def imp_case(tables, crs, inc=None, exc=None, keys=None):
    return {'op': 'imp', 'tables': tables, 'crs': crs, 'inc': inc, 'exc': exc,
            'keys': list(keys) if keys is not None else [t['name'] for t in tables]}


def imp_table(name, hdr, tab, style='min', nl=True, eol='\n', sch=None):
    t = {'name': name, 'hdr': list(hdr), 'tab': [list(r) for r in tab], 'style': style, 'nl': nl}
    if eol != '\n': t['eol'] = eol
    if sch is not None: t['sch'] = sch
    return t


def imp_crs(tables, k=1):
    """a chunk_row_size supported by every table; k = 1: each file in one window, larger k: about k windows"""
    lo = max(min_crs(t['hdr'], t['tab'], t.get('style', 'min'), t.get('nl', True), t.get('eol', '\n'))[0] for t in tables)
    one = max(-(-(len(imp_text(t)) + 2) // (2 * len(t['hdr']))) for t in tables)
    return max(lo, -(-one // k))


def sel_dicts(tables, forms):
    """every dictionary over `tables` in which each table is unnamed (None) or named with one of `forms(table)`;
    all-unnamed gives both None (no dictionary) and [] (empty dictionary)"""
    per = [[None] + forms(t) for t in tables]
    for combo in itertools.product(*per):
        d = [[t['name'], list(v)] for t, v in zip(tables, combo) if v is not None]
        if not d:
            yield None
        yield d


def gen_import(tier, rng):
    from harness import hot
    big = tier == 'thorough'
    base = [imp_table(n, h, r) for n, h, r in IMP_TABLES]
    inc_forms = lambda t: [[], [t['hdr'][0]], [t['hdr'][-1]], list(t['hdr'])]
    exc_forms = lambda t: [[], [t['hdr'][0]], list(t['hdr'])]
    n = 0
    # IA. exhaustive: 1, 2 and 3 tables x every include dictionary (each table unnamed / [] / first / last / all columns;
    #     no dictionary / empty dictionary) x every exclude dictionary likewise
    for T in (1, 2, 3):
        tabs = base[:T]
        fi = inc_forms if T < 3 else (lambda t: [[t['hdr'][0]], list(t['hdr'])])
        fe = exc_forms if T < 3 else (lambda t: [[t['hdr'][-1]]])
        for inc in sel_dicts(tabs, fi):
            for exc in sel_dicts(tabs, fe):
                n += 1
                k = 1 if n % 4 else 3
                yield imp_case(tabs, imp_crs(tabs, k), inc, exc)
    # IB. order of `files` vs order of the schema / of the dictionaries; schema with tables that are not imported;
    #     columns that are not in the schema; 4 tables
    for perm in itertools.permutations(range(3)):
        tabs = [base[i] for i in perm]
        for named in ([0], [1], [2], [0, 2], [2, 0]):
            inc = [[base[i]['name'], [base[i]['hdr'][-1]]] for i in named]
            yield imp_case(tabs, imp_crs(tabs), inc, None, keys=[t['name'] for t in base])
            yield imp_case(tabs, imp_crs(tabs, 2), None, inc, keys=[t['name'] for t in base])
            yield imp_case(tabs, imp_crs(tabs), inc[:1], inc[1:] or None, keys=[t['name'] for t in base])
    four = [imp_table(nm, h, r, sch=[h[0]]) for nm, h, r in IMP_TABLES]
    for mask in range(16):
        inc = [[t['name'], [t['hdr'][0]]] for i, t in enumerate(four) if mask >> i & 1]
        yield imp_case(four, imp_crs(four), inc, None)
        yield imp_case(four, imp_crs(four, 2), None, inc)
    # IC. structured random: 2..5 tables of random shape and cells (CR, quotes, multi-byte), random dictionaries
    pool_names = ['a', 'b', 'c', 'd', 'e', 'id', U_E]
    tnames = ['p', 'pp', 'q', 'tests', 'patients', 'x1']
    for _ in range((1200 if big else 220) * (3 if hot.changed() else 1)):
        T = rng.randint(2, 5) if rng.random() < 0.85 else 1
        tabs = []
        for name in rng.sample(tnames, T):
            c = rng.randint(1, 5)
            hdr = rng.sample(pool_names, c)
            tab = [[rand_cell(rng, 0.05) for _ in range(c)] for _ in range(rng.randint(0, 5))]
            sch = None if rng.random() < 0.6 else [h for h in hdr if rng.random() < 0.6]
            tabs.append(imp_table(name, hdr, tab, rng.choice(['min', 'min', 'all']), rng.random() < 0.6,
                                  '\r\n' if rng.random() < 0.2 else '\n', sch))
        def rdict(p_named):
            k = rng.random()
            if k < 0.25: return None
            d = [[t['name'], [h for h in t['hdr'] if rng.random() < 0.6]] for t in tabs if rng.random() < p_named]
            rng.shuffle(d)
            return d
        keys = [t['name'] for t in tabs] + (['other'] if rng.random() < 0.3 else [])
        rng.shuffle(keys)
        yield imp_case(tabs, imp_crs(tabs, rng.choice([1, 1, 2, 4])), rdict(0.5), rdict(0.4), keys)
    # ID. change-directed: a new small literal K -> K-1, K, K+1 tables / columns, dictionaries naming K-1 of them
    for K in hot.hot_sizes():
        if K > 8:
            continue
        for T in sorted({max(1, K - 1), K, K + 1}):
            tabs = [imp_table('t%d' % i, ['c%d' % j for j in range(max(1, K))], [['%d.%d' % (i, j) for j in range(max(1, K))]])
                    for i in range(T)]
            for m in sorted({0, 1, max(0, T - 1), T}):
                d = [[t['name'], [t['hdr'][-1]]] for t in tabs[:m]]
                yield imp_case(tabs, imp_crs(tabs), d, None)
                yield imp_case(tabs, imp_crs(tabs), None, d)
    # IE. calls the property does not speak about (model-vs-implementation only): a dictionary naming a table that is
    #     not imported / a column the table does not have, a table without schema, a reserved column name, no file
    two = base[:2]
    yield imp_case(two, 8, [['tz', ['a']]], None)
    yield imp_case(two, 8, None, [['tz', ['a']]])
    yield imp_case(two, 8, [['ta', ['zz']]], None)
    yield imp_case(two, 8, None, [['tb', ['a', 'zz']]])
    yield imp_case(two, 8, [['t', ['a']]], None, keys=['ta', 'tb', 't'])
    yield imp_case(two, 8, None, None, keys=['ta'])
    yield imp_case(two, 8, None, None, keys=['tb', 'zz'])
    yield imp_case([], 8, None, None, keys=['ta'])
    yield imp_case([base[0], imp_table('tb', ['a', 'j_valid_from'], [['1', '2']])], 8, None, None)
    yield imp_case([imp_table('tb', ['a', 'b'], [['1', '2']], sch=['a', 'j_valid_to']), base[0]], 8, None, None)
    yield imp_case(two, 1, [['ta', ['a']]], None)           # window below the regime


def gen(tier, rng):
    big = tier == 'thorough'
    # A. exhaustive small tables x every supported chunk_row_size x final newline, generous budgets
    shapes = [(0, 1), (0, 2), (1, 1), (1, 2), (2, 1), (1, 3)] + ([(2, 2), (3, 1)] if big else [])
    for (r, c) in shapes:
        hdr = HDRS[c]
        for cells in itertools.product(POOL, repeat=r * c):
            tab = [list(cells[i * c:(i + 1) * c]) for i in range(r)]
            for nl in (True, False):
                for crs in crs_values(hdr, tab, 'min', nl, extra=1):
                    yield drv_case(hdr, tab, 'min', nl, crs, big_offs(c, tab, 'min'))
    # (2,2) over a smaller pool in the quick tier
    if not big:
        small = ['', 'a', ',', '"', '\n', ' x']
        for cells in itertools.product(small, repeat=4):
            tab = [list(cells[0:2]), list(cells[2:4])]
            for crs in crs_values(HDRS[2], tab, 'min', True, extra=0):
                yield drv_case(HDRS[2], tab, 'min', True, crs, big_offs(2, tab, 'min'))
    # B. tight value budgets: every budget 1..4 per column on small tables (values-full, re-entry, repeated doubling)
    pool_b = ['', 'a', 'abc', '"', 'x,y', 'abcdefg']
    for c in (1, 2):
        for cells in itertools.product(pool_b, repeat=2 * c):
            tab = [list(cells[0:c]), list(cells[c:2 * c])]
            for budget in (1, 2, 3, 5):
                for crs in crs_values(HDRS[c], tab, 'min', True, extra=0, cap=3):
                    yield drv_case(HDRS[c], tab, 'min', True, crs, [budget * i for i in range(c + 1)])
    # C. all-empty rows: index buffer fills exactly at the window end
    for c in (2, 3):
        for n in range(0, 14 if big else 10):
            tab = [[''] * c for _ in range(n)]
            for nl in (True, False):
                for crs in range(1, 6):
                    yield drv_case(HDRS[c], tab, 'min', nl, crs, [5 * i for i in range(c + 1)])
    # D. structured random: longer tables, random budgets, both quoting styles
    for _ in range(6000 if big else 1500):
        c = rng.randint(1, 6)
        r = rng.randint(0, 8)
        hdr = list(HDRS[c])
        if rng.random() < 0.1:
            hdr[rng.randrange(c)] = 'x,' + str(rng.randint(0, 9))
        tab = [[rand_cell(rng) for _ in range(c)] for _ in range(r)]
        style = rng.choice(['min', 'min', 'all'])
        nl = rng.random() < 0.6
        eol = '\r\n' if rng.random() < 0.2 else '\n'
        vals = crs_values(hdr, tab, style, nl, extra=1, eol=eol)
        crs = rng.choice(vals)
        if rng.random() < 0.5:
            offs = big_offs(c, tab, style)
        else:
            offs = [0]
            for _ in range(c):
                offs.append(offs[-1] + rng.randint(1, 12))
        imap = [j for j in range(c) if rng.random() < 0.8]
        case = drv_case(hdr, tab, style, nl, crs, offs, imap)
        if eol != '\n':
            case['eol'] = eol          # RFC-4180 line breaks (and what csv.writer emits by default)
        yield case
    # E. full import through parsers.read_csv_with_schema_dict (HDF5), include / exclude, >= 6 columns reach
    #    the 10*chunk_row_size value budget
    for _ in range(2500 if big else 700):
        c = rng.choice([1, 2, 3, 6, 6, 7])
        r = rng.randint(0, 6)
        hdr = list(HDRS[c])
        tab = [[rand_cell(rng, 0.05) for _ in range(c)] for _ in range(r)]
        if c >= 6 and r and rng.random() < 0.7:
            # one long cell: forces values-full with the production budgets
            tab[rng.randrange(r)][rng.randrange(c)] = ''.join(rng.choice('abc "') for _ in range(rng.randint(10, 60)))
        style = rng.choice(['min', 'min', 'all'])
        nl = rng.random() < 0.6
        crs = rng.choice(crs_values(hdr, tab, style, nl, extra=1))
        case = {'op': 'csv', 'hdr': hdr, 'tab': tab, 'style': style, 'nl': nl, 'crs': crs}
        k = rng.random()
        if k < 0.3:
            case['inc'] = [h for h in hdr if rng.random() < 0.6]
        elif k < 0.6:
            case['exc'] = [h for h in hdr if rng.random() < 0.4]
        elif k < 0.7:
            case['inc'] = [h for h in hdr if rng.random() < 0.7]
            case['exc'] = [h for h in hdr if rng.random() < 0.3]
        yield case
    # T. typed schemas: importer state carried over >= 3 reader passes (SC05)
    for case in gen_typed(tier, rng):
        yield case
    # S. every special byte in the cell alphabet: CR, CR LF (TC05)
    for case in gen_special_bytes(tier, rng):
        yield case
    # I. import_with_schema over several tables, dictionaries naming only some of them (TC05)
    for case in gen_import(tier, rng):
        yield case
    # F. text-level: unquoted blanks after separators / line breaks (skipped by the reader), CRLF
    blanks = ['a,b\nx,y\n z,w\n', 'a,b\nx, y\n  z,  w\nq,r\n', 'a,b\n x ,y \n,  \n', 'a,b\nx,y\n  "z",w\n',
              'a,b\n  z,w\nx,y\n  z,w\nx,y\n  z,w\n', 'a\n x\n  y\nz\n', 'a,b\nx,   \n   ,y\n']
    for t in blanks:
        for crs in range(1, 12):
            yield text_case('drv', t, crs, ['a', 'b'] if ',' in t.split('\n')[0] else ['a'])
    crlf = ['a,b\r\nx,y\r\n', 'a,b\r\nx,"y"\r\n', 'a,b\r\n"x","y,z"\r\np,q', 'a,b\r\nx,y\r\n\r\n'[:-2]]
    for t in crlf:
        for crs in (3, 4, 5, 50):
            yield text_case('drv', t, crs, ['a', 'b'])
    # G. malformed stream (model-vs-implementation only): ragged rows, stray quotes, windows below the regime
    bad = ['a,b\nx\ny,z\n', 'a,b\nx,y,z\n', 'a,b\nx"y,z\n', 'a,b\n"x"y,z\n', 'a,b\n"x,y\n', 'a,b\nx,"y\n"\n',
           'a,b', 'a,b\n', '\n', 'a,b\n\n\n', 'a,b\n"",""\n"']
    for t in bad:
        for crs in (1, 2, 3, 10):
            c = text_case('drv', t, crs, ['a', 'b'])
            c.pop('exp', None)          # not well-formed RFC-4180 (csv.reader is more lenient): no expectation
            yield c
    for (r, c) in [(1, 2), (2, 1)]:
        hdr = HDRS[c]
        for cells in itertools.product(['a', 'abcd', '"', 'x\ny'], repeat=r * c):
            tab = [list(cells[i * c:(i + 1) * c]) for i in range(r)]
            lo, _ = min_crs(hdr, tab, 'min', True)
            for crs in range(1, lo):
                yield drv_case(hdr, tab, 'min', True, crs, big_offs(c, tab, 'min'))


def imp_shrink(case):
    tabs = case['tables']
    def drop(d, name):
        return None if d is None else [kv for kv in d if kv[0] != name]
    for i, t in enumerate(tabs):
        if len(tabs) > 1:
            c = dict(case); c['tables'] = tabs[:i] + tabs[i + 1:]
            c['inc'], c['exc'] = drop(case.get('inc'), t['name']), drop(case.get('exc'), t['name']); yield c
        for r in range(len(t['tab'])):
            t2 = dict(t); t2['tab'] = t['tab'][:r] + t['tab'][r + 1:]
            c = dict(case); c['tables'] = tabs[:i] + [t2] + tabs[i + 1:]; yield c
        for r, row in enumerate(t['tab']):
            for j, cell in enumerate(row):
                if len(cell) > 1:
                    t2 = dict(t); t2['tab'] = [list(x) for x in t['tab']]; t2['tab'][r][j] = cell[:len(cell) // 2]
                    c = dict(case); c['tables'] = tabs[:i] + [t2] + tabs[i + 1:]; yield c
    for k in ('inc', 'exc'):
        d = case.get(k)
        if d is not None:
            c = dict(case); c[k] = None; yield c
            for i in range(len(d)):
                c = dict(case); c[k] = d[:i] + d[i + 1:]; yield c
    c = dict(case); c['crs'] = case['crs'] + 1; yield c


def shrink(case):
    if case['op'] == 'imp':
        for c in imp_shrink(case):
            yield c
        return
    if 'tab' not in case:
        return
    tab, hdr = case['tab'], case['hdr']
    for i in range(len(tab)):
        c = dict(case); c['tab'] = tab[:i] + tab[i + 1:]; yield c
    for i, r in enumerate(tab):
        for j, cell in enumerate(r):
            if len(cell) > 0:
                for cut in (cell[:len(cell) // 2], cell[1:], cell[:-1]):
                    c = dict(case); c['tab'] = [list(x) for x in tab]; c['tab'][i][j] = cut; yield c
    if case['crs'] > 1:
        c = dict(case); c['crs'] = case['crs'] - 1; yield c
    c = dict(case); c['crs'] = case['crs'] + 1; yield c
    if case['op'] == 'csv':
        for k in ('inc', 'exc'):
            if case.get(k) is not None:
                c = dict(case); c[k] = None; yield c


RULE = ('exhaustive small scope: every table over a 9-cell grammar pool (empty, plain, separator, quote, newline, '
        'quoted leading blank, multi-byte, mixed) for shapes up to 1x3 / 2x1 (2x2 over 6 cells; thorough: 2x2 and 3x1 '
        'over 9) x final newline yes/no x EVERY chunk_row_size from the smallest supported one (window = header + '
        'longest record) to one window holding the file; every per-column value budget in {1,2,3,5} bytes on 2-row '
        'tables (forces values-full, re-entry at the saved offset, repeated doubling); all-empty tables that fill the '
        'index buffer exactly at the window end; then seeded random tables (<= 8x6, long cells, random budgets, both '
        'quoting styles, 20% with CRLF line breaks, include/exclude through the real HDF5 import with >= 6 columns so the production budget '
        '10*chunk_row_size overflows); text-level blank-skipping and CRLF files judged against csv.reader; a malformed '
        'stream (ragged, stray quotes, windows below the regime) compared model-vs-implementation only. TYPED schemas (SC05): '
        'one typed column (free-text categorical x3 key tables incl. the all-empty-keys table, categorical, fixed string, bool relaxed/allow_empty, int8 relaxed, '
        'int32 allow_empty, uint8 strict, string) next to an id column, EVERY cell sequence of 3 rows over 4 cells and 4 rows over 3 '
        'cells x every supported chunk_row_size (the smallest reads one record per pass, so importer state crosses >= 3 passes); '
        'every 3-row sequence with 1- and 3-byte value budgets through the driver (passes that commit no record); 6/9/12 records '
        'read one, two and three per pass with the cell pattern rotating through the pool (long histories); seeded random '
        'tables of 2..5 typed columns x 3..24 rows read in 3..12 passes; lengths / pass counts around every new small literal of the '
        'tree under test; 1 typed case in 8 (random part: 4 in 10) writes into a real HDF5 dataframe (~30 ms), the others into a '
        'casting, copying memory stand-in. SPECIAL BYTES (TC05): the cell alphabets hold every byte the kernel compares against or looks '
        'ahead for - separator, quote, LF, blank and CR, alone and in pairs (CR LF, LF CR, quote CR, CR quote): every table over a '
        '10-cell CR pool for shapes 1x1, 1x2, 2x1 (thorough: 1x3, 2x2) x LF and CRLF line breaks x final newline x EVERY supported '
        'chunk_row_size; 1/2/3-byte budgets on CR cells; full HDF5 and typed imports of CR cells; CR / CR LF inside quoted cells at '
        'text level against csv.reader; a lone CR outside quotes (not RFC-4180) model-vs-implementation only. SEVERAL TABLES (TC05, '
        'op=imp, importer.import_with_schema into a real HDF5 dataset): 1, 2 and 3 tables x EVERY include dictionary (no dictionary, '
        'empty dictionary, each table unnamed / [] / first / last / all columns) x EVERY exclude dictionary likewise (3 tables: reduced '
        'forms), all orders of 3 files against schema and dictionary order, schema tables that are not imported, columns that are not '
        'in the schema, 4 tables x every subset named, the same column names in several tables; seeded random 1..5 tables with random '
        'dictionaries; table / column counts around every new small literal; malformed calls (dictionary naming a table that is not '
        'imported or a column the table lacks, table without schema, reserved column name, no file) model-vs-implementation only. Non-trivial = '
        'the call parses at least the header of a generated table.')
TRUSTED = ['load_schema (JSON schema file -> importer definitions), Session.open_dataset / require_dataframe: exercised by op=imp, not modelled',
           'csv.DictReader header sniffing (number of columns, field names), np.fromfile, guess_encoding: exercised, not modelled',
           'HDF5 field storage (write_part = append): property C01; op=drv uses an append-only stand-in, op=csv the real fields, '
           'op=typ the real fields or (mem) a stand-in that casts to the field dtype and copies on write_part as h5py does',
           "Python's csv.reader is the reference parser for text-level cases; table-level cases are their own reference"]
ASSUMPTIONS = ['stop_after_rows is None', 'column names are distinct',
               'op=imp: table names (keys of files / of the dictionaries) are distinct (Python dicts), every column is a string column, '
               'the destination dataset is new (overwrite irrelevant), one timestamp',
               'typed columns (op=typ): string, fixed string, categorical with and without free text, bool, int8..int32 - what a '
               'cell text DENOTES is property C06; here the typed importers are exercised as state machines over the reader passes '
               '(float / date / datetime importers keep no state between passes beyond their append position and are covered by C06)',
               'category keys are distinct, valid UTF-8, codes in 0..127 (a key table whose keys are all empty is in scope: '
               'finding F-C05f, repaired)', 'every value budget handed to the driver directly is positive']
TECHNIQUE = ('Coq proof about a byte-for-byte Gallina model of fast_csv_reader and its window/regrowth driver, generic in the '
             'importer list (typed importers composed from the C06 models) + exhaustive small-scope differential '
             'correspondence against the real import, typed schemas included')
LEVEL_TEXT = ('Theorems in coq/Props/C05.v are about the Gallina model of the byte-level FSM and the driver; the model is tied '
              'to the repository by running the extracted model and the real import on the same generated files.')
LEVEL_NOTE = 'Trusted: Coq kernel, extraction, harness; csv.DictReader / np.fromfile are exercised, not modelled.'
