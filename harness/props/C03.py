"""C03 — streamed ordered-join map generators (operations.py) vs coq/Model/Join.v."""
import itertools

PROP, NUM = 'C03', 3
PROPS_FILES = ['Props/C03.v']
MODES = ['jit', 'nojit']
MODES_THOROUGH = ['jit', 'nojit', 'bounds']
LEVEL = 'proof'
HANG_TIMEOUT_S = 3.0
TIMEOUT_S = 10.0

KINDS = ['gen', 'lu', 'ru', 'bu']          # general / left unique / right unique / both unique
INV32, INV64 = (1 << 31) - 1, 1 << 62

RULE = ('exhaustive over order-types (small positive keys): all pairs of non-decreasing key sequences up to the tier bound over a small '
        'alphabet (the kernels only compare keys) x all chunk sizes 1..bound+2 x the 8 variants whose uniqueness '
        'assumption is true of the pair x invalid marker/rdtype/key-type configurations rotated over the pairs; plus '
        'seeded structured random longer cases (runs planted at chunk boundaries). Non-trivial = reaches at least '
        'one of: matched rows, duplicate run on a side, run ending at/straddling a chunk boundary, result buffer '
        'filled, tail of unmatched left rows, clear-error case. Key values: every order type of <= 3 rows per side over 3 '
        'ranks x chunk sizes x variants is also run with the ranks seen through strictly monotone selections of each key '
        'dtype\'s table of critical values (both ends of every integer dtype, beyond 2^53, signed zeros, infinities, '
        'subnormals, fixed strings differing in trailing blanks / NULs / high bytes); long random cases are placed at '
        'the ends of integer dtypes by affine maps (c03_key_embedding justifies running the model on the ranks).')
EXHAUSTIVE = {'quick': True, 'thorough': True}
TRUSTED = ['numba code generation; numpy; MemoryField write_part/complete (modelled as list append)',
           'the run of a case under NUMBA_BOUNDSCHECK / interpreted mode is what decides out-of-bounds (C10 tie)']
ASSUMPTIONS = ['keys sorted ascending; uniqueness hints truthful; invalid marker representable in rdtype']

_np = _ops = _fields = None
_FUN = {}


def setup():
    global _np, _ops, _fields
    import numpy as np
    from exetera.core import operations as ops, fields
    _np, _ops, _fields = np, ops, fields
    _FUN.update({
        ('gen', 1): ops.generate_ordered_map_to_left_streamed,
        ('lu', 1): ops.generate_ordered_map_to_left_left_unique_streamed,
        ('ru', 1): ops.generate_ordered_map_to_left_right_unique_streamed,
        ('bu', 1): ops.generate_ordered_map_to_left_both_unique_streamed,
        ('gen', 0): ops.generate_ordered_map_to_inner_streamed,
        ('lu', 0): ops.generate_ordered_map_to_inner_left_unique_streamed,
        ('ru', 0): ops.generate_ordered_map_to_inner_right_unique_streamed,
        ('bu', 0): ops.generate_ordered_map_to_inner_both_unique_streamed,
    })


# ----------------------------------------------------------------------------- key values
# The model runs on the ORDER TYPE of a case (small integer ranks); the implementation is given concrete key columns:
# the ranks seen through a strictly monotone map into the key dtype (Props/C03.v: c03_key_embedding says the model
# result is invariant under such a map). The tables list, in ascending order of the dtype's own comparison, the values
# at which a comparison could be implemented wrongly: both ends of the dtype (a difference of neighbours overflows),
# values beyond 2^53 (not representable in binary64), signed zeros and infinities, subnormals, fixed strings that differ
# only in trailing blanks / NULs / an embedded NUL, bytes >= 0x80.
def _int_table(kt):
    w = int(kt.lstrip('uint'))
    if kt.startswith('u'):
        t = [0, 1, 2, (1 << (w - 1)) - 1, 1 << (w - 1), (1 << (w - 1)) + 1, (1 << w) - 2, (1 << w) - 1]
        if w == 64:
            t += [(1 << 53), (1 << 53) + 1, (1 << 63) - 1024, (1 << 63) + 1024]
    else:
        lo, hi, q = -(1 << (w - 1)), (1 << (w - 1)) - 1, 1 << (w - 2)
        t = [lo, lo + 1, -q - 1, -q, -2, -1, 0, 1, 2, q, q + 1, hi - 1, hi]
        if w == 64:
            t += [-(1 << 53) - 1, -(1 << 53), (1 << 53), (1 << 53) + 1]
    return sorted(set(t))


_F64 = ['-inf', '-0x1.fffffffffffffp+1023', '-0x1.0000000000001p+53', '-0x1.0p+53', '-1.5', '-1.0', '-0x0.0000000000001p-1022',
        'Z', '0x0.0000000000001p-1022', '1.0', '0x1.0000000000001p+0', '1.5', '0x1.0p+53', '0x1.0000000000001p+53',
        '0x1.fffffffffffffp+1023', 'inf']
_F32 = ['-inf', '-0x1.fffffep+127', '-0x1.000002p+24', '-0x1.0p+24', '-1.5', '-1.0', '-0x1.0p-149', 'Z', '0x1.0p-149', '1.0',
        '0x1.000002p+0', '1.5', '0x1.0p+24', '0x1.000002p+24', '0x1.fffffep+127', 'inf']
_S3 = [b'', b'\x01', b' ', b'  ', b'   ', b' a', b'A', b'a', b'a\x00b', b'a ', b'a  ', b'a a', b'aa', b'aa ', b'ab', b'b', b'b ',
       b'\x7f', b'\x80', b'\xc3\xa9', b'\xff', b'\xff\xff\xff']
assert all(a.ljust(3, b'\0') < b.ljust(3, b'\0') for a, b in zip(_S3, _S3[1:]))
KEY_TYPES = ['int8', 'int16', 'int32', 'int64', 'uint8', 'uint16', 'uint32', 'uint64', 'float32', 'float64', 'S']
KEY_TYPES_QUICK = ['int8', 'int64', 'uint64', 'float64', 'S']
KEY_RD = {'int8': 'int32', 'int16': 'int64', 'int32': 'int32', 'int64': 'int64', 'uint8': 'int64', 'uint16': 'int32',
          'uint32': 'int64', 'uint64': 'int64', 'float32': 'int32', 'float64': 'int64', 'S': 'int32'}


def key_table(kt):
    if kt == 'S': return _S3
    if kt == 'float64': return _F64
    if kt == 'float32': return _F32
    return _int_table(kt)


def key_maps(kt, n):
    """the monotone selections of n table values used for a case with n distinct ranks"""
    T = len(key_table(kt))
    if n > T:
        return []
    out = [['win', o] for o in range(0, T - n + 1)]
    if 2 <= n < T:
        out.append(['ends'])
    return out


def _select(kt, km, n):
    tab = key_table(kt)
    if km[0] == 'win':
        return tab[km[1]:km[1] + n]
    h = (n + 1) // 2                 # 'ends': the low end followed directly by the high end of the dtype
    return tab[:h] + tab[len(tab) - (n - h):]


def _concrete(case, side):
    """the key column of one side as the implementation gets it (list of python values / bytes)"""
    kt, km, xs = case['kt'], case.get('km'), case[side]
    if km is None:
        return [b'k%02d' % k for k in xs] if kt == 'S' else list(xs)
    if km[0] == 'aff':               # long cases: an affine map ending at / starting from an end of the integer dtype
        return [km[1] + k for k in xs]
    D = sorted(set(case['L']) | set(case['R']))
    sel = _select(kt, km, len(D))
    val = dict(zip(D, sel))
    out, nz = [], 0
    for k in xs:
        v = val[k]
        if v == 'Z':                 # equal by value, different by representation: 0.0 and -0.0 alternate
            v = '0.0' if (nz + (side == 'R')) % 2 == 0 else '-0.0'
            nz += 1
        out.append(float.fromhex(v) if isinstance(v, str) else v)
    return out


def _keyfield(case, side):
    np, fields = _np, _fields
    kt, vals = case['kt'], _concrete(case, side)
    if kt == 'S':
        f = fields.FixedStringMemField(None, 3)
        f.data.write(np.asarray(vals, dtype='S3'))
    else:
        f = fields.NumericMemField(None, kt)
        f.data.write(np.asarray(vals, dtype=kt))
    return f


def run(case):
    np, fields = _np, _fields
    kind, isl = case['kind'], case['left']
    L = _keyfield(case, 'L')
    R = _keyfield(case, 'R')
    rd = case['rd']
    lres = fields.NumericMemField(None, rd)
    rres = fields.NumericMemField(None, rd)
    f = _FUN[(kind, isl)]
    rdt = np.int32 if rd == 'int32' else np.int64
    inv = rdt(case['inv'])
    if isl and kind in ('ru', 'bu'):
        f(L, R, rres, inv, chunksize=case['cs'], rdtype=rdt)
        return [[], [int(x) for x in rres.data[:]]]
    if not isl and kind == 'gen':
        f(L, R, lres, rres, chunksize=case['cs'], rdtype=rdt)
    else:
        f(L, R, lres, rres, inv, chunksize=case['cs'], rdtype=rdt)
    return [[int(x) for x in lres.data[:]], [int(x) for x in rres.data[:]]]


def warmup():
    for kind in KINDS:
        for isl in (0, 1):
            for rd, kt, inv in (('int32', 'int32', -1), ('int64', 'int64', INV64), ('int32', 'S', INV32)):
                try:
                    run({'kind': kind, 'left': isl, 'L': [1, 2, 4], 'R': [2, 3, 4], 'inv': inv, 'cs': 2, 'rd': rd, 'kt': kt})
                except Exception:
                    pass
            import os
            for kt in (KEY_TYPES if os.environ.get('VERIF_TIER') == 'thorough' else KEY_TYPES_QUICK + ['int16']):
                try:
                    run({'kind': kind, 'left': isl, 'L': [1, 2, 4], 'R': [2, 3, 4], 'inv': -1, 'cs': 2, 'rd': KEY_RD[kt], 'kt': kt,
                         'km': ['win', 0]})
                except Exception:
                    pass


def to_val(case):
    return [KINDS.index(case['kind']), case['left'], case['L'], case['R'], case['inv'], case['cs']]


def from_val(case, v):
    model, spec = v
    from harness.core import decode_err
    e = decode_err(model)
    if e is not None:
        model = e
    if case['left'] and case['kind'] in ('ru', 'bu'):
        spec = [[], spec[1]]
    return model, spec


def _runs(xs):
    out, k = [], 0
    while k < len(xs):
        m = k
        while m + 1 < len(xs) and xs[m + 1] == xs[k]:
            m += 1
        out.append((k, m + 1))
        k = m + 1
    return out


def long_run(case):
    """True iff some trimmed side has a run that cannot fit a chunk: the documented clear-error regime."""
    cs = case['cs']
    ltrim = case['kind'] in ('gen', 'ru')
    rtrim = case['kind'] in ('gen', 'lu')
    for trim, xs in ((ltrim, case['L']), (rtrim, case['R'])):
        if not trim:
            continue
        for (a, b) in _runs(xs):
            if b - a > cs or (b - a == cs and b != len(xs)):
                return True
    return False


def spec_ok(case, impl, spec, mode):
    if impl == 'EXC:ValueError' and long_run(case):
        return True          # C12: a clear error is allowed when a run of equal keys cannot fit a chunk
    return impl == spec


def features(case, model):
    f = []
    L, R, cs = case['L'], case['R'], case['cs']
    if isinstance(model, str):
        f.append('err:' + model)
        return f
    if set(L) & set(R): f.append('matched')
    rl, rr = _runs(L), _runs(R)
    if any(b - a > 1 for a, b in rl): f.append('dup-left')
    if any(b - a > 1 for a, b in rr): f.append('dup-right')
    if any(b - a > 1 for a, b in rl) and any(b - a > 1 for a, b in rr) and \
            {L[a] for a, b in rl if b - a > 1} & {R[a] for a, b in rr if b - a > 1}:
        f.append('cartesian')
    for xs, rs, nm in ((L, rl, 'left'), (R, rr, 'right')):
        if any(b - a > 1 and (b % cs == 0 or (a // cs) != ((b - 1) // cs)) for a, b in rs):
            f.append('run-at-chunk-boundary-' + nm)
    if len(model[1]) > cs: f.append('buffer-flushed>1')
    if case['left'] and L and (not R or L[-1] > R[-1]): f.append('tail-unmatched-left')
    if len(L) > cs or len(R) > cs: f.append('multi-chunk')
    if not L or not R: f.append('empty-side')
    if case.get('km'):
        f.append('keys:%s/%s' % (case['kt'], case['km'][0]))
        if case['km'][0] != 'aff':
            vs = _concrete(case, 'L') + _concrete(case, 'R')
            if case['kt'].startswith('float') and any(v == 0 for v in vs): f.append('keys:signed-zero')
            if case['kt'] == 'S' and any(isinstance(v, bytes) and (v.endswith(b' ') or b'\x00' in v) for v in vs):
                f.append('keys:blank-or-nul')
            if case['kt'][0] in 'iu' and len(set(vs)) > 1 and max(vs) - min(vs) >= 1 << (int(case['kt'].lstrip('uint')) - 1):
                f.append('keys:difference-overflows-dtype')
    return f


def nontrivial(case, model):
    return len(features(case, model)) > 0


def known(case, impl, model, spec, mode):
    return None


def _nondecr(n, k):
    for m in range(n + 1):
        for c in itertools.combinations_with_replacement(range(k), m):
            yield list(c)


def _strict(xs):
    return all(a < b for a, b in zip(xs, xs[1:]))


CONFIGS = [('int32', 'int32', -1), ('int64', 'int64', INV64), ('int32', 'S', INV32), ('int64', 'int32', -1),
           ('int32', 'int64', INV32)]


def _variants(L, R):
    for isl in (1, 0):
        yield 'gen', isl
        if _strict(L): yield 'lu', isl
        if _strict(R): yield 'ru', isl
        if _strict(L) and _strict(R): yield 'bu', isl


def gen(tier, rng):
    n, k = (4, 4) if tier == 'quick' else (6, 4)
    seqs = list(_nondecr(n, k))
    cnt = 0
    for L in seqs:
        for R in seqs:
            for cs in range(1, n + 3):
                for kind, isl in _variants(L, R):
                    rd, kt, inv = CONFIGS[cnt % len(CONFIGS)]
                    cnt += 1
                    yield {'kind': kind, 'left': isl, 'L': L, 'R': R, 'inv': inv, 'cs': cs, 'rd': rd, 'kt': kt}
    # key VALUES (the blocks above and below exercise order types with small positive keys): order types of up to 3 rows per
    # side over 3 ranks x every chunk size x every variant, seen through the monotone selections of every key dtype's table
    # of critical values (key_table), rotating so that every (dtype, selection) meets every order type class
    from harness import hot
    ktypes = KEY_TYPES if tier != 'quick' else KEY_TYPES_QUICK     # warmup() compiles exactly these signatures
    stride = 3 if tier != 'quick' else (4 if hot.changed() else 9)
    small = list(_nondecr(3, 3)) + ([x for x in _nondecr(4, 3) if len(x) == 4] if tier != 'quick' else [])
    kc = 0
    for L in small:
        for R in small:
            n = len(set(L) | set(R))
            if n == 0:
                continue
            maps = [(kt, km) for kt in ktypes for km in key_maps(kt, n)]
            for cs in range(1, 5 if tier == 'quick' else 7):
                for kind, isl in _variants(L, R):
                    for j in range(kc % stride, len(maps), stride):
                        kt, km = maps[j]
                        rd = KEY_RD[kt]                      # one result dtype per key dtype (bounds the JIT signatures)
                        inv = [-1, INV64 if rd == 'int64' else INV32][(kc + j) % 2]
                        yield {'kind': kind, 'left': isl, 'L': L, 'R': R, 'inv': inv, 'cs': cs, 'rd': rd, 'kt': kt, 'km': km}
                    kc += 1
    # change-directed: a size / threshold literal that is new in the tree under test (harness/hot.py) is used as chunk size,
    # chunk-size divisor, run length and column length
    for K in hot.hot_sizes():
        for _ in range(2500 if tier == 'quick' else 20000):
            cs = rng.choice([K - 1, K, K + 1, 2 * K, 3 * K, K * K if K <= 40 else 2 * K + 1, max(2, K // 2)])
            cs = max(1, cs)
            kind = rng.choice(KINDS)

            def hside(unique):
                target = rng.choice([cs - 1, cs, cs + 1, cs + max(1, cs // K), cs + max(1, cs // K) + 1, 2 * cs, 2 * cs + 1,
                                     rng.randint(0, 3 * cs + 2), K, K + 1])
                xs, key = [], 0
                while len(xs) < target:
                    key += rng.choice([1, 1, 2])
                    run = 1 if unique else rng.choice([1, 1, 2, K - 1, K, K + 1, max(1, cs - 1), 3])
                    xs.extend([key] * max(1, run))
                return xs[:max(target, 0)] if not unique else xs
            L = hside(kind in ('lu', 'bu'))
            R = hside(kind in ('ru', 'bu')) if rng.random() < 0.6 else sorted(rng.sample(range(1, 3 * cs + 8), rng.randint(0, min(cs, 12))))
            if kind in ('ru', 'bu'):
                R = sorted(set(R))
            rd, kt, inv = rng.choice(CONFIGS)
            yield {'kind': kind, 'left': rng.randint(0, 1), 'L': L, 'R': R, 'inv': inv, 'cs': cs, 'rd': rd, 'kt': kt}
    # scaled cases: chunk sizes of several tens and runs longer than 32 (beyond the exhaustive scope; cheap for in-memory keys)
    for _ in range(12000 if tier == 'quick' else 120000):
        cs = rng.choice([rng.randint(17, 40), rng.randint(41, 80), 33, 34, 35, 36, 48, 49, 64, 65])
        kind = rng.choice(KINDS)

        def sside(unique):
            target = rng.choice([rng.randint(0, 3 * cs), cs + 1, cs + 2, 2 * cs, 2 * cs + 3])
            xs, key = [], 0
            while len(xs) < target:
                key += rng.choice([1, 1, 2, 5])
                run = 1 if unique else rng.choice([1, 1, 2, 3, rng.randint(30, 46), cs - 1, cs - 2, max(1, cs - rng.randint(1, 12))])
                xs.extend([key] * max(1, run))
            return xs
        L = sside(kind in ('lu', 'bu'))
        R = sside(kind in ('ru', 'bu'))
        if rng.random() < 0.5 and R:
            # make the other side share the keys of the long runs (so that matches exist on both sides of a chunk end)
            keys = sorted(set(L))
            R = sorted(set(rng.sample(keys, min(len(keys), rng.randint(1, 8))))) if kind in ('ru', 'bu') else \
                sorted(x for x in keys for _ in range(rng.choice([1, 1, 2])))[:3 * cs]
        rd, kt, inv = rng.choice(CONFIGS)
        if kt == 'S':
            kt = 'int32'          # fixed-string keys are rendered with two digits: keep the long cases numeric
        c = {'kind': kind, 'left': rng.randint(0, 1), 'L': L, 'R': R, 'inv': inv, 'cs': cs, 'rd': rd, 'kt': kt}
        if rng.random() < 0.5 and (L or R):
            # the same order type placed at an end of an integer dtype (affine, hence strictly monotone, key map)
            kt = rng.choice(['int32', 'int64', 'uint64', 'int16'])
            lo, hi = min(L + R), max(L + R)
            w = int(kt.lstrip('uint'))
            dmin, dmax = (0, (1 << w) - 1) if kt.startswith('u') else (-(1 << (w - 1)), (1 << (w - 1)) - 1)
            if hi - lo <= dmax - dmin:
                rd2 = KEY_RD[kt]
                c.update(kt=kt, rd=rd2, inv=rng.choice([-1, INV64 if rd2 == 'int64' else INV32]),
                         km=['aff', rng.choice([dmin - lo, dmax - hi, (dmin + dmax) // 2 - (lo + hi) // 2])])
        yield c
    # structured random longer cases with runs planted around chunk boundaries
    for _ in range(3000 if tier == 'quick' else 40000):
        cs = rng.randint(2, 9)
        def side(unique):
            xs, key = [], 0
            target = rng.randint(0, 4 * cs)
            while len(xs) < target:
                key += rng.choice([1, 1, 2, 3])
                run = 1 if unique else rng.choice([1, 1, 1, 2, cs - 1, cs - 1, cs, max(1, cs - 2)])
                xs.extend([key] * run)
            return xs
        kind = rng.choice(KINDS)
        L = side(kind in ('lu', 'bu'))
        R = side(kind in ('ru', 'bu'))
        rd, kt, inv = rng.choice(CONFIGS)
        yield {'kind': kind, 'left': rng.randint(0, 1), 'L': L, 'R': R, 'inv': inv, 'cs': cs, 'rd': rd, 'kt': kt}


def shrink(case):
    for side in ('L', 'R'):
        xs = case[side]
        for i in range(len(xs)):
            c = dict(case); c[side] = xs[:i] + xs[i + 1:]; yield c
    if case['cs'] > 1:
        c = dict(case); c['cs'] = case['cs'] - 1; yield c
    if case['kt'] != 'int32' or case['rd'] != 'int32' or case['inv'] != -1 or case.get('km'):
        c = dict(case); c.update(kt='int32', rd='int32', inv=-1); c.pop('km', None); yield c


TECHNIQUE = 'Coq proof (faithful model of the 8 streamed drivers + 10 kernels = relational join) + exhaustive order-type correspondence against /repo in JIT, interpreted and bounds-checked modes'
LEVEL_TEXT = ('Theorems in coq/Props/C03.v about the Gallina model of the streamed join-map generators (chunk helpers, '
              'resumable kernels, drivers, result-buffer flushing); the model is tied to /repo by exhaustive '
              'small-scope differential runs (all order-types up to the bound, all chunk sizes, all 8 variants).')
LEVEL_NOTE = ('Trusted: Coq kernel, extraction, harness, numba/numpy. The model is hand-written; see evidence for the '
              'list of theorems and which are full / partial.')
