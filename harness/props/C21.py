"""C21 — auxiliary source of C10/C11 (not one of the 20 properties): the kernels of exetera/core/operations.py
and the loop helpers of exetera/core/utils.py that no other property's model covers, vs coq/Model/MiscKernels.v.

  compiled:     chunks, ordered_left_map_result_size, ordered_outer_map_result_size_both_unique,
                ordered_inner_map_left_unique_partial, ordered_get_last_as_filter, streaming_sort_partial
  interpreted:  ordered_inner_map_left_unique_streamed (driver of ..._left_unique_partial), data_iterator,
                foreign_key_is_in_primary_key, filter_duplicate_fields, utils.count_flag_empty/_set/_not_set

The wire entry returns [model, spec, valid]; inside the precondition of the kernel's theorem (valid = 1) the real
code is compared with the specification and the model, outside it with the model only (IndexError == model OOB)."""
import itertools

PROP, NUM = 'C21', 21
NOT_CLAIMED = 'auxiliary source of C10/C11: kernels not owned by another property'
PROPS_FILES = ['Props/C10_kernels.v']
MODES = ['jit', 'nojit', 'bounds']
MODES_THOROUGH = ['jit', 'nojit', 'bounds']
LEVEL = 'proof'
TIMEOUT_S = 30.0
HANG_TIMEOUT_S = 3.0
RULE = ('exhaustive small scope per kernel: all key lists over a 3-letter alphabet up to length 3 (4 thorough) for the '
        'size kernels and the partial inner-map kernel (x all result-buffer shapes incl. a too-short right buffer); '
        'all left subsets x all sorted right columns up to 9 rows (chunk size 4: runs crossing one and two chunk '
        'boundaries) for the streamed driver; all 0/1/2 arrays up to length 5 for get_last/duplicates; all chunk '
        'states (sorted chunk of <= 2 rows, every cursor, padding) for 1-2 sources (3 sampled) x destination sizes '
        '(exact, longer, too short) for streaming_sort_partial; all (length, chunksize) <= (9, 5) for chunks and '
        'data_iterator; plus seeded random larger inputs.  Non-trivial = the case reaches a planted feature '
        '(ties, run across a chunk boundary, buffer full, early exit, several chunks, empty input, predicted OOB).')
EXHAUSTIVE = {'quick': True, 'thorough': True}
TRUSTED = ['numba typed containers (tuple / typed.List of arrays) are exercised, not modelled',
           'int64 wrap-around cannot occur: every computed integer is bounded by an array length or a key value']
ASSUMPTIONS = ['valid input of streaming_sort_partial (no caller exists in the repository): cursors within lengths, '
               'lengths within the chunk arrays, destination buffers of max_possible entries',
               'ordered_inner_map_left_unique_partial: right_to_inner at least as long as left_to_inner']
TECHNIQUE = ('Coq total-correctness theorems model = Ok(list-level spec) for each kernel (checked get/set, fuel) + '
             'differential runs under USE_NUMBA=true/false and NUMBA_BOUNDSCHECK=1')
LEVEL_TEXT = ('Each kernel is modelled statement by statement with checked array accesses and proved equal to a '
              'list-level specification on every valid input (unbounded lengths), hence free of out-of-bounds '
              'accesses and terminating; the driver of the partial inner-map kernel is proved for every chunk size.')
LEVEL_NOTE = 'Auxiliary module: contributes cases and theorems to C10 and C11, is not a property of its own.'

_np = _ops = _fields = _utils = _session = _typed = None
_S = None


def setup():
    global _np, _ops, _fields, _utils, _session, _S, _typed
    import numpy as np
    from exetera.core import operations as ops, fields, utils, session
    _np, _ops, _fields, _utils, _session = np, ops, fields, utils, session
    _S = session.Session()
    try:
        from numba.typed import List as TL
        _typed = TL
    except Exception:
        _typed = None


def teardown():
    global _S
    try:
        if _S is not None:
            _S.close()
    except Exception:
        pass
    _S = None


def _arr(l, dt='int64'):
    np = _np
    if dt == 'S1':
        return np.array([bytes([97 + v]) for v in l], dtype='S1')
    return np.array(l, dtype=dt)


def _field(l):
    f = _fields.NumericMemField(_S, 'int64')
    if len(l):
        f.data.write(_np.array(l, dtype=_np.int64))
    return f


def _ints(a):
    return [int(x) for x in a]


def run(case):
    np, ops = _np, _ops
    op = case['op']
    if op == 'chunks':
        n, cs = case['n'], case['cs']
        cap = max(n, 0) + 2
        out = list(itertools.islice(ops.chunks(n, cs), cap))
        if len(out) >= cap:          # more ranges than rows: the generator does not advance
            return 'HANG'
        return [[int(a), int(b)] for a, b in out]
    if op == 'lsize':
        return int(ops.ordered_left_map_result_size(_arr(case['l'], case['dt']), _arr(case['r'], case['dt'])))
    if op == 'osize':
        return int(ops.ordered_outer_map_result_size_both_unique(_arr(case['l'], case['dt']), _arr(case['r'], case['dt'])))
    if op == 'ilup':
        lti, rti = _arr(case['lti']), _arr(case['rti'])
        i, j, m = ops.ordered_inner_map_left_unique_partial(case['di'], case['dj'], _arr(case['l']), _arr(case['r']),
                                                            lti, rti)
        return [int(i), int(j), int(m), _ints(lti), _ints(rti)]
    if op == 'ilus':
        a, b = _fields.NumericMemField(_S, 'int64'), _fields.NumericMemField(_S, 'int64')
        ops.ordered_inner_map_left_unique_streamed(_field(case['l']), _field(case['r']), a, b)
        return [_ints(a.data[:]), _ints(b.data[:])]
    if op == 'last':
        r = ops.ordered_get_last_as_filter(_arr(case['f'], case['dt']))
        assert r.dtype == np.bool_
        return [1 if x else 0 for x in r]
    if op == 'ssp':
        idx, lens = _arr(case['idx']), _arr(case['lens'])
        sv = [_arr(c) for c in case['sv']]
        si = [_arr(c) for c in case['si']]
        if case['cont'] == 'typed' and _typed is not None and len(sv):
            a1, a2 = _typed(), _typed()
            for c in sv:
                a1.append(c)
            for c in si:
                a2.append(c)
        else:
            a1, a2 = tuple(sv), tuple(si)
        dv, di = _arr(case['dv']), _arr(case['di'])
        r = ops.streaming_sort_partial(idx, lens, a1, a2, dv, di)
        return [int(r), _ints(idx), _ints(dv), _ints(di)]
    if op == 'diter':
        return _ints(ops.data_iterator(_field(case['d']), case['cs']))
    if op == 'fk':
        return [1 if x else 0 for x in ops.foreign_key_is_in_primary_key(_arr(case['pk']), _arr(case['fk']))]
    if op == 'dup':
        return [1 if x else 0 for x in ops.filter_duplicate_fields(_arr(case['f']))]
    if op == 'flag':
        flags = _arr(case['flags'], case['dt'])
        w = case['which']
        if w == 0:
            return int(_utils.count_flag_empty(flags))
        if w == 1:
            return int(_utils.count_flag_not_set(flags, case['flag']))
        return int(_utils.count_flag_set(flags, case['flag']))
    raise ValueError(op)


def warmup():
    for c in [{'op': 'chunks', 'n': 3, 'cs': 2},
              {'op': 'lsize', 'l': [1], 'r': [1], 'dt': 'int64'}, {'op': 'lsize', 'l': [1], 'r': [1], 'dt': 'int32'},
              {'op': 'osize', 'l': [1], 'r': [1], 'dt': 'int64'}, {'op': 'osize', 'l': [1], 'r': [1], 'dt': 'int32'},
              {'op': 'ilup', 'di': 0, 'dj': 0, 'l': [1], 'r': [1], 'lti': [0], 'rti': [0]},
              {'op': 'last', 'f': [1, 2], 'dt': 'int64'}, {'op': 'last', 'f': [1, 2], 'dt': 'int32'},
              {'op': 'last', 'f': [1, 2], 'dt': 'S1'},
              {'op': 'ssp', 'idx': [0], 'lens': [1], 'sv': [[1]], 'si': [[1]], 'dv': [0], 'di': [0], 'cont': 'tuple'},
              {'op': 'ssp', 'idx': [0, 0], 'lens': [1, 1], 'sv': [[1], [2]], 'si': [[1], [2]], 'dv': [0, 0],
               'di': [0, 0], 'cont': 'tuple'},
              {'op': 'ssp', 'idx': [0, 0, 0], 'lens': [1, 1, 1], 'sv': [[1], [2], [3]], 'si': [[1], [2], [3]],
               'dv': [0, 0, 0], 'di': [0, 0, 0], 'cont': 'tuple'},
              {'op': 'ssp', 'idx': [0], 'lens': [1], 'sv': [[1]], 'si': [[1]], 'dv': [0], 'di': [0], 'cont': 'typed'}]:
        try:
            run(c)
        except Exception:
            pass


OPNUM = {'chunks': 1, 'lsize': 2, 'osize': 3, 'ilup': 4, 'ilus': 5, 'last': 6, 'ssp': 7, 'diter': 8, 'fk': 9,
         'dup': 10, 'flag': 11}


def to_val(case):
    op = case['op']
    if op == 'chunks':
        return [1, case['n'], case['cs']]
    if op in ('lsize', 'osize'):
        return [OPNUM[op], case['l'], case['r']]
    if op == 'ilup':
        return [4, case['di'], case['dj'], case['l'], case['r'], case['lti'], case['rti']]
    if op == 'ilus':
        return [5, case['l'], case['r']]
    if op == 'last':
        return [6, 1, case['f']]           # the repaired code (fix F-C10a)
    if op == 'ssp':
        return [7, case['idx'], case['lens'], case['sv'], case['si'], case['dv'], case['di']]
    if op == 'diter':
        return [8, 1, case['d'], case['cs']]   # the repaired code (fix F-C10b)
    if op == 'fk':
        return [9, case['pk'], case['fk']]
    if op == 'dup':
        return [10, case['f']]
    if op == 'flag':
        return [11, case['which'], case['flags'], case['flag']]
    raise ValueError(op)


def from_val(case, v):
    model, spec, valid = v
    if valid:
        return (model, spec)
    return model


def equal(case, impl, expected, mode):
    from harness.core import results_equal
    if expected == 'EXC:Other':             # next() on an exhausted chunk generator
        return impl == 'EXC:StopIteration'
    return results_equal(impl, expected, mode)


def skip(case, mode):
    # numba cannot type an empty tuple / empty typed list of arrays
    return case['op'] == 'ssp' and not case['idx'] and mode != 'nojit'


def _runs_cross(r, bs=4):
    """a run of equal keys crosses a multiple of bs"""
    return any(k % bs == 0 and 0 < k < len(r) and r[k - 1] == r[k] for k in range(len(r)))


def features(case, model):
    f = [case['op']]
    op = case['op']
    if isinstance(model, str):
        f.append(op + ':' + model.split(':')[0])
        if op == 'ssp':
            f.append('ssp:dest-too-short' if len(case['dv']) < sum(case['lens']) or len(case['di']) < sum(case['lens'])
                     else 'ssp:malformed')
        return f
    if op == 'chunks':
        if case['n'] <= 0: f.append('chunks:empty')
        elif len(model) >= 2: f.append('chunks:several')
        if case['n'] > 0 and case['n'] % max(case['cs'], 1) != 0: f.append('chunks:short-last')
    elif op in ('lsize', 'osize'):
        l, r = case['l'], case['r']
        if not l or not r: f.append(op + ':empty-side')
        if set(l) & set(r): f.append(op + ':common-key')
        if len(set(l)) < len(l) or len(set(r)) < len(r): f.append(op + ':duplicates')
        if l != sorted(l) or r != sorted(r): f.append(op + ':unsorted')
        if op == 'lsize' and l and r and l[0] == r[0] and model > 1: f.append('lsize:run-product')
    elif op == 'ilup':
        if model[2] == len(case['lti']) and model[2] > 0: f.append('ilup:buffer-full')
        if model[2] > 0: f.append('ilup:match')
        if len(case['rti']) != len(case['lti']): f.append('ilup:unequal-buffers')
        if len(set(case['r'])) < len(case['r']): f.append('ilup:right-run')
        if not case['l'] or not case['r'] or not case['lti']: f.append('ilup:empty')
    elif op == 'ilus':
        l, r = case['l'], case['r']
        if len(r) > 4: f.append('ilus:several-right-chunks')
        if len(l) > 4: f.append('ilus:several-left-chunks')
        if _runs_cross(r) and set(l) & {r[k] for k in range(4, len(r), 4) if r[k - 1] == r[k]}:
            f.append('ilus:matched-run-crosses-chunk')
        if len(model[0]) > 4: f.append('ilus:buffer-flushed-twice')
        if model[0]: f.append('ilus:match')
    elif op == 'last':
        if not case['f']: f.append('last:empty')
        if len(case['f']) == 1: f.append('last:single')
        if any(a == b for a, b in zip(case['f'], case['f'][1:])): f.append('last:run')
        f.append('last:' + case['dt'])
    elif op == 'ssp':
        k = len(case['idx'])
        f.append('ssp:k=%d' % min(k, 3))
        if model[0] > 0: f.append('ssp:merged')
        if any(i > 0 for i in case['idx']): f.append('ssp:cursor>0')
        if k and any(a == b for a, b in zip(model[1], case['lens'])) and model[0] > 0: f.append('ssp:stopped-on-exhausted')
        if len(set(model[2][:model[0]])) < model[0]: f.append('ssp:ties')
        if len(case['dv']) > sum(case['lens']): f.append('ssp:long-dest')
        f.append('ssp:' + case['cont'])
    elif op == 'diter':
        n, cs = len(case['d']), case['cs']
        if n == 0: f.append('diter:empty')
        elif n > 2 * cs: f.append('diter:three-chunks')
        elif n > cs: f.append('diter:two-chunks')
    elif op == 'fk':
        if any(model): f.append('fk:hit')
        if not all(model): f.append('fk:orphan')
    elif op == 'dup':
        if 0 in model: f.append('dup:duplicate')
    elif op == 'flag':
        f.append('flag:%d' % case['which'])
        if model not in (0, len(case['flags'])): f.append('flag:mixed')
    return f


def nontrivial(case, model):
    return len(features(case, model)) >= 2


def known(case, impl, model, spec, mode):
    return None


def shrink(case):
    for k in ('l', 'r', 'f', 'd', 'pk', 'fk', 'flags'):
        if k in case and isinstance(case[k], list):
            for i in range(len(case[k])):
                c = dict(case)
                c[k] = case[k][:i] + case[k][i + 1:]
                yield c


def _lists(alpha, maxlen, sorted_only=False):
    for n in range(maxlen + 1):
        it = itertools.combinations_with_replacement(alpha, n) if sorted_only else itertools.product(alpha, repeat=n)
        for t in it:
            yield list(t)


def _chunk_states(alpha, maxlen, pads):
    """(values, indices, cursor, length) of one source chunk: sorted values, every cursor, optional padding rows"""
    for vals in _lists(alpha, maxlen, sorted_only=True):
        for cur in range(len(vals) + 1):
            for pad in pads:
                yield vals + [9] * pad, len(vals), cur


def gen(tier, rng):
    big = tier == 'thorough'
    # witnesses of the two findings first (they also live in corpus/C21)
    yield {'op': 'last', 'f': [], 'dt': 'int64'}
    yield {'op': 'diter', 'd': [10, 11, 12], 'cs': 2}
    # chunks / data_iterator
    for n in range(-1, 10):
        for cs in range(1, 6):
            yield {'op': 'chunks', 'n': n, 'cs': cs}
    for cs in (0, -1):
        for n in (-1, 0):
            yield {'op': 'chunks', 'n': n, 'cs': cs}
    yield {'op': 'chunks', 'n': 2, 'cs': 0}          # does not advance: model OutOfFuel == capped generator
    for n in range(0, 10):
        for cs in range(1, 6):
            yield {'op': 'diter', 'd': [10 + 3 * i for i in range(n)], 'cs': cs}
    # size kernels
    ml = 4 if big else 3
    al = [0, 1, 2]
    for l in _lists(al, ml):
        for r in _lists(al, ml):
            dt = 'int32' if (len(l) + len(r)) % 3 == 0 else 'int64'
            yield {'op': 'lsize', 'l': l, 'r': r, 'dt': dt}
            yield {'op': 'osize', 'l': l, 'r': r, 'dt': dt}
    # the partial inner-map kernel
    bufs = [(0, 0), (1, 1), (2, 2), (4, 4), (2, 3), (2, 1), (1, 0)]
    for l in _lists(al, ml, sorted_only=True):
        for r in _lists(al, ml + 1, sorted_only=True):
            for (a, b) in bufs:
                yield {'op': 'ilup', 'di': 5, 'dj': 70, 'l': l, 'r': r, 'lti': [-7] * a, 'rti': [-8] * b}
    for l in _lists(al, 2):
        for r in _lists(al, 3):
            yield {'op': 'ilup', 'di': 0, 'dj': 0, 'l': l, 'r': r, 'lti': [0, 0], 'rti': [0, 0]}
    # its driver (chunk size 4)
    lefts = [list(c) for n in range(0, 4) for c in itertools.combinations([0, 1, 2], n)] + \
            [[0, 0], [1, 1, 2], [2, 1], [0, 1, 2, 3, 4], [1, 2, 3, 4, 5, 6, 7, 8, 9]]
    for l in lefts:
        for r in _lists(al, 10 if big else 9, sorted_only=True):
            yield {'op': 'ilus', 'l': l, 'r': r}
    for r in _lists([0, 1], 4):
        yield {'op': 'ilus', 'l': [1, 0], 'r': r}
    # ordered_get_last_as_filter
    for fl in _lists([0, 1], 5):
        yield {'op': 'last', 'f': fl, 'dt': 'int64'}
    for fl in _lists(al, 4):
        yield {'op': 'last', 'f': fl, 'dt': 'S1' if len(fl) % 2 else 'int32'}
    # streaming_sort_partial: all chunk states for 1 and 2 sources, sampled for 3
    states = list(_chunk_states(al, 2, (0, 1)))
    def ssp_case(sts, dmode, cont):
        sv = [s[0] for s in sts]
        lens = [s[1] for s in sts]
        idx = [s[2] for s in sts]
        si = [[100 * c + i for i in range(len(v))] for c, v in enumerate(sv)]
        tot = sum(lens)
        nd = {'exact': tot, 'long': tot + 2, 'short': max(0, tot - 1), 'tight': sum(a - b for a, b in zip(lens, idx))}[dmode]
        return {'op': 'ssp', 'idx': idx, 'lens': lens, 'sv': sv, 'si': si, 'dv': [-1] * nd,
                'di': [-2] * (nd if dmode != 'long' else nd + 1), 'cont': cont}
    yield ssp_case([], 'exact', 'tuple')
    for s in states:
        for dm in ('exact', 'long', 'short', 'tight'):
            yield ssp_case([s], dm, 'tuple')
    k2 = list(itertools.product(states, repeat=2))
    for n, sts in enumerate(k2):
        yield ssp_case(list(sts), ('exact', 'long', 'short', 'tight', 'exact')[n % 5], 'typed' if n % 7 == 0 else 'tuple')
    k3 = rng.sample(list(itertools.product(states, repeat=3)), 6000 if big else 1500)
    for n, sts in enumerate(k3):
        yield ssp_case(list(sts), ('exact', 'long', 'exact', 'short')[n % 4], 'typed' if n % 9 == 0 else 'tuple')
    # dict helpers and flags
    for pk in _lists(al, 2):
        for fk in _lists(al, 3):
            yield {'op': 'fk', 'pk': pk, 'fk': fk}
    for fl in _lists(al, 5):
        yield {'op': 'dup', 'f': fl}
    for flags in _lists([0, 1, 2, 3], 3):
        for which in (0, 1, 2):
            for flag in ((0,) if which == 0 else (1, 2, 3)):
                yield {'op': 'flag', 'which': which, 'flags': flags, 'flag': flag, 'dt': 'int64' if len(flags) % 2 else 'uint8'}
    # seeded random, larger
    for _ in range(1500 if big else 300):
        n, m = rng.randint(0, 40), rng.randint(0, 40)
        l = sorted(rng.randint(0, 12) for _ in range(n))
        r = sorted(rng.randint(0, 12) for _ in range(m))
        lu = sorted(set(l))
        yield {'op': 'lsize', 'l': l, 'r': r, 'dt': 'int64'}
        yield {'op': 'osize', 'l': lu, 'r': sorted(set(r)), 'dt': 'int64'}
        cap = rng.choice([1, 2, 4, 7])
        yield {'op': 'ilup', 'di': rng.randint(0, 1000), 'dj': rng.randint(0, 1000), 'l': lu, 'r': r,
               'lti': [0] * cap, 'rti': [0] * (cap + rng.choice([0, 0, 1]))}
        yield {'op': 'ilus', 'l': lu, 'r': r}
        yield {'op': 'last', 'f': l, 'dt': rng.choice(['int64', 'int32'])}
        yield {'op': 'diter', 'd': l, 'cs': rng.randint(1, 9)}
        yield {'op': 'chunks', 'n': rng.randint(0, 5000), 'cs': rng.randint(1, 700)}
        yield {'op': 'dup', 'f': [rng.randint(0, 6) for _ in range(n)]}
        yield {'op': 'fk', 'pk': lu, 'fk': r}
        k = rng.randint(1, 4)
        sts = []
        for c in range(k):
            vals = sorted(rng.randint(0, 9) for _ in range(rng.randint(0, 6)))
            sts.append((vals + [99] * rng.randint(0, 2), len(vals), rng.randint(0, len(vals))))
        yield ssp_case(sts, rng.choice(['exact', 'long', 'tight']), rng.choice(['tuple', 'typed']))
