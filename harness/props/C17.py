"""C17 — snapshot journalling (exetera/core/journal.py + journalling kernels of operations.py)
vs coq/Model/Journal.v and coq/Spec/JournalSpec.v.

ops
  table    journal.journal_table on real HDF5 groups (BytesIO-backed dataset): old table in arbitrary
           physical order with several versions per key, snapshot with unique keys in arbitrary order,
           numeric and/or indexed-string payload columns; observed at the fields of the result group
  pipe     the same kernels driven directly on numpy arrays that are already in sorted order (the
           orchestration of journal_table re-stated in run(); supplementary volume, microseconds per case)
  indices  ordered_generate_journalling_indices alone on arbitrary (also unsorted / duplicated) arrays

Strengthening (work/SC17): a table case also carries
  kd     key dtype: any numpy integer / float dtype (keys = the actual values, planted at the dtype's extremes and
         beyond 2^53) or S<w> (keys = byte strings incl. blanks, tabs, embedded NULs, bytes >= 0x80; the model receives the
         bytes and orders them through Model/JournalKeys.key_enc, proved to be an order isomorphism)
  cs     value given to ops.DEFAULT_CHUNKSIZE and to every `chunksize=` / `chunk_size=` default of operations.py during
         the call (the model takes it as a parameter: journal_table_sized)
  scs    chunk size of the fields / of the Session
  vft    order-preserving map from the model's integer j_valid_from to the float timestamps given to the real code
  form   df (DataFrames) | h5 (raw h5py groups, as journal_test_harness passes them) | alias (old_src is new_src)
  twice  journal the same two tables a second time into a second destination (no state may leak between calls)
  fields[i].d  dtype of a numeric payload (int8 .. uint64, float32/64, S<w> fixed strings; values at the extremes)
and every table case checks that journal_table left its two input tables unchanged.

Strengthening (work/VC17): the NAMES of the columns are part of a table case (the Gallina model is name-agnostic: it
receives the compared columns by position, in schema order; the harness maps names to positions — _layout)
  pk     name of the primary-key column (default 'id')
  names  names of the payload columns, in schema order (default f0, f1, ...): substrings / prefixes / suffixes / single
         characters / superstrings / case variants of the primary-key name and of the reserved names j_valid_from /
         j_valid_to, names that are substrings of one another
  ocre / ncre   order in which the columns of the old table / the snapshot were created (iteration order of the
         DataFrame) — 0 as listed, 1 reversed, 2 payload first, 3 / 4 alphabetical / reverse alphabetical, 5 hashed
  sord   where the schema lists the primary key / the j_valid_* columns relative to the payload names (or not at all)
  extra  [[name, where]] further columns: 'o' / 'n' only in the old table / only in the snapshot (listed by the schema),
         'b' in both tables but not in the schema, 'g' listed by the schema but in neither table — none of them may
         appear in the result and none may influence it
and the result group must hold exactly the payload columns, each under its own name with its own history.
"""
import itertools, json, hashlib

PROP, NUM = 'C17', 17
PROPS_FILES = ['Props/C17.v']
MODES = ['jit', 'nojit']
MODES_THOROUGH = ['jit', 'nojit', 'bounds']
LEVEL = 'proof'
TIMEOUT_S = 30.0

RULE = ('table (HDF5, ~10 ms/case; every case in one of jit / nojit chosen by hash, tagged cases in all modes): '
        'A. every old table of <= 3 rows over 3 keys x 2 j_valid_from values in every physical order x every snapshot that '
        'is an arrangement of a subset of 3 keys (one only-new key), each with 3 difference patterns (none / all / seeded '
        'per-key choice among same, numeric-only, string-only, both), 1-2 payload columns, key dtype int32/int64/S1 rotated; '
        'B. every sequence of <= 3 key blocks (1-2 old versions x snapshot record absent / unchanged / changed, or only-new '
        'key) x EVERY segment size cs from 1 to the number of result rows (cs = ops.DEFAULT_CHUNKSIZE and every chunksize '
        'default of operations.py during the call); C. fixed-string keys: every pair of the 49 distinct S2 cells over the '
        'bytes {NUL, tab, blank, A, a, 0x80, 0xff} with the snapshot physically descending (every third pair also '
        'ascending), seeded S3/S4/S8 keys sharing a stem; D. numeric keys: every pair of the extreme values of int8, uint8, '
        'int32, int64, uint64, float32, float64 (thorough: + int16, uint16, uint32) in both snapshot orders; E. payload '
        'domains: int8 / int64 at +-2^62.. / uint64 / float32 at 2^24 / float64 at 2^53 / fixed-string S2 payloads, strings '
        'with 2-3-byte characters and cells >= 256 bytes that differ only at the end, differences confined to one column; '
        'F. seeded tables of 8-48 rows, up to 24 keys and 4 versions with cs in 1..16; G. old_src is new_src; H. seeded 4-6 '
        'row tables. Over all groups rotate: cs in {1,2,3,4,5,7,2^20}, field chunk size in {1,2,3,5,7,8,64,4096,2^20}, the '
        'map from integer j_valid_from to float timestamps (identity / 2^-10 s apart / negative halves / multiples of 2^60), '
        'argument form (DataFrames / raw h5py groups), a second journalling of the same tables; every case checks that both '
        'source tables are unchanged afterwards. I. change-directed: every new small integer literal K of the tree under '
        'test is planted as number of rows of the old table / the snapshot / the result, run of versions, segment size, '
        'field chunk size (K-1, K, K+1, 2K-1, 2K, 2K+1, 3K, up to 520 rows), key width, string-cell length and number of '
        'compared fields. J. column NAMES (the model is name-agnostic, the harness maps names to positions): for the '
        'primary-key names id / patient_id / j_valid / k (thorough or changed tree: + pk, j_valid_from_id, to, ID, a_b, '
        'j_valid_to_) every single payload column named by EVERY non-empty proper substring of the key name and of '
        'j_valid_from / j_valid_to, by their superstrings (suffix / prefix added, doubled), case variants, reversal, '
        'same-length variant, leading / trailing blank, non-ASCII suffix; every pair (thorough: ordered pair) of a '
        '20-name alphabet of such names with each column in turn carrying the only difference; every triple of an '
        '8-name alphabet and chains of names that are substrings of one another; extra columns with related names '
        '(only old / only new / both but not in the schema / schema only) that must not appear in nor influence the '
        'result; 4-6 seeded names; rotating: the order in which the columns were created in either table (as listed / '
        'reversed / payload first / alphabetical / reverse / hashed, old and new differing), the place of the key and of '
        'j_valid_* in the schema (key first / last / in the middle / not listed); the result group must hold exactly the '
        'payload columns, each under its own name, pairwise different columns. pipe (kernels on sorted arrays, both modes): '
        'every non-decreasing old key list of <= 5 rows over 3 keys x every strictly increasing snapshot over 4 keys '
        'x every per-matched-key difference pattern in {same, num, str, both}. indices: every old list of <= 4 '
        'entries over 3 symbols x every new list of <= 3 entries over 4 symbols (also unsorted: model = code). '
        'Non-trivial = at least one key present in both tables or several versions of a key.')
EXHAUSTIVE = {'quick': True, 'thorough': True}
TRUSTED = ['the model is name-agnostic: it receives the compared columns by position in schema order; which columns are '
           'compared (listed by the schema and present in both tables, except the key and j_valid_*) is restated in the '
           'harness (_layout / _schema_names in harness/props/C17.py) and tied to journal.py:39-66 by this run',
           'numpy argsort(kind=stable), fancy indexing and Session.dataset_sort_index / apply_index are defined in '
           'Gallina (Model/Journal.v: argsort, take, dataset_sort_index, apply_index_str) and tied to the real '
           'functions only by this correspondence run',
           'h5py/ExeTera field storage round-trip (write of the destination arrays, read-back of .data/.indices/.values)',
           'numeric keys, j_valid_from values and numeric payloads are exactly representable in their dtype (no NaN, no '
           'overflow); the harness maps the model\'s integer j_valid_from / payload values into the dtype by strictly '
           'increasing (resp. injective) maps (_vf, _pmap in harness/props/C17.py)',
           'the order numpy and numba give to S<w> cells is the bytewise unsigned order of the NUL-padded cells (this is the '
           'order the model uses: Model/JournalKeys.key_enc, proved an order isomorphism; tied to the real code by the '
           'fixed-string-key cases of this run)']
ASSUMPTIONS = ['snapshot keys are unique', 'column names are distinct, non-empty HDF5 link names different from the '
               'primary-key name and from j_valid_from / j_valid_to (otherwise arbitrary: the result must not depend on them)',
               'old and new column of a field have the same kind and dtype',
               'schema lists the payload fields; primary key / j_valid_from / j_valid_to are not written to the result '
               '(journal_table skips them)',
               'payload kinds: numeric, fixed-string (compared and copied like numeric data) and indexed-string columns']
TECHNIQUE = ('Coq proof (statement-level Gallina model of journal_table and its six kernels = per-key history spec) + '
             'exhaustive small-scope differential correspondence against the real journal_table on HDF5 groups')
LEVEL_TEXT = ('Theorems in coq/Props/C17.v prove, for all tables and all sizes, that the Gallina model of '
              'journal_table (sort indices, ordered_generate_journalling_indices, compare_*_rows_for_journalling, '
              'merge_*journalled_entries*) returns exactly the columns of the per-key history specification, for integer and '
              'for fixed-width byte-string keys (order isomorphism key_enc) and whatever the chunk-size parameters; the model '
              'is tied to the code by running the extracted model, the extracted spec and the real code on the same '
              'generated cases.')
LEVEL_NOTE = ('Trusted: Coq kernel, extraction, harness; numpy stable argsort / fancy indexing and the ExeTera field '
              'storage are modelled, not verified.')

_np = _ops = _session = _journal = None
_sess = None
_ds = None
_count = 0
RECYCLE = 16      # cases per BytesIO-backed dataset (the in-memory HDF5 image is never shrunk: keep it small)
_cache = {}
_sized = []       # (name, original function, parameter name) of every operations.py function with a chunk-size default


class _Schema:
    def __init__(self, names):
        self.fields = dict((k, None) for k in names)


def setup():
    global _np, _ops, _session, _journal
    import numpy as np
    from exetera.core import operations as ops, session, journal
    _np, _ops, _session, _journal = np, ops, session, journal
    import os, inspect
    if os.environ.get('VERIF_C17_FAULTLOG'):
        import faulthandler
        faulthandler.enable(file=open('%s.%s.%d' % (os.environ['VERIF_C17_FAULTLOG'], os.environ.get('VERIF_MODE', ''), os.getpid()), 'w'),
                            all_threads=True)
    # every plain-python function of operations.py that hard-wires a chunk size as a default argument
    del _sized[:]
    for name, fn in sorted(vars(ops).items()):
        if not inspect.isfunction(fn) or getattr(fn, '__module__', None) != ops.__name__:
            continue
        try:
            sig = inspect.signature(fn)
        except (TypeError, ValueError):
            continue
        for pn in ('chunksize', 'chunk_size'):
            prm = sig.parameters.get(pn)
            if prm is not None and isinstance(prm.default, int) and not isinstance(prm.default, bool):
                _sized.append((name, fn, pn))


class _Sizes:
    """ops.DEFAULT_CHUNKSIZE := cs, every `chunksize=<int>` default of operations.py := cs, Session.chunksize := scs
    for the duration of one journal_table call (module attributes are wrapped, /repo is never edited)."""

    def __init__(self, cs, scs, sess):
        self.cs, self.scs, self.sess = cs, scs, sess

    def __enter__(self):
        import functools
        ops = _ops
        self.saved = [('DEFAULT_CHUNKSIZE', ops.DEFAULT_CHUNKSIZE)]
        self.sess_cs = self.sess.chunksize
        if self.cs is not None:
            ops.DEFAULT_CHUNKSIZE = self.cs
            for name, fn, pn in _sized:
                if getattr(ops, name, None) is fn:
                    self.saved.append((name, fn))

                    def wrapped(*a, fn_=fn, pn_=pn, cs_=self.cs, **kw):
                        try:
                            given = pn_ in inspect_sig(fn_).bind_partial(*a, **kw).arguments
                        except TypeError:
                            given = True
                        if not given:
                            kw[pn_] = cs_
                        return fn_(*a, **kw)
                    functools.update_wrapper(wrapped, fn)
                    setattr(ops, name, wrapped)
        if self.scs is not None:
            self.sess.chunksize = self.scs
        return self

    def __exit__(self, *exc):
        for name, v in self.saved:
            setattr(_ops, name, v)
        self.sess.chunksize = self.sess_cs
        return False


_sigs = {}


def inspect_sig(fn):
    sg = _sigs.get(fn)
    if sg is None:
        import inspect
        sg = _sigs[fn] = inspect.signature(fn)
    return sg


def warmup():
    run({'op': 'pipe', 'okeys': [0, 0, 1], 'nkeys': [0, 2],
         'fields': [{'k': 'n', 'o': [1, 2, 3], 'n': [2, 5]}, {'k': 's', 'o': [[97], [], [98]], 'n': [[], [99]]}]})
    run({'op': 'indices', 'old': [0, 0, 1], 'new': [0, 2]})
    run({'op': 'table', 'kd': 'int32', 'okeys': [1, 0, 0], 'ovf': [1, 2, 1], 'nkeys': [2, 0],
         'fields': [{'k': 'n', 'o': [1, 2, 3], 'n': [2, 5]}, {'k': 's', 'o': [[97], [], [98]], 'n': [[], [99]]}]})
    run({'op': 'table', 'kd': 'S1', 'okeys': [1, 0, 0], 'ovf': [1, 2, 1], 'nkeys': [2, 0],
         'fields': [{'k': 'n', 'o': [1, 2, 3], 'n': [2, 5]}]})
    run({'op': 'table', 'kd': 'int64', 'okeys': [], 'ovf': [], 'nkeys': [],
         'fields': [{'k': 's', 'o': [], 'n': []}]})
    # every key dtype / payload dtype compiles its own specialisation of the kernels
    for kd in NUM_KD_QUICK:        # (the dtypes only the thorough tier uses are compiled on first use)
        pal = KEY_PALETTE[kd]
        run({'op': 'table', 'kd': kd, 'okeys': [pal[1], pal[0], pal[0]], 'ovf': [1, 2, 1], 'nkeys': [pal[2], pal[0]],
             'cs': 1, 'scs': 2, 'vft': 1, 'fields': [{'k': 'n', 'o': [1, 2, 3], 'n': [2, 5]}]})
    for w in (2, 3, 4, 8):
        run({'op': 'table', 'kd': 'S%d' % w, 'okeys': [[98], [97, 32], [97, 32]], 'ovf': [1, 2, 1], 'nkeys': [[99], [97, 32]],
             'cs': 2, 'fields': [{'k': 'n', 'o': [1, 2, 3], 'n': [2, 5]}]})
    for d in PAYLOAD_D_QUICK:
        f = _retype({'k': 'n', 'o': [1, 2, 3], 'n': [2, 5]}, d)
        run({'op': 'table', 'kd': 'int32', 'okeys': [1, 0, 0], 'ovf': [1, 2, 1], 'nkeys': [2, 0], 'fields': [f]})
    # the forked children must not share an open h5py file / Session with the parent
    global _sess, _ds
    try:
        _sess.close()
    except Exception:
        pass
    _sess = _ds = None
    _cache.clear()


def _trim():
    # every indexed-string field allocates 4.5 MB of write buffers; without returning freed arenas to the OS the
    # resident size of a worker grows by ~3 MB per case (observed: OOM kill after a few thousand cases)
    import gc, ctypes
    gc.collect()
    try:
        ctypes.CDLL('libc.so.6').malloc_trim(0)
    except Exception:
        pass


def _str(bs):
    return bytes(bs).decode('utf-8')


def _enc(np, strs):
    offs = [0]
    vals = []
    for s in strs:
        vals.extend(s)
        offs.append(len(vals))
    return np.array(offs, dtype=np.int64), np.array(vals, dtype=np.uint8)


def _ints(a):
    return [int(x) for x in a]


# ---- key / payload / timestamp encodings (harness side of the wire) ------------------------------------------------
def _swidth(d):
    """width of a fixed-string dtype name 'S<w>' (None for anything else)"""
    if isinstance(d, str) and d[:1] == 'S' and d[1:].isdigit():
        return int(d[1:])
    return None


def _code(bs, w):
    """big-endian value of the NUL-padded cell (python restatement of Model/JournalKeys.key_enc; used only for the
    features / the precondition, the model computes its own)"""
    return int.from_bytes(bytes(bs).ljust(w, b'\0'), 'big')


def _kz(case):
    """the keys of a table / pipe case as integers ordered like the keys themselves"""
    w = _swidth(case.get('kd'))
    if w is not None and w >= 2:
        return [_code(k, w) for k in case['okeys']], [_code(k, w) for k in case['nkeys']]
    return case['okeys'], case['nkeys']


def _vf(z, vft):
    # strictly increasing maps Z -> float64, exact on the small integers used
    if vft == 1:
        return 1.6e9 + z * 2.0 ** -10          # realistic time stamps less than a second apart
    if vft == 2:
        return -(2.0 ** 40) + z * 0.5          # negative, fractional
    if vft == 3:
        return z * 2.0 ** 60                   # far beyond 2^53
    return float(z)


def _key_array(np, kd, keys):
    w = _swidth(kd)
    if w == 1:
        return np.array([bytes([97 + k]) for k in keys], dtype='S1')
    if w is not None:
        return np.array([bytes(k) for k in keys], dtype=kd)
    return np.array(keys, dtype=kd)


def _num_array(np, d, vals):
    w = _swidth(d)
    if w is not None:
        return np.array([int(v).to_bytes(w, 'big') for v in vals], dtype=d)
    return np.array(vals, dtype=d)


def _num_out(np, d, arr):
    w = _swidth(d)
    if w is not None:
        return [int.from_bytes(bytes(x).ljust(w, b'\0'), 'big') for x in arr.tolist()]
    return _ints(arr)


def _create_key(s, df, pk, kd, scs):
    w = _swidth(kd)
    if w is not None:
        return s.create_fixed_string(df, pk, w, chunksize=scs)
    return s.create_numeric(df, pk, kd, chunksize=scs)


# ---- column names (harness side: the model is name-agnostic and receives the compared columns by position) -------------
RESERVED = ('j_valid_from', 'j_valid_to')


def _layout(case):
    """(primary-key name, payload names in schema order, extra columns [[name, where]])"""
    pk = case.get('pk', 'id')
    names = case.get('names')
    if names is None:
        names = ['f%d' % i for i in range(len(case['fields']))]
    return pk, list(names), [list(e) for e in case.get('extra', [])]


def _names_ok(case):
    """all column names of the case are distinct, usable as HDF5 link names, and as many as there are payload columns"""
    pk, names, extra = _layout(case)
    allc = [pk] + list(RESERVED) + names + [e[0] for e in extra]
    return (len(names) == len(case['fields']) and len(set(allc)) == len(allc)
            and all(isinstance(x, str) and x and '/' not in x and x != '.' for x in allc)
            and all(e[1] in ('o', 'n', 'b', 'g') for e in extra))


def _schema_names(case):
    """the names the schema lists, in order: payload names always in case order (= the order of the model's field list);
    sord moves the primary key / the j_valid_* columns; 'o' / 'n' extras and 'g' ghosts are listed, 'b' extras are not"""
    pk, names, extra = _layout(case)
    sord = case.get('sord', 0)
    listed = [e[0] for e in extra if e[1] in ('o', 'n', 'g')]
    if sord == 1:
        out = names + [pk]
    elif sord == 2:
        out = ['j_valid_from', 'j_valid_to'] + names[:1] + [pk] + names[1:]
    elif sord == 3:
        out = ['j_valid_to'] + names + ['j_valid_from']          # the primary key is not listed at all
    else:
        out = [pk] + names + ['j_valid_from', 'j_valid_to']
    return (listed + out) if sord % 2 else (out + listed)


def _creation(case, which):
    """the columns of the old table (which = 'o') / the snapshot ('n') in the order in which they are created"""
    pk, names, extra = _layout(case)
    cols = [pk, 'j_valid_from', 'j_valid_to'] + names + [e[0] for e in extra if e[1] in (which, 'b')]
    v = case.get('ocre' if which == 'o' else 'ncre', 0)
    if v == 1:
        cols = cols[::-1]
    elif v == 2:
        cols = cols[3:] + ['j_valid_to', pk, 'j_valid_from']
    elif v == 3:
        cols = sorted(cols)
    elif v == 4:
        cols = sorted(cols, reverse=True)
    elif v == 5:
        cols = sorted(cols, key=lambda x: hashlib.sha256(x.encode()).hexdigest())
    return cols


def _create_num(s, df, nm, d, scs):
    w = _swidth(d)
    if w is not None:
        return s.create_fixed_string(df, nm, w, chunksize=scs)
    return s.create_numeric(df, nm, d, chunksize=scs)


def _run_table(case):
    global _sess, _ds, _count
    np, s_mod, journal = _np, _session, _journal
    from io import BytesIO
    if _sess is None or _count % RECYCLE == 0:
        if _sess is not None:
            try:
                _sess.close()
            except Exception:
                pass
        _cache.clear()
        _trim()
        _sess = s_mod.Session()
        _ds = _sess.open_dataset(BytesIO(), 'w', 'd')
    _count += 1
    s, ds = _sess, _ds
    tag = str(_count)
    kd = case['kd']
    cs, scs, vft = case.get('cs'), case.get('scs'), case.get('vft', 0)
    form = case.get('form', 'df')
    pk, names, extra = _layout(case)
    dts = [f.get('d', 'int64') for f in case['fields']]

    def mk(prefix, keys, vf, which):
        # input tables are only read by journal_table: identical ones are shared between consecutive cases
        cols = _creation(case, which)
        key = json.dumps([prefix, kd, scs, keys, vf, [[f['k'], f.get('d'), f[which]] for f in case['fields']], cols])
        ent = _cache.get(key)
        if ent is not None:
            return ent
        df = ds.create_dataframe(prefix + tag)
        written = {}
        fld = dict(zip(names, zip(case['fields'], dts)))
        for nm in cols:         # the columns are created in the case's creation order
            if nm == pk:
                written[pk] = _key_array(np, kd, keys)
                _create_key(s, df, pk, kd, scs).data.write(written[pk])
            elif nm == 'j_valid_from':
                written[nm] = np.array(vf, dtype=np.float64)
                s.create_timestamp(df, nm, chunksize=scs).data.write(written[nm])
            elif nm == 'j_valid_to':
                written[nm] = np.array([9e9] * len(keys), dtype=np.float64)
                s.create_timestamp(df, nm, chunksize=scs).data.write(written[nm])
            elif nm in fld:
                f, d = fld[nm]
                if f['k'] == 'n':
                    written[nm] = _num_array(np, d, f[which])
                    _create_num(s, df, nm, d, scs).data.write(written[nm])
                else:
                    written[nm] = _enc(np, f[which])
                    s.create_indexed_string(df, nm, chunksize=scs).data.write([_str(x) for x in f[which]])
            else:
                # an extra column (not compared): every snapshot cell differs from every old cell
                written[nm] = np.arange(len(keys), dtype=np.int64) + (7 if which == 'o' else 900)
                s.create_numeric(df, nm, 'int64', chunksize=scs).data.write(written[nm])
        if len(_cache) > 6:
            _cache.pop(next(iter(_cache)))
        _cache[key] = (df, written, prefix + tag)
        return _cache[key]

    o, o_written, o_name = mk('o', case['okeys'], [_vf(z, vft) for z in case['ovf']], 'o')
    if form == 'alias':
        n, n_written, n_name = o, o_written, o_name
    else:
        n, n_written, n_name = mk('n', case['nkeys'], [100.0] * len(case['nkeys']), 'n')
    schema = _Schema(_schema_names(case))

    def call(rname):
        if form == 'h5':
            # the argument form of journal.journal_test_harness: raw h5py groups for both sources and the destination
            h5 = ds._file
            rg = h5.create_group(rname)
            with _Sizes(cs, scs, s):
                journal.journal_table(s, schema, h5[o_name], h5[n_name], pk, rg)
            got = sorted(rg.keys())
            getf = lambda nm: s.get(rg[nm])
        else:
            r = ds.create_dataframe(rname)
            with _Sizes(cs, scs, s):
                journal.journal_table(s, schema, o, n, pk, r)
            got = sorted(r.keys())
            getf = lambda nm: r[nm]
        if got != sorted(names):
            return ['result-fields', got]
        out = []
        for nm, f, d in zip(names, case['fields'], dts):
            fld = getf(nm)
            if f['k'] == 'n':
                out.append([0, _num_out(np, d, fld.data[:])])
            else:
                # observed twice: raw storage and the decoded strings must agree
                offs, vals = _ints(fld.indices[:]), _ints(fld.values[:])
                dec = [list(x.encode('utf-8')) for x in fld.data[:]]
                if dec != [vals[offs[i]:offs[i + 1]] for i in range(len(offs) - 1)]:
                    return ['decode-mismatch', offs, vals]
                out.append([1, offs, vals])
        return out

    out = call('r' + tag)
    if case.get('twice'):
        out2 = call('q' + tag)
        if out2 != out:
            return ['second-call-differs', out, out2]
    # journal_table only reads its two sources
    for df, written in ((o, o_written), (n, n_written)):
        for nm, w_ in written.items():
            fld = df[nm]
            if isinstance(w_, tuple):
                same = (_ints(fld.indices[:]) or [0]) == _ints(w_[0]) and _ints(fld.values[:]) == _ints(w_[1])
            else:
                cur = fld.data[:]
                same = len(cur) == len(w_) and bool((np.asarray(cur) == w_).all())
            if not same:
                return ['source-table-modified', nm]
    return out


def _run_pipe(case):
    np, ops = _np, _ops
    okeys = np.array(case['okeys'], dtype=np.int64)
    nkeys = np.array(case['nkeys'], dtype=np.int64)
    old_map, new_map = ops.ordered_generate_journalling_indices(okeys, nkeys)
    to_keep = np.zeros(len(old_map), dtype=bool)
    cols = []
    for f in case['fields']:
        if f['k'] == 'n':
            cols.append((np.array(f['o'], dtype=np.int64), np.array(f['n'], dtype=np.int64)))
        else:
            cols.append((_enc(np, f['o']), _enc(np, f['n'])))
    for f, (oc, nc) in zip(case['fields'], cols):
        if f['k'] == 'n':
            ops.compare_rows_for_journalling(old_map, new_map, oc, nc, to_keep)
        else:
            ops.compare_indexed_rows_for_journalling(old_map, new_map, oc[0], oc[1], nc[0], nc[1], to_keep)
    merged_length = len(okeys) + to_keep.sum()
    out = []
    for f, (oc, nc) in zip(case['fields'], cols):
        if f['k'] == 'n':
            dest = np.zeros(merged_length, oc.dtype)
            ops.merge_journalled_entries(old_map, new_map, to_keep, oc, nc, dest)
            out.append([0, _ints(dest)])
        else:
            dest_i = np.zeros(merged_length + 1, oc[0].dtype)
            val_count = ops.merge_indexed_journalled_entries_count(old_map, new_map, to_keep, oc[0], nc[0])
            dest_v = np.zeros(val_count, oc[1].dtype)
            ops.merge_indexed_journalled_entries(old_map, new_map, to_keep, oc[0], oc[1], nc[0], nc[1], dest_i, dest_v)
            out.append([1, _ints(dest_i), _ints(dest_v)])
    return out


def run(case):
    op = case['op']
    if op == 'table':
        return _run_table(case)
    if op == 'pipe':
        return _run_pipe(case)
    if op == 'indices':
        np = _np
        a, b = _ops.ordered_generate_journalling_indices(np.array(case['old'], dtype=np.int64),
                                                         np.array(case['new'], dtype=np.int64))
        assert a.dtype == np.int64 and b.dtype == np.int64
        return [_ints(a), _ints(b)]
    raise ValueError(op)


def _wire_fields(case):
    return [[0 if f['k'] == 'n' else 1, f['o'], f['n']] for f in case['fields']]


def to_val(case):
    op = case['op']
    if op == 'table':
        w = _swidth(case['kd'])
        w = w if (w is not None and w >= 2) else 0      # 0: the keys are integers ordered like the real keys
        cs = case.get('cs')
        scs = case.get('scs')
        return [4, w, (1 << 20) if cs is None else cs, (1 << 20) if scs is None else scs,
                case['okeys'], case['ovf'], case['nkeys'], _wire_fields(case)]
    if op == 'pipe':
        return [2, case['okeys'], case['nkeys'], _wire_fields(case)]
    if op == 'indices':
        return [3, case['old'], case['new']]
    raise ValueError(op)


_EXC = {1: 'ValueError', 2: 'TypeError', 3: 'IndexError', 4: 'KeyError', 5: 'OverflowError', 9: 'Other'}


def _err(v):
    if isinstance(v, list) and len(v) == 3 and v[0] == -999:
        kind, arg = v[1], v[2]
        if kind == 1: return 'OOB:%d' % arg
        if kind == 2: return 'EXC:' + _EXC.get(arg, 'Other')
        if kind == 3: return 'FUEL'
        return 'BADCASE'
    return None


def in_domain(case):
    """The property's precondition: snapshot keys unique; for pipe also sorted inputs."""
    if case['op'] == 'indices':
        return False
    ok, nk = _kz(case)
    if len(set(nk)) != len(nk):
        return False
    if case['op'] == 'pipe':
        return all(ok[i] <= ok[i + 1] for i in range(len(ok) - 1)) and all(nk[i] < nk[i + 1] for i in range(len(nk) - 1))
    return True


def from_val(case, v):
    m, s = v
    e = _err(m)
    if e is not None:
        m = e
    if not in_domain(case):
        return m            # outside the precondition only model = code is checked
    return (m, s)


def _stats(case):
    """Per-key classification of a table/pipe case (python restatement used only for the histogram)."""
    ok, nk = _kz(case)
    ovf = case.get('ovf', [0] * len(ok))
    st = set()
    for k in sorted(set(ok) | set(nk)):
        rows = sorted((i for i in range(len(ok)) if ok[i] == k), key=lambda i: (ovf[i], i))
        js = [j for j in range(len(nk)) if nk[j] == k]
        if len(rows) >= 2:
            st.add('multi-version-key')
            if rows != sorted(rows): st.add('vf-order-differs-from-physical')
            if len(set(ovf[i] for i in rows)) < len(rows): st.add('vf-tie')
            if rows != list(range(rows[0], rows[0] + len(rows))): st.add('versions-not-contiguous')
        if rows and not js: st.add('key-only-old')
        if js and not rows: st.add('key-only-new')
        if rows and js:
            last, j = rows[-1], js[0]
            d = [f['o'][last] != f['n'][j] for f in case['fields']]
            kinds = [f['k'] for f in case['fields']]
            if not any(d): st.add('key-both-unchanged')
            else:
                st.add('key-both-changed')
                if sum(d) == 1 and len(d) >= 2:
                    st.add('diff-only-in-' + ('numeric' if kinds[d.index(True)] == 'n' else 'string'))
            if len(rows) >= 2 and any(f['o'][rows[0]] == f['n'][j] and f['o'][last] != f['n'][j] for f in case['fields']):
                st.add('new-equals-older-version-only')
    return st


def features(case, model):
    f = ['op:' + case['op']]
    if isinstance(model, str):
        f.append('err:' + model.split(':')[0])
    if case['op'] == 'indices':
        o, n = case['old'], case['new']
        if o != sorted(o) or n != sorted(n) or len(set(n)) != len(n): f.append('malformed')
        if not o: f.append('empty-old')
        if not n: f.append('empty-new')
        return f
    if not in_domain(case):
        f.append('malformed')
        return f
    f.extend(sorted(_stats(case)))
    ok, nk = _kz(case)
    if not ok: f.append('empty-old')
    if not nk: f.append('empty-new')
    if ok != sorted(ok): f.append('old-physically-unsorted')
    if nk != sorted(nk): f.append('new-physically-unsorted')
    kinds = [x['k'] for x in case['fields']]
    f.append('cols:' + ''.join(kinds))
    if any(x['k'] == 's' and any(len(c) == 0 for c in x['o'] + x['n']) for x in case['fields']): f.append('empty-string-cell')
    if case['op'] == 'table':
        f.append('kd:' + case['kd'])
        f.extend(_table_features(case, model, ok, nk))
    f.append('rows-old:' + _bucket(len(ok)))
    return f


def _bucket(n):
    return str(n) if n < 8 else ('8-15' if n < 16 else '16-63' if n < 64 else '64-255' if n < 256 else '>=256')


def _table_features(case, model, ok, nk):
    f = []
    cs, scs = case.get('cs'), case.get('scs')
    rows = None
    if isinstance(model, list) and model:
        c0 = model[0]
        rows = len(c0[1]) if c0[0] == 0 else len(c0[1]) - 1
    if cs is not None:
        f.append('cs:' + _bucket(cs))
        if rows is not None:
            nseg = -(-rows // cs) if rows else 0
            f.append('result-segments:' + _bucket(nseg))
            if nseg >= 2:
                f.append('multi-segment-result')
                # which kind of row ends a full segment (the last old version of a key / an appended snapshot record)
                plan = _plan_kinds(case, ok, nk)
                if plan is not None and len(plan) == rows:
                    ends = set(plan[i] for i in range(cs - 1, rows - 1, cs))
                    if 'N' in ends: f.append('segment-ends-with-appended-record')
                    if 'O' in ends: f.append('segment-ends-with-old-version')
                    if rows % cs == 0: f.append('result-fills-last-segment-exactly')
        if cs <= max(len(ok), len(nk), 1) - 1: f.append('multi-segment-source')
    if scs is not None: f.append('scs:' + _bucket(scs))
    if case.get('vft'): f.append('vft:%d' % case['vft'])
    if case.get('form', 'df') != 'df': f.append('form:' + case['form'])
    if case.get('twice'): f.append('journalled-twice')
    w = _swidth(case['kd'])
    if w is not None and w >= 2:
        WS = b' \t\n\r\x0b\x0c\0'
        ks = [bytes(k).rstrip(b'\0') for k in case['okeys'] + case['nkeys']]
        if any(k != k.rstrip(WS) for k in ks): f.append('key-trailing-whitespace')
        if any(b'\0' in k for k in ks): f.append('key-embedded-nul')
        if any(max(k, default=0) >= 128 for k in ks): f.append('key-byte>=0x80')
        if len(set(k.rstrip(WS) for k in set(ks))) < len(set(ks)): f.append('keys-equal-after-stripping')
        if len(set(k.lower() for k in set(ks))) < len(set(ks)): f.append('keys-equal-ignoring-case')
        sn = [bytes(k).rstrip(WS) for k in case['nkeys']]
        if nk != sorted(nk) and all(nk[i] < nk[i + 1] or sn[i] == sn[i + 1] for i in range(len(nk) - 1)):
            f.append('snapshot-ordered-only-after-stripping')
    elif w is None:
        allk = ok + nk
        if any(abs(k) > 2 ** 53 for k in allk): f.append('key-beyond-2^53')
        if any(k < 0 for k in allk): f.append('key-negative')
        if any(k >= 2 ** 63 for k in allk): f.append('key>=2^63')
    if nk and nk == sorted(nk): f.append('snapshot-physically-sorted')
    for x in case['fields']:
        if x['k'] == 'n':
            if x.get('d'): f.append('payload:' + x['d'])
            if any(abs(v) > 2 ** 53 for v in x['o'] + x['n']) and _swidth(x.get('d')) is None: f.append('payload-beyond-2^53')
        else:
            cells = x['o'] + x['n']
            if any(len(c) >= 256 for c in cells): f.append('string-cell>=256-bytes')
            if any(max(c, default=0) >= 128 for c in cells): f.append('string-non-ascii')
    f.append('fields:%d' % len(case['fields']))
    f.extend(_name_features(case, ok, nk))
    return f


def _rel(a, b, tag):
    """relations of the name a to the name b"""
    out = []
    if a != b and a in b:
        out.append('substring-of-' + tag)
        if b.startswith(a): out.append('prefix-of-' + tag)
        if b.endswith(a): out.append('suffix-of-' + tag)
    if a != b and b in a:
        out.append('superstring-of-' + tag)
    if a != b and a.lower() == b.lower():
        out.append('case-variant-of-' + tag)
    if a != b and a.strip() == b.strip():
        out.append('equal-after-stripping-to-' + tag)
    if a != b and len(a) == len(b) and sorted(a) == sorted(b):
        out.append('anagram-of-' + tag)
    return out


def _name_features(case, ok, nk):
    if not any(k in case for k in ('pk', 'names', 'ocre', 'ncre', 'sord', 'extra')):
        return []
    pk, names, extra = _layout(case)
    f = ['named-columns', 'pk-name:' + (pk if len(pk) <= 16 else 'long')]
    rel = []        # per payload column its relations
    for nm in names:
        r = _rel(nm, pk, 'pk') + [x for res in RESERVED for x in _rel(nm, res, 'reserved')]
        if len(nm) == 1: r.append('single-character')
        if any(ord(c) > 127 for c in nm): r.append('non-ascii')
        if any(nm != o and nm in o for o in names): r.append('substring-of-another-payload-name')
        rel.append(sorted(set(r)))
        f.extend('name-' + x for x in rel[-1])
    for res in RESERVED:
        f.extend('pk-' + x for x in _rel(pk, res, 'reserved'))
    if len(pk) == 1: f.append('pk-single-character')
    # the column that alone carries a key's difference has a related name
    ovf = case['ovf']
    for j, k in enumerate(nk):
        rows = sorted((i for i in range(len(ok)) if ok[i] == k), key=lambda i: (ovf[i], i))
        if rows:
            d = [i for i, x in enumerate(case['fields']) if x['o'][rows[-1]] != x['n'][j]]
            if len(d) == 1 and rel[d[0]]:
                f.append('diff-confined-to-column-with-related-name')
                f.extend('diff-confined-to-name-' + x for x in rel[d[0]])
    co, cn = _creation(case, 'o'), _creation(case, 'n')
    sch = _schema_names(case)
    if [x for x in co if x in names] != names: f.append('old-creation-order-differs-from-schema-order')
    if [x for x in cn if x in names] != names: f.append('new-creation-order-differs-from-schema-order')
    if [x for x in co if x in cn] != [x for x in cn if x in co]: f.append('old-and-new-creation-orders-differ')
    if names != sorted(names): f.append('schema-order-not-alphabetical')
    if co.index(pk) > min([co.index(x) for x in names] or [len(co)]): f.append('payload-created-before-pk')
    if pk not in sch: f.append('schema-without-pk')
    elif names and sch.index(pk) > sch.index(names[0]): f.append('schema-lists-pk-after-payload')
    if case.get('sord'): f.append('sord:%d' % case['sord'])
    for e in extra:
        f.append('extra-column:' + {'o': 'only-old', 'n': 'only-new', 'b': 'both-not-in-schema', 'g': 'schema-only'}[e[1]])
        f.extend('extra-' + x for x in _rel(e[0], pk, 'pk'))
    return f


def _plan_kinds(case, ok, nk):
    """'O'/'N' per result row (python restatement of the specification's plan, for the histogram only)"""
    ovf = case['ovf']
    out = []
    for k in sorted(set(ok) | set(nk)):
        rows = sorted((i for i in range(len(ok)) if ok[i] == k), key=lambda i: (ovf[i], i))
        out.extend('O' * len(rows))
        js = [j for j in range(len(nk)) if nk[j] == k]
        if js:
            if not rows or any(x['o'][rows[-1]] != x['n'][js[0]] for x in case['fields']):
                out.append('N')
    return out


def nontrivial(case, model):
    if isinstance(model, str) or case['op'] == 'indices' or not in_domain(case):
        return False
    st = _stats(case)
    return bool(st & {'key-both-unchanged', 'key-both-changed', 'multi-version-key'})


def known(case, impl, model, spec, mode):
    return None


def skip(case, mode):
    # HDF5-backed cases cost ~30 ms each (field creation): each one is run in ONE of the modes jit / nojit (chosen by a
    # hash of the case, so both modes see every shape class), cases tagged allmodes in every mode.  The numba kernels
    # themselves are run in every mode on every pipe / indices case.
    if case['op'] != 'table' or case.get('allmodes'):
        return False
    h = int(hashlib.sha256(json.dumps(case, sort_keys=True).encode()).hexdigest()[:8], 16)
    if mode == 'bounds':
        return h % 4 != 0
    return (h % 2 == 0) != (mode == 'jit')


# ---- planted value domains ---------------------------------------------------------------------------------------
NUM_KD = ['int8', 'uint8', 'int16', 'uint16', 'int32', 'uint32', 'int64', 'uint64', 'float32', 'float64']
NUM_KD_QUICK = ['int8', 'uint8', 'int32', 'int64', 'uint64', 'float32', 'float64']   # every dtype = one more compilation
KEY_PALETTE = {     # ascending; the extremes of the dtype, the neighbours of 0, of the sign bit and of 2^53 / 2^24
    'int8': [-128, -127, -1, 0, 1, 126, 127],
    'uint8': [0, 1, 127, 128, 254, 255],
    'int16': [-32768, -256, -1, 0, 255, 256, 32767],
    'uint16': [0, 1, 255, 256, 32767, 32768, 65535],
    'int32': [-2 ** 31, -65536, -1, 0, 65535, 65536, 2 ** 31 - 1],
    'uint32': [0, 1, 65536, 2 ** 31 - 1, 2 ** 31, 2 ** 32 - 1],
    'int64': [-2 ** 63, -2 ** 53 - 1, -2 ** 53, -1, 0, 2 ** 53, 2 ** 53 + 1, 2 ** 63 - 2, 2 ** 63 - 1],
    'uint64': [0, 1, 2 ** 53, 2 ** 53 + 1, 2 ** 63 - 1, 2 ** 63, 2 ** 64 - 2, 2 ** 64 - 1],
    'float32': [-2 ** 30, -2, -1, 0, 1, 2 ** 24 - 1, 2 ** 24, 2 ** 30],
    'float64': [-2 ** 60, -2, -1, 0, 1, 2 ** 53 - 1, 2 ** 53, 2 ** 62],
}
# bytes of the fixed-string keys: NUL (pad / embedded), tab, blank, upper / lower case of one letter, first byte with the
# sign bit set, 0xff
KEY_BYTES = [0, 9, 32, 65, 97, 128, 255]
# payload dtypes: a strictly increasing map from the small row-identity integers (< 256) into the dtype, placed where a
# narrower / floating comparison loses the difference
PAYLOAD_D = ['int8', 'int32', 'int64hi', 'int64lo', 'uint64', 'float32', 'float64', 'S2']
PAYLOAD_D_QUICK = ['int8', 'int64hi', 'int64lo', 'uint64', 'float32', 'float64', 'S2']


def _pmap(d, v):
    if d == 'int8': return v - 128 if v >= 128 else v
    if d == 'int32': return v + 2 ** 31 - 300
    if d == 'int64hi': return v + 2 ** 62 + 2 ** 54         # neighbours differ below the float64 mantissa
    if d == 'int64lo': return v - 2 ** 63
    if d == 'uint64': return v + 2 ** 64 - 300
    if d == 'float32': return v + 2 ** 24 - 300                # exactly representable, neighbours 1 apart
    if d == 'float64': return v + 2 ** 53 - 300
    if d == 'S2': return (65 + v // 4) * 256 + [0, 32, 9, 255][v % 4]   # 'A', 'A ', 'A\t', 'A\xff', 'B', ...
    return v


_PD_DTYPE = {'int64hi': 'int64', 'int64lo': 'int64'}


def _retype(f, d):
    """numeric payload column f (small non-negative integers) re-expressed in payload domain d"""
    if f['k'] != 'n' or d is None:
        return f
    g = dict(f)
    g['o'] = [_pmap(d, v) for v in f['o']]
    g['n'] = [_pmap(d, v) for v in f['n']]
    g['d'] = _PD_DTYPE.get(d, d)
    return g


def _restring(f, sv):
    """indexed-string payload column re-expressed: utf8 = every letter becomes a 2-byte character (characters != bytes);
    long = every cell gets a 255..257-byte prefix that depends only on the cell (cells >= 256 bytes that differ only at
    the very end / only in length)"""
    if f['k'] != 's' or not sv:
        return f

    def tr(c):
        if sv == 'utf8':
            out = []
            for b in c:
                out.extend([0xC3, 0xA0 + (b - 97) % 26] if b % 2 else [0xE2, 0x82, 0xAC, b])   # à.. / €+letter
            return out
        if sv == 'long':
            return [120] * (255 + len(c) % 3) + list(c)
        return c
    g = dict(f)
    g['o'] = [tr(c) for c in f['o']]
    g['n'] = [tr(c) for c in f['n']]
    return g


def _skeys(w, alphabet=KEY_BYTES):
    """every distinct cell of an S<w> column over the alphabet (as byte lists without trailing NULs), ascending"""
    seen = {}
    for t in itertools.product(alphabet, repeat=w):
        b = bytes(t).rstrip(b'\0')
        seen[b.ljust(w, b'\0')] = list(b)
    return [seen[k] for k in sorted(seen)]


# ---- generators
def _payload(okeys, ovf, nkeys, kinds, pattern):
    """Build payload columns. Old numeric cell of physical row i = 10+i (row identity); old string cell of row i =
    i%3 letters.  pattern: dict key -> one of 'same','num','str','both' for keys present in both tables."""
    nold = len(okeys)
    onum = [10 + i for i in range(nold)]
    ostr = [[97 + i % 26] * (i % 3) for i in range(nold)]
    nnum, nstr = [], []
    for j, k in enumerate(nkeys):
        rows = sorted((i for i in range(nold) if okeys[i] == k), key=lambda i: (ovf[i], i))
        if rows:
            last = rows[-1]
            p = pattern.get(k, 'same')
            v, s = onum[last], list(ostr[last])
            if p in ('num', 'both'):
                # differ from the latest version; when possible equal to an OLDER version (tempting a wrong comparison)
                v = onum[rows[0]] if len(rows) >= 2 else 50 + j
            if p in ('str', 'both'):
                s = s[:-1] if (s and j % 2 == 0) else s + [122]
            nnum.append(v); nstr.append(s)
        else:
            nnum.append(70 + j); nstr.append([110 + j % 12] * (j % 2))
    fields = []
    for kd in kinds:
        if kd == 'n':
            fields.append({'k': 'n', 'o': onum, 'n': nnum})
        else:
            fields.append({'k': 's', 'o': ostr, 'n': nstr})
    return fields


def _patterns(matched, kinds, rng, exhaustive):
    opts = ['same']
    if 'n' in kinds: opts.append('num')
    if 's' in kinds: opts.append('str')
    if 'n' in kinds and 's' in kinds: opts.append('both')
    if not matched:
        return [{}]
    if exhaustive:
        return [dict(zip(matched, c)) for c in itertools.product(opts, repeat=len(matched))]
    ps = [dict((k, 'same') for k in matched), dict((k, opts[-1]) for k in matched),
          dict((k, rng.choice(opts)) for k in matched)]
    out = []
    for p in ps:
        if p not in out:
            out.append(p)
    return out


def _nondecr(n, k):
    return itertools.combinations_with_replacement(range(k), n)


def gen(tier, rng):
    big = tier == 'thorough'
    # ---- indices: arbitrary arrays (model = code also outside the precondition)
    for no in range(0, 5):
        for old in itertools.product(range(3), repeat=no):
            for nn in range(0, 4):
                for new in itertools.product(range(4), repeat=nn):
                    yield {'op': 'indices', 'old': list(old), 'new': list(new)}
    # ---- pipe: kernels on sorted arrays, exhaustive difference patterns
    for no in range(0, 7 if big else 6):
        for okeys in _nondecr(no, 3):
            okeys = list(okeys)
            for r in range(0, 5):
                for nkeys in itertools.combinations(range(4), r):
                    nkeys = list(nkeys)
                    matched = [k for k in nkeys if k in okeys]
                    for kinds in (['n', 's'],):
                        for p in _patterns(matched, kinds, rng, True):
                            yield {'op': 'pipe', 'okeys': okeys, 'nkeys': nkeys,
                                   'fields': _payload(okeys, [0] * no, nkeys, kinds, p)}
                    # single-column variants with one pattern
                    for kinds in (['n'], ['s'], ['s', 'n'], ['n', 'n', 's']):
                        p = dict((k, rng.choice(['same', 'num' if 'n' in kinds else 'str', 'str' if 's' in kinds else 'num']))
                                 for k in matched)
                        yield {'op': 'pipe', 'okeys': okeys, 'nkeys': nkeys,
                               'fields': _payload(okeys, [0] * no, nkeys, kinds, p)}
    # pipe, malformed: duplicate snapshot keys / unsorted old (model = code only)
    for _ in range(400 if big else 150):
        no, nn = rng.randint(1, 5), rng.randint(1, 4)
        okeys = [rng.randint(0, 2) for _ in range(no)]
        nkeys = sorted(rng.randint(0, 3) for _ in range(nn))
        yield {'op': 'pipe', 'okeys': okeys, 'nkeys': nkeys,
               'fields': _payload(okeys, [0] * no, nkeys, ['n', 's'], dict((k, rng.choice(['same', 'num', 'str'])) for k in nkeys))}
    # ---- table: the real journal_table on HDF5 groups
    yield from _gen_tables(tier, rng)


# size parameters given to the real code (None = the library's 2^20)
CS_ROT = [1, 2, 3, None, 4, 1, 5, 2, 7, 3]
SCS_ROT = [1, 2, 3, None, 5, 2, 8, 1, 64, 3, 4096, 7]     # small field chunk sizes also make a case cheaper (write buffers)


def _dress(case, c, rng=None):
    """rotate the configuration dimensions over consecutive cases (c = running counter)"""
    case['cs'] = CS_ROT[c % len(CS_ROT)]
    case['scs'] = SCS_ROT[c % len(SCS_ROT)]
    if case['cs'] is None: del case['cs']
    if case['scs'] is None: del case['scs']
    if c % 8 == 5: case['twice'] = True
    if c % 5 == 3: case['form'] = 'h5'
    return case


def _shape_table(shape, rng, kinds, kd='int64', keymap=None):
    """shape = per key (ascending) a pair (number of old versions, snapshot status) with status in
    'absent' | 'same' | 'num' | 'str' | 'both' | (0 versions:) 'new'.  Both tables are physically shuffled."""
    rows, nk = [], []
    for k, (v, st) in enumerate(shape):
        for t in range(v):
            rows.append((k, t + 1))
        if st != 'absent':
            nk.append(k)
    rng.shuffle(rows)
    rng.shuffle(nk)
    okeys = [k for k, _ in rows]
    ovf = [t for _, t in rows]
    pat = dict((k, st) for k, (v, st) in enumerate(shape) if v and st not in ('absent', 'new'))
    fields = _payload(okeys, ovf, nk, kinds, pat)
    if keymap is not None:
        okeys = [keymap[k] for k in okeys]
        nk = [keymap[k] for k in nk]
    return {'op': 'table', 'kd': kd, 'okeys': okeys, 'ovf': ovf, 'nkeys': nk, 'fields': fields}


def _confine(case, rng):
    """differences confined to ONE column: for every key present in both tables whose snapshot record differs, one
    (seeded) compared field keeps its difference and every other field is reset to the latest old version"""
    ok, nk = _kz(case)
    ovf = case['ovf']
    fields = [dict(f, n=list(f['n'])) for f in case['fields']]
    for j, k in enumerate(nk):
        rows = sorted((i for i in range(len(ok)) if ok[i] == k), key=lambda i: (ovf[i], i))
        if not rows:
            continue
        last = rows[-1]
        dif = [i for i, f in enumerate(fields) if f['o'][last] != f['n'][j]]
        if len(dif) >= 2:
            keep = rng.choice(dif)
            for i in dif:
                if i != keep:
                    fields[i]['n'][j] = fields[i]['o'][last]
    case['fields'] = fields
    return case


def _rows_of(shape):
    return sum(v for v, _ in shape) + sum(1 for v, st in shape if st in ('new', 'num', 'str', 'both'))


def _gen_tables(tier, rng):
    from harness import hot
    big = tier == 'thorough'
    more = 3 if hot.changed() else 1          # a library source differs from the recorded tree: larger random budget
    kds = ['int32', 'int64', 'S1']
    c = 0
    nmax = 4 if big else 3
    news = []
    for r in range(0, 4):
        for sub in itertools.combinations([0, 1, 3], r):
            for perm in itertools.permutations(sub):
                news.append(list(perm))
    # A. every small old table x every snapshot arrangement; size parameters / argument form / timestamp map rotate
    for no in range(0, nmax + 1):
        for okeys in itertools.product(range(3), repeat=no):
            for ovf in itertools.product((1, 2), repeat=no):
                okeys_, ovf_ = list(okeys), list(ovf)
                c += 1      # key dtype and column layout rotate per OLD table (so that the old table is shared)
                kinds = [['n', 's'], ['s', 'n'], ['n'], ['s']][c % 4] if c % 3 else ['n', 's']
                scs = SCS_ROT[c % len(SCS_ROT)]
                vft = c % 4
                q = 0
                for nkeys in news:
                    matched = [k for k in nkeys if k in okeys_]
                    for p in _patterns(matched, kinds, rng, False):
                        q += 1
                        case = {'op': 'table', 'kd': kds[c % 3], 'okeys': okeys_, 'ovf': ovf_, 'nkeys': nkeys,
                                'fields': _payload(okeys_, ovf_, nkeys, kinds, p)}
                        if CS_ROT[(c + q) % len(CS_ROT)] is not None: case['cs'] = CS_ROT[(c + q) % len(CS_ROT)]
                        if scs is not None: case['scs'] = scs
                        if vft: case['vft'] = vft
                        if (c + q) % 11 == 0: case['twice'] = True
                        if (c + q) % 7 == 0: case['form'] = 'h5'
                        yield case
    # B. result layouts x every segment size: every sequence of <= 3 key blocks (1-2 old versions x snapshot record
    #    absent / unchanged / changed, or a key only in the snapshot) x every cs from 1 to the number of result rows
    blocks = [(v, st) for v in (1, 2) for st in ('absent', 'same', 'chg')] + [(0, 'new')]
    layouts = ['n', 'ns', 'sn', 'nsn'] if big else ['n', 'ns', 'sn']
    q = 0
    for nkeys_ in (1, 2, 3, 4) if big else (1, 2, 3):
        for shape in itertools.product(blocks, repeat=nkeys_):
            if nkeys_ == 4 and rng.random() > 0.25:
                continue
            q += 1
            kinds = list(layouts[q % len(layouts)])
            chg = 'both' if len(set(kinds)) == 2 else ('num' if 'n' in kinds else 'str')
            shp = [(v, [chg, 'num' if 'n' in kinds else 'str', 'str' if 's' in kinds else 'num'][(q + i) % 3] if st == 'chg' else st)
                   for i, (v, st) in enumerate(shape)]
            rows = _rows_of(shp)
            for cs in range(1, max(1, rows) + 1):
                case = _shape_table(shp, rng, kinds, kd=kds[(q + cs) % 3])
                case['cs'] = cs
                if (q + cs) % 6: case['scs'] = 1 + (q + cs) % 5
                if (q + cs) % 13 == 0: case['twice'] = True
                if (q + cs) % 9 == 0: case['form'] = 'h5'
                yield case
    # C. fixed-string keys: every pair of distinct S2 cells over KEY_BYTES, the snapshot in both physical orders
    cells = _skeys(2)
    q = 0
    for x, y in itertools.combinations(cells, 2):
        q += 1
        keymap = [x, y]
        extra = rng.choice(cells)
        if extra not in keymap and q % 3 == 0:
            keymap = sorted(keymap + [extra], key=lambda k: bytes(k).ljust(2, b'\0'))
        nk_ = len(keymap)
        for order in ((1, 0) if q % 3 == 0 else (1,)):      # descending for every pair, ascending for every third
            shape = [(rng.choice([1, 1, 2]), rng.choice(['same', 'num', 'str', 'both'])) for _ in range(nk_)]
            if rng.random() < 0.3:
                shape[rng.randrange(nk_)] = (0, 'new')
            case = _shape_table(shape, rng, ['n', 's'], kd='S2', keymap=keymap)
            srt = sorted(case['nkeys'], key=lambda k: bytes(k).ljust(2, b'\0'))
            perm = srt if order == 0 else list(reversed(srt))
            # re-express the snapshot in that physical order
            idx = [case['nkeys'].index(k) for k in perm]
            case['nkeys'] = perm
            case['fields'] = [dict(f, n=[f['n'][i] for i in idx]) for f in case['fields']]
            yield _dress(case, q + order)
    #    wider keys (S3, S4, S8): cells that share a prefix and differ in their tail / padding
    for t in range((3000 if big else 500) * more):
        w = rng.choice([3, 4, 4, 8])
        stem = [rng.choice([97, 112, 65, 48, 255]) for _ in range(rng.randint(0, w - 1))]
        pool = {}
        for _ in range(8):
            tail = [rng.choice(KEY_BYTES) for _ in range(rng.randint(0, w - len(stem)))]
            k = bytes(stem + tail).rstrip(b'\0')
            pool[k.ljust(w, b'\0')] = list(k)
        keymap = [pool[k] for k in sorted(pool)][:rng.randint(2, 5)]
        shape = [(rng.choice([0, 1, 1, 2]), rng.choice(['absent', 'same', 'num', 'str', 'both'])) for _ in keymap]
        shape = [(v, 'new' if v == 0 else st) for v, st in shape]
        case = _shape_table(shape, rng, rng.choice([['n', 's'], ['n'], ['s', 'n']]), kd='S%d' % w, keymap=keymap)
        r = rng.random()
        if r < 0.6:     # snapshot stored in ascending / descending / rotated key order
            srt = sorted(case['nkeys'], key=lambda k: bytes(k).ljust(w, b'\0'))
            perm = srt if r < 0.25 else (list(reversed(srt)) if r < 0.4 else srt[1:] + srt[:1])
            if r >= 0.5 and len(srt) >= 2:
                i = rng.randrange(len(srt) - 1)
                perm = list(srt); perm[i], perm[i + 1] = perm[i + 1], perm[i]     # one adjacent transposition
            idx = [case['nkeys'].index(k) for k in perm]
            case['nkeys'] = perm
            case['fields'] = [dict(f, n=[f['n'][i] for i in idx]) for f in case['fields']]
        yield _dress(case, t)
    # D. numeric keys at the extremes of every dtype: every pair of palette values, snapshot in both orders; + triples
    q = 0
    for kd in (NUM_KD if big else NUM_KD_QUICK):
        pal = KEY_PALETTE[kd]
        combos = list(itertools.combinations(pal, 2))
        combos += [tuple(sorted(rng.sample(pal, 3))) for _ in range(12 if big else 4)]
        for keymap in combos:
            for order in (0, 1):
                q += 1
                shape = [(rng.choice([1, 1, 2]), rng.choice(['same', 'num', 'str', 'both'])) for _ in keymap]
                if rng.random() < 0.3:
                    shape[rng.randrange(len(keymap))] = (0, 'new')
                case = _shape_table(shape, rng, ['n', 's'], kd=kd, keymap=list(keymap))
                srt = sorted(case['nkeys'])
                perm = srt if order == 0 else list(reversed(srt))
                idx = [case['nkeys'].index(k) for k in perm]
                case['nkeys'] = perm
                case['fields'] = [dict(f, n=[f['n'][i] for i in idx]) for f in case['fields']]
                case['vft'] = q % 4
                yield _dress(case, q)
    # E. payload domains: every numeric payload dtype / string form on seeded tables of 2-6 rows
    pds = PAYLOAD_D if big else PAYLOAD_D_QUICK
    for t in range((4000 if big else 700) * more):
        nk_ = rng.randint(1, 4)
        shape = [(rng.choice([0, 1, 1, 2, 3]), rng.choice(['absent', 'same', 'same', 'num', 'str', 'both'])) for _ in range(nk_)]
        shape = [(v, 'new' if v == 0 else st) for v, st in shape]
        kinds = rng.choice([['n', 's'], ['n', 's'], ['s', 'n'], ['n', 'n'], ['n', 's', 'n'], ['n'], ['s']])
        case = _shape_table(shape, rng, kinds, kd=rng.choice(kds + ['int64', 'uint8']))
        if t % 2 and len(kinds) >= 2:
            _confine(case, rng)
        if case['kd'] == 'uint8': case['okeys'] = [200 + k for k in case['okeys']]; case['nkeys'] = [200 + k for k in case['nkeys']]
        sv = [None, 'utf8', 'long', 'utf8'][t % 4]
        fs = []
        for i, f in enumerate(case['fields']):
            if f['k'] == 'n':
                # with two numeric columns the second keeps int64 so that a difference confined to it is visible
                fs.append(_retype(f, pds[(t + i) % len(pds)]) if (i == 0 or t % 3) else f)
            else:
                fs.append(_restring(f, sv))
        case['fields'] = fs
        case['vft'] = t % 4
        yield _dress(case, t)
    # F. tables beyond the exhaustive scope: 8-48 rows, 3-16 keys, up to 4 versions, small segment sizes
    for t in range((2500 if big else 350) * more):
        nk_ = rng.randint(3, 16 if t % 4 else 24)
        shape = [(rng.choice([0, 1, 1, 1, 2, 2, 3, 4]), rng.choice(['absent', 'same', 'same', 'num', 'str', 'both'])) for _ in range(nk_)]
        shape = [(v, 'new' if v == 0 else st) for v, st in shape]
        kinds = rng.choice([['n', 's'], ['n', 's'], ['s', 'n'], ['n'], ['s'], ['n', 's', 'n']])
        kd = rng.choice(['int32', 'int64', 'int8' if len(shape) < 100 else 'int64', 'uint64', 'float64'])
        case = _shape_table(shape, rng, kinds, kd=kd)
        if rng.random() < 0.3:      # snapshot physically sorted, or sorted except one adjacent transposition
            srt = sorted(case['nkeys'])
            if rng.random() < 0.5 and len(srt) >= 2:
                i = rng.randrange(len(srt) - 1); srt[i], srt[i + 1] = srt[i + 1], srt[i]
            idx = [case['nkeys'].index(k) for k in srt]
            case['nkeys'] = srt
            case['fields'] = [dict(f, n=[f['n'][i] for i in idx]) for f in case['fields']]
        if rng.random() < 0.2:      # old table physically in (key, j_valid_from) order already
            order = sorted(range(len(case['okeys'])), key=lambda i: (case['okeys'][i], case['ovf'][i], i))
            case['okeys'] = [case['okeys'][i] for i in order]; case['ovf'] = [case['ovf'][i] for i in order]
            case['fields'] = [dict(f, o=[f['o'][i] for i in order]) for f in case['fields']]
        _dress(case, t)
        rows = _rows_of(shape)
        case['cs'] = rng.choice([1, 2, 3, 4, 5, 6, 7, 8, 16, max(1, rows - 1), rows, max(1, rows // 2)])
        case['vft'] = t % 4
        if t % 10 == 0:
            case['allmodes'] = True
        yield case
    # G. the snapshot is the old table itself (old_src is new_src): unique keys, nothing may be appended
    for t in range(120 if big else 40):
        n_ = rng.randint(0, 5)
        keys = rng.sample(range(8), n_)
        kinds = rng.choice([['n', 's'], ['s'], ['n']])
        fields = _payload(keys, [1] * n_, [], kinds, {})
        fields = [dict(f, n=list(f['o'])) for f in fields]
        case = {'op': 'table', 'kd': kds[t % 3], 'okeys': keys, 'ovf': [1] * n_, 'nkeys': list(keys), 'fields': fields,
                'form': 'alias', 'allmodes': True}
        if t % 2: case['cs'] = 1 + t % 3
        yield case
    # H. seeded 4-7 row tables (as before the strengthening, now with rotating size parameters)
    for t in range((6000 if big else 800) * more):
        no = rng.randint(nmax + 1, 7 if big else 6)
        nk = rng.randint(2, 4)
        okeys = [rng.randint(0, nk - 1) * 2 for _ in range(no)]
        ovf = [rng.randint(1, 3) for _ in range(no)]
        pool = list(range(0, 2 * nk + 1))
        nkeys = rng.sample(pool, rng.randint(0, len(pool)))
        matched = [k for k in nkeys if k in okeys]
        kinds = rng.choice([['n', 's'], ['n', 's'], ['s', 'n'], ['n'], ['s'], ['n', 's', 'n']])
        opts = ['same', 'same'] + (['num'] if 'n' in kinds else []) + (['str'] if 's' in kinds else []) + \
               (['both'] if len(set(kinds)) == 2 else [])
        p = dict((k, rng.choice(opts)) for k in matched)
        case = {'op': 'table', 'kd': kds[t % 3], 'okeys': okeys, 'ovf': ovf, 'nkeys': nkeys,
                'fields': _payload(okeys, ovf, nkeys, kinds, p)}
        _dress(case, t)
        if t % 10 == 0:
            case['allmodes'] = True
        yield case
    # J. column NAMES (the model is name-agnostic; see _gen_names)
    yield from _gen_names(tier, rng, more)
    # I. change-directed: a small integer literal that is NEW in the tree under test (harness/hot.py) is planted as
    #    number of rows of either table / of the result, number of keys, run length of versions, segment size,
    #    key width and string-cell length
    for K in hot.hot_sizes():
        yield from _gen_hot(K, tier, rng)
    # table, malformed: duplicate snapshot keys (model = code only)
    for t in range(200 if big else 60):
        no = rng.randint(1, 4)
        okeys = [rng.randint(0, 2) for _ in range(no)]
        ovf = [rng.randint(1, 2) for _ in range(no)]
        nkeys = [rng.randint(0, 2) for _ in range(rng.randint(2, 4))]
        yield {'op': 'table', 'kd': kds[t % 3], 'okeys': okeys, 'ovf': ovf, 'nkeys': nkeys,
               'fields': _payload(okeys, ovf, nkeys, ['n', 's'], dict((k, rng.choice(['same', 'num', 'str'])) for k in nkeys))}


# ---- J. column names ------------------------------------------------------------------------------------------------
PK_NAMES_QUICK = ['id', 'patient_id', 'j_valid', 'k']
PK_NAMES = PK_NAMES_QUICK + ['pk', 'j_valid_from_id', 'to', 'ID', 'a_b', 'j_valid_to_']


def _substrings(S):
    return [S[i:j] for i in range(len(S)) for j in range(i + 1, len(S) + 1)]


def _dedupe(xs, pk):
    out = []
    for x in xs:
        if x and x != pk and x not in RESERVED and x not in out and '/' not in x and x != '.':
            out.append(x)
    return out


def _related_names(S, full):
    """names related to the string S.  small: prefix, suffix, first / last / middle character, '_'-separated tokens,
    superstrings on either side, doubled, case variants, reversed, same length with another last character, trailing
    blank; full: EVERY non-empty proper substring as well"""
    n = len(S)
    out = [S[:1], S[-1:], S[:n // 2], S[n // 2:], S[:-1], S[1:], S[1:-1], S[n // 2:n // 2 + 1]] + S.split('_')
    out += [S + '2', 'x' + S, S + '_x', S + S, S.upper() if S.upper() != S else S.lower(), S.capitalize(), S[::-1],
            S[:-1] + 'x', S + ' ', ' ' + S, S + '\u00e9']
    if full:
        out += _substrings(S)
    return out


def _name_alphabet(pk, size):
    """payload-name alphabets for the primary-key name pk: 'all' (single columns), 'mid' (pairs), 'small' (triples)"""
    if size == 'all':
        xs = _related_names(pk, True) + [x for r in RESERVED for x in _related_names(r, True)] + ['val', 'a', 'ab', 'abc']
    elif size == 'mid':
        n = len(pk)
        xs = [pk[:1], pk[-1:], pk[:max(1, n // 2)], pk[n // 2:], pk[1:-1], pk + '2', 'x' + pk, pk + pk,
              pk.upper() if pk.upper() != pk else pk.lower(), pk + ' ',
              'j', 'valid', 'j_valid', 'j_valid_', 'from', 'to', '_', 'j_valid_from_x', 'xj_valid_to', 'j_valid_fro', 'val']
    else:
        xs = [pk[:max(1, len(pk) // 2)], pk[-1:], pk + '2', 'j', 'j_valid', 'j_valid_from_x', 'o', 'val']
    return _dedupe(xs, pk)


_NAME_SHAPES = [    # per key ascending: (old versions, snapshot status); 'chg' = changed in the carrier column only
    [(2, 'chg'), (1, 'same'), (0, 'new'), (1, 'absent')],
    [(1, 'chg'), (2, 'chg'), (1, 'same')],
    [(0, 'new'), (1, 'chg'), (2, 'absent'), (1, 'chg')],
    [(1, 'same'), (3, 'chg')],
]


def _distinct_columns(fields):
    """_payload gives every numeric (string) column the same content: make the columns pairwise different, so that a
    column stored under another column's name is seen"""
    out = []
    for i, f in enumerate(fields):
        if i == 0:
            out.append(f)
        elif f['k'] == 'n':
            out.append(dict(f, o=[v + 1000 * i for v in f['o']], n=[v + 1000 * i for v in f['n']]))
        else:
            out.append(dict(f, o=[c + [48 + i] for c in f['o']], n=[c + [48 + i] for c in f['n']]))
    return out


def _confine_to(case, carrier):
    """every key whose snapshot record differs keeps its difference in column `carrier` only (carrier None: everywhere)"""
    if carrier is None:
        return case
    ok, nk = _kz(case)
    ovf = case['ovf']
    fields = [dict(f, n=list(f['n'])) for f in case['fields']]
    for j, k in enumerate(nk):
        rows = sorted((i for i in range(len(ok)) if ok[i] == k), key=lambda i: (ovf[i], i))
        if rows:
            for i, f in enumerate(fields):
                if i != carrier:
                    f['n'][j] = f['o'][rows[-1]]
    case['fields'] = fields
    return case


def _named_case(rng, c, pk, names, carrier, kinds=None, extra=None):
    """a 4-7 row table whose columns are called pk / names; c = running counter rotating every other dimension"""
    nf = len(names)
    if kinds is None:
        kinds = [['n', 's', 'n'], ['s', 'n', 's'], ['n', 'n', 's'], ['s', 's', 'n']][c % 4][:nf] if nf <= 3 else \
                [rng.choice('ns') for _ in range(nf)]
    chg = 'both' if len(set(kinds)) == 2 else ('num' if 'n' in kinds else 'str')
    shape = [(v, chg if st == 'chg' else st) for v, st in _NAME_SHAPES[c % len(_NAME_SHAPES)]]
    case = _shape_table(shape, rng, kinds, kd=['int32', 'int64', 'S1'][c % 3])
    case['fields'] = _distinct_columns(case['fields'])
    _confine_to(case, carrier)
    _dress(case, c)
    case['pk'] = pk
    case['names'] = list(names)
    oc, nc, so = [(0, 0, 0), (1, 1, 0), (0, 1, 1), (2, 0, 2), (3, 4, 0), (5, 2, 3), (4, 4, 1), (1, 5, 2), (0, 3, 0), (5, 5, 0)][c % 10]
    if oc: case['ocre'] = oc
    if nc: case['ncre'] = nc
    if so: case['sord'] = so
    if extra:
        case['extra'] = extra
    assert _names_ok(case), case
    return case


def _gen_names(tier, rng, more):
    """J. dependence on column NAMES.  For several primary-key names: (1) every single payload column whose name is a
    non-empty proper substring / a superstring / a case variant / ... of the primary-key name or of j_valid_from /
    j_valid_to; (2) every pair (thorough: every ordered pair) of a 20-name alphabet with each column in turn carrying the
    only difference; (3) every triple of an 8-name alphabet and chains of names that are substrings of one another;
    (4) extra columns (only old / only new / both but not in the schema / schema only) with related names.  The order
    in which the columns were created in either table and the place of the key / j_valid_* in the schema rotate."""
    big = tier == 'thorough'
    pks = PK_NAMES if (big or more > 1) else PK_NAMES_QUICK
    c = 0
    for pk in pks:
        # (1) single payload column
        for nm in _name_alphabet(pk, 'all'):
            c += 1
            yield _named_case(rng, c, pk, [nm], 0)
        # (2) pairs
        alpha = _name_alphabet(pk, 'mid')
        pairs = itertools.permutations(alpha, 2) if big else itertools.combinations(alpha, 2)
        for a, b in pairs:
            c += 1
            ab = [a, b] if (big or c % 2) else [b, a]
            for carrier in (0, 1):
                yield _named_case(rng, c + carrier, pk, ab, carrier)
        # (3) triples, chains
        small = _name_alphabet(pk, 'small')
        triples = list(itertools.permutations(small, 3) if big else itertools.combinations(small, 3))
        chains = [['a', 'ab', 'abc'], ['abc', 'ab', 'a'], ['b', 'abc', 'bc'], [pk[:1], pk + 'x', pk[-1:] + '_'],
                  ['j', 'j_', 'j_v'], ['_from', 'j_valid_from_', 'valid_from'], [pk + pk, pk + '_', '_' + pk]]
        for tr in triples + chains:
            tr = _dedupe(tr, pk)
            if len(tr) < 3:
                continue
            c += 1
            if not big:
                tr = [tr, tr[::-1], tr[1:] + tr[:1]][c % 3]
            yield _named_case(rng, c, pk, tr, c % 3)
            if c % 4 == 0:
                yield _named_case(rng, c + 1, pk, tr, None)
        # (4) extra columns with related names, next to 1-2 payload columns with related names
        rel = _name_alphabet(pk, 'mid')
        for nm in rel:
            for where in 'onbg':
                c += 1
                others = [x for x in rel if x != nm]
                pay = [others[c % len(others)]] if c % 2 else [others[c % len(others)], others[(c + 5) % len(others)]]
                pay = _dedupe(pay, pk)
                ex = [[nm, where]]
                if c % 3 == 0:
                    ex.append(['extra2', 'onbg'[c % 4]])
                yield _named_case(rng, c, pk, pay, c % len(pay), extra=ex)
    # (5) more payload columns: 4-6 names drawn from the alphabets, seeded
    for t in range((600 if big else 60) * more):
        pk = rng.choice(pks)
        alpha = _name_alphabet(pk, 'all')
        names = rng.sample(alpha, rng.randint(4, 6))
        c += 1
        yield _named_case(rng, c, pk, names, rng.randrange(len(names)))


HOT_ROWS_MAX = 520      # the extracted model (insertion sort over lists of inductive integers) is cubic: ~1 s at 500 rows


def _gen_hot(K, tier, rng):
    big = tier == 'thorough'
    sizes = sorted(set(x for x in (K - 1, K, K + 1, 2 * K - 1, 2 * K, 2 * K + 1, 3 * K) if 1 <= x <= HOT_ROWS_MAX))
    t = 0
    for L in sizes:
        for rep in range((6 if big else 3) if L <= 128 else (2 if big else 1)):
            for what in ('result', 'old', 'new', 'run'):
                t += 1
                if what == 'result':      # L result rows: alternating old version / appended record, phase varies
                    shape = []
                    while _rows_of(shape) < L:
                        left = L - _rows_of(shape)
                        opts = [(1, 'absent'), (0, 'new')] + ([(1, 'num'), (1, 'both'), (2, 'same')] if left >= 2 else [])
                        shape.append(rng.choice(opts) if rep else opts[-1] if left >= 2 else opts[t % 2])
                elif what == 'old':       # L old rows
                    shape = [(1, rng.choice(['absent', 'same', 'num', 'both'])) for _ in range(L)]
                elif what == 'new':       # L snapshot rows
                    shape = [rng.choice([(1, 'same'), (1, 'num'), (0, 'new'), (1, 'both')]) for _ in range(L)]
                else:                     # a key with L / L+-1 versions among short ones
                    shape = [(1, 'num'), (L, rng.choice(['same', 'num', 'absent'])), (0, 'new'), (2, 'both')]
                    if sum(v for v, _ in shape) > HOT_ROWS_MAX:
                        continue
                kinds = [['n', 's'], ['n'], ['s', 'n']][t % 3]
                case = _shape_table(shape, rng, kinds, kd=['int64', 'int32', 'S1' if len(shape) <= 26 else 'int64'][t % 3])
                if case['kd'] == 'S1' and len(shape) > 4:
                    case['kd'] = 'int32'
                case['cs'] = [K, K - 1 if K > 1 else 1, K + 1, 1, 2 * K, max(1, K // 2)][t % 6]
                if t % 2: case['scs'] = [K, K + 1, max(1, K - 1)][t % 3]
                yield case
    # K as a byte count: key width, string-cell length, fixed-string payload width
    for rep in range(12 if big else 4):
        for w in (K - 1, K, K + 1):
            if 2 <= w <= 64:
                stem = [97] * (w - 2)
                keymap = sorted(([stem + tail for tail in ([], [32], [97], [97, 32], [97, 97], [0, 97])]),
                                key=lambda k: bytes(k).ljust(w, b'\0'))
                shape = [(rng.choice([0, 1, 2]), rng.choice(['same', 'num', 'both'])) for _ in keymap]
                shape = [(v, 'new' if v == 0 else st) for v, st in shape]
                case = _shape_table(shape, rng, ['n', 's'], kd='S%d' % w, keymap=keymap)
                yield _dress(case, rep + w)
            if 1 <= w <= 6000:
                shape = [(rng.choice([1, 2]), rng.choice(['same', 'str', 'str'])) for _ in range(3)] + [(0, 'new')]
                case = _shape_table(shape, rng, ['s', 'n'], kd='int32')
                pre = [120] * max(0, w - 2)
                case['fields'] = [dict(f, o=[pre + c for c in f['o']], n=[pre + c for c in f['n']]) if f['k'] == 's' else f
                                  for f in case['fields']]
                yield _dress(case, rep + w)
    # K compared fields
    if 2 <= K <= 12:
        for rep in range(6 if big else 2):
            for nf in (K - 1, K, K + 1):
                kinds = [rng.choice('ns') for _ in range(nf)]
                shape = [(rng.choice([1, 2]), rng.choice(['same', 'num', 'str', 'both'])) for _ in range(3)] + [(0, 'new')]
                case = _shape_table(shape, rng, kinds, kd='int64')
                yield _dress(_confine(case, rng), rep + nf)


def shrink(case):
    if case['op'] == 'indices':
        for key in ('old', 'new'):
            for i in range(len(case[key])):
                c = dict(case); c[key] = case[key][:i] + case[key][i + 1:]; yield c
        return
    no, nn = len(case['okeys']), len(case['nkeys'])
    # configuration dimensions first: a failure that does not need them is reported without them
    for key in ('twice', 'form', 'scs', 'vft', 'allmodes', 'cs', 'extra', 'ocre', 'ncre', 'sord', 'names', 'pk'):
        if key in case and not (key == 'form' and case[key] == 'alias'):
            c = dict(case); del c[key]
            if case['op'] != 'table' or _names_ok(c): yield c
    if 'names' in case:
        for i, nm in enumerate(case['names']):
            if nm != 'f%d' % i:
                c = dict(case); c['names'] = case['names'][:i] + ['f%d' % i] + case['names'][i + 1:]
                if _names_ok(c): yield c
    if case.get('extra') and len(case['extra']) > 1:
        for i in range(len(case['extra'])):
            c = dict(case); c['extra'] = case['extra'][:i] + case['extra'][i + 1:]; yield c
    if case.get('cs', 1) > 1:
        c = dict(case); c['cs'] = case['cs'] - 1; yield c
    for i in range(no):
        c = dict(case)
        c['okeys'] = case['okeys'][:i] + case['okeys'][i + 1:]
        if 'ovf' in case: c['ovf'] = case['ovf'][:i] + case['ovf'][i + 1:]
        c['fields'] = [dict(f, o=f['o'][:i] + f['o'][i + 1:]) for f in case['fields']]
        yield c
    for j in range(nn):
        c = dict(case)
        c['nkeys'] = case['nkeys'][:j] + case['nkeys'][j + 1:]
        c['fields'] = [dict(f, n=f['n'][:j] + f['n'][j + 1:]) for f in case['fields']]
        yield c
    if len(case['fields']) > 1:
        for i in range(len(case['fields'])):
            c = dict(case); c['fields'] = case['fields'][:i] + case['fields'][i + 1:]
            if 'names' in case: c['names'] = case['names'][:i] + case['names'][i + 1:]
            yield c
