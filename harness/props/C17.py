"""C17 — snapshot journalling (exetera/core/journal.py + journalling kernels of operations.py)
vs coq/Model/Journal.v and coq/Spec/JournalSpec.v.

ops
  table    journal.journal_table on real HDF5 groups (BytesIO-backed dataset): old table in arbitrary
           physical order with several versions per key, snapshot with unique keys in arbitrary order,
           numeric and/or indexed-string payload columns; observed at the fields of the result group
  pipe     the same kernels driven directly on numpy arrays that are already in sorted order (the
           orchestration of journal_table re-stated in run(); supplementary volume, microseconds per case)
  indices  ordered_generate_journalling_indices alone on arbitrary (also unsorted / duplicated) arrays
"""
import itertools, json, hashlib

PROP, NUM = 'C17', 17
PROPS_FILES = ['Props/C17.v']
MODES = ['jit', 'nojit']
MODES_THOROUGH = ['jit', 'nojit', 'bounds']
LEVEL = 'proof'
TIMEOUT_S = 30.0

RULE = ('table (HDF5, ~10 ms/case, jit mode only in the quick tier): every old table of <= 3 rows over 3 keys x 2 '
        'j_valid_from values in every physical order x every snapshot that is an arrangement of a subset of 3 keys '
        '(one only-new key), each with 3 difference patterns (none / all / seeded per-key choice among '
        'same, numeric-only, string-only, both), 1-2 payload columns (numeric + indexed string), key dtype '
        'int32/int64/S1 rotated; plus seeded samples of 4-6 row tables. pipe (kernels on sorted arrays, both modes): '
        'every non-decreasing old key list of <= 5 rows over 3 keys x every strictly increasing snapshot over 4 keys '
        'x every per-matched-key difference pattern in {same, num, str, both}. indices: every old list of <= 4 '
        'entries over 3 symbols x every new list of <= 3 entries over 4 symbols (also unsorted: model = code). '
        'Non-trivial = at least one key present in both tables or several versions of a key.')
EXHAUSTIVE = {'quick': True, 'thorough': True}
TRUSTED = ['numpy argsort(kind=stable), fancy indexing and Session.dataset_sort_index / apply_index are defined in '
           'Gallina (Model/Journal.v: argsort, take, dataset_sort_index, apply_index_str) and tied to the real '
           'functions only by this correspondence run',
           'h5py/ExeTera field storage round-trip (write of the destination arrays, read-back of .data/.indices/.values)',
           'keys, j_valid_from values and numeric payloads are exactly representable integers (no NaN, no overflow)']
ASSUMPTIONS = ['snapshot keys are unique', 'old and new column of a field have the same kind and dtype',
               'schema lists the payload fields; primary key / j_valid_from / j_valid_to are not written to the result '
               '(journal_table skips them)']
TECHNIQUE = ('Coq proof (statement-level Gallina model of journal_table and its six kernels = per-key history spec) + '
             'exhaustive small-scope differential correspondence against the real journal_table on HDF5 groups')
LEVEL_TEXT = ('Theorems in coq/Props/C17.v prove, for all tables and all sizes, that the Gallina model of '
              'journal_table (sort indices, ordered_generate_journalling_indices, compare_*_rows_for_journalling, '
              'merge_*journalled_entries*) returns exactly the columns of the per-key history specification; the model '
              'is tied to the code by running the extracted model, the extracted spec and the real code on the same '
              'generated cases.')
LEVEL_NOTE = ('Trusted: Coq kernel, extraction, harness; numpy stable argsort / fancy indexing and the ExeTera field '
              'storage are modelled, not verified.')

_np = _ops = _session = _journal = None
_sess = None
_ds = None
_count = 0
RECYCLE = 16      # cases per BytesIO-backed dataset (the in-memory HDF5 image is never shrunk: keep it small)
_cache = {}


class _Schema:
    def __init__(self, names):
        self.fields = dict((k, None) for k in names)


def setup():
    global _np, _ops, _session, _journal
    import numpy as np
    from exetera.core import operations as ops, session, journal
    _np, _ops, _session, _journal = np, ops, session, journal
    import os
    if os.environ.get('VERIF_C17_FAULTLOG'):
        import faulthandler
        faulthandler.enable(file=open('%s.%s.%d' % (os.environ['VERIF_C17_FAULTLOG'], os.environ.get('VERIF_MODE', ''), os.getpid()), 'w'),
                            all_threads=True)


def warmup():
    run({'op': 'pipe', 'okeys': [0, 0, 1], 'nkeys': [0, 2],
         'fields': [{'k': 'n', 'o': [1, 2, 3], 'n': [2, 5]}, {'k': 's', 'o': [[97], [], [98]], 'n': [[], [99]]}]})
    run({'op': 'indices', 'old': [0, 0, 1], 'new': [0, 2]})
    run({'op': 'table', 'kd': 'int32', 'okeys': [1, 0, 0], 'ovf': [1, 2, 1], 'nkeys': [2, 0],
         'fields': [{'k': 'n', 'o': [1, 2, 3], 'n': [2, 5]}, {'k': 's', 'o': [[97], [], [98]], 'n': [[], [99]]}]})
    run({'op': 'table', 'kd': 'S1', 'okeys': [1, 0, 0], 'ovf': [1, 2, 1], 'nkeys': [2, 0],
         'fields': [{'k': 'n', 'o': [1, 2, 3], 'n': [2, 5]}]})
    run({'op': 'table', 'kd': 'int64', 'okeys': [], 'ovf': [], 'nkeys': [],
         'fields': [{'k': 's', 'o': [], 'n': []}]})
    # the forked children must not share an open h5py file / Session with the parent
    global _sess, _ds
    try:
        _sess.close()
    except Exception:
        pass
    _sess = _ds = None
    _cache.clear()


def _trim():
    # every indexed-string field allocates 4.5 MB of write buffers; without returning freed arenas to the OS the
    # resident size of a worker grows by ~3 MB per case (observed: OOM kill after a few thousand cases)
    import gc, ctypes
    gc.collect()
    try:
        ctypes.CDLL('libc.so.6').malloc_trim(0)
    except Exception:
        pass


def _str(bs):
    return bytes(bs).decode('ascii')


def _enc(np, strs):
    offs = [0]
    vals = []
    for s in strs:
        vals.extend(s)
        offs.append(len(vals))
    return np.array(offs, dtype=np.int64), np.array(vals, dtype=np.uint8)


def _ints(a):
    return [int(x) for x in a]


def _run_table(case):
    global _sess, _ds, _count
    np, s_mod, journal = _np, _session, _journal
    from io import BytesIO
    if _sess is None or _count % RECYCLE == 0:
        if _sess is not None:
            try:
                _sess.close()
            except Exception:
                pass
        _cache.clear()
        _trim()
        _sess = s_mod.Session()
        _ds = _sess.open_dataset(BytesIO(), 'w', 'd')
    _count += 1
    s, ds = _sess, _ds
    tag = str(_count)
    kd = case['kd']
    names = ['f%d' % i for i in range(len(case['fields']))]

    def mk(prefix, keys, vf, which):
        # input tables are only read by journal_table: identical ones are shared between consecutive cases
        key = json.dumps([prefix, kd, keys, vf, [[f['k'], f[which]] for f in case['fields']]])
        df = _cache.get(key)
        if df is not None:
            return df
        df = ds.create_dataframe(prefix + tag)
        if kd == 'S1':
            s.create_fixed_string(df, 'id', 1).data.write(np.array([bytes([97 + k]) for k in keys], dtype='S1'))
        else:
            s.create_numeric(df, 'id', kd).data.write(np.array(keys, dtype=kd))
        s.create_timestamp(df, 'j_valid_from').data.write(np.array(vf, dtype=np.float64))
        s.create_timestamp(df, 'j_valid_to').data.write(np.array([9e9] * len(keys), dtype=np.float64))
        for nm, f in zip(names, case['fields']):
            if f['k'] == 'n':
                s.create_numeric(df, nm, 'int64').data.write(np.array(f[which], dtype=np.int64))
            else:
                s.create_indexed_string(df, nm).data.write([_str(x) for x in f[which]])
        if len(_cache) > 6:
            _cache.pop(next(iter(_cache)))
        _cache[key] = df
        return df

    o = mk('o', case['okeys'], case['ovf'], 'o')
    n = mk('n', case['nkeys'], [100.0] * len(case['nkeys']), 'n')
    r = ds.create_dataframe('r' + tag)
    journal.journal_table(s, _Schema(['id'] + names + ['j_valid_from', 'j_valid_to']), o, n, 'id', r)
    got = sorted(r.keys())
    if got != sorted(names):
        return ['result-fields', got]
    out = []
    for nm, f in zip(names, case['fields']):
        fld = r[nm]
        if f['k'] == 'n':
            out.append([0, _ints(fld.data[:])])
        else:
            # observed twice: raw storage and the decoded strings must agree
            offs, vals = _ints(fld.indices[:]), _ints(fld.values[:])
            dec = [list(x.encode('ascii')) for x in fld.data[:]]
            if dec != [vals[offs[i]:offs[i + 1]] for i in range(len(offs) - 1)]:
                return ['decode-mismatch', offs, vals]
            out.append([1, offs, vals])
    return out


def _run_pipe(case):
    np, ops = _np, _ops
    okeys = np.array(case['okeys'], dtype=np.int64)
    nkeys = np.array(case['nkeys'], dtype=np.int64)
    old_map, new_map = ops.ordered_generate_journalling_indices(okeys, nkeys)
    to_keep = np.zeros(len(old_map), dtype=bool)
    cols = []
    for f in case['fields']:
        if f['k'] == 'n':
            cols.append((np.array(f['o'], dtype=np.int64), np.array(f['n'], dtype=np.int64)))
        else:
            cols.append((_enc(np, f['o']), _enc(np, f['n'])))
    for f, (oc, nc) in zip(case['fields'], cols):
        if f['k'] == 'n':
            ops.compare_rows_for_journalling(old_map, new_map, oc, nc, to_keep)
        else:
            ops.compare_indexed_rows_for_journalling(old_map, new_map, oc[0], oc[1], nc[0], nc[1], to_keep)
    merged_length = len(okeys) + to_keep.sum()
    out = []
    for f, (oc, nc) in zip(case['fields'], cols):
        if f['k'] == 'n':
            dest = np.zeros(merged_length, oc.dtype)
            ops.merge_journalled_entries(old_map, new_map, to_keep, oc, nc, dest)
            out.append([0, _ints(dest)])
        else:
            dest_i = np.zeros(merged_length + 1, oc[0].dtype)
            val_count = ops.merge_indexed_journalled_entries_count(old_map, new_map, to_keep, oc[0], nc[0])
            dest_v = np.zeros(val_count, oc[1].dtype)
            ops.merge_indexed_journalled_entries(old_map, new_map, to_keep, oc[0], oc[1], nc[0], nc[1], dest_i, dest_v)
            out.append([1, _ints(dest_i), _ints(dest_v)])
    return out


def run(case):
    op = case['op']
    if op == 'table':
        return _run_table(case)
    if op == 'pipe':
        return _run_pipe(case)
    if op == 'indices':
        np = _np
        a, b = _ops.ordered_generate_journalling_indices(np.array(case['old'], dtype=np.int64),
                                                         np.array(case['new'], dtype=np.int64))
        assert a.dtype == np.int64 and b.dtype == np.int64
        return [_ints(a), _ints(b)]
    raise ValueError(op)


def _wire_fields(case):
    return [[0 if f['k'] == 'n' else 1, f['o'], f['n']] for f in case['fields']]


def to_val(case):
    op = case['op']
    if op == 'table':
        return [1, case['okeys'], case['ovf'], case['nkeys'], _wire_fields(case)]
    if op == 'pipe':
        return [2, case['okeys'], case['nkeys'], _wire_fields(case)]
    if op == 'indices':
        return [3, case['old'], case['new']]
    raise ValueError(op)


_EXC = {1: 'ValueError', 2: 'TypeError', 3: 'IndexError', 4: 'KeyError', 5: 'OverflowError', 9: 'Other'}


def _err(v):
    if isinstance(v, list) and len(v) == 3 and v[0] == -999:
        kind, arg = v[1], v[2]
        if kind == 1: return 'OOB:%d' % arg
        if kind == 2: return 'EXC:' + _EXC.get(arg, 'Other')
        if kind == 3: return 'FUEL'
        return 'BADCASE'
    return None


def in_domain(case):
    """The property's precondition: snapshot keys unique; for pipe also sorted inputs."""
    if case['op'] == 'indices':
        return False
    nk = case['nkeys']
    if len(set(nk)) != len(nk):
        return False
    if case['op'] == 'pipe':
        ok = case['okeys']
        return all(ok[i] <= ok[i + 1] for i in range(len(ok) - 1)) and all(nk[i] < nk[i + 1] for i in range(len(nk) - 1))
    return True


def from_val(case, v):
    m, s = v
    e = _err(m)
    if e is not None:
        m = e
    if not in_domain(case):
        return m            # outside the precondition only model = code is checked
    return (m, s)


def _stats(case):
    """Per-key classification of a table/pipe case (python restatement used only for the histogram)."""
    ok, nk = case['okeys'], case['nkeys']
    ovf = case.get('ovf', [0] * len(ok))
    st = set()
    for k in sorted(set(ok) | set(nk)):
        rows = sorted((i for i in range(len(ok)) if ok[i] == k), key=lambda i: (ovf[i], i))
        js = [j for j in range(len(nk)) if nk[j] == k]
        if len(rows) >= 2:
            st.add('multi-version-key')
            if rows != sorted(rows): st.add('vf-order-differs-from-physical')
            if len(set(ovf[i] for i in rows)) < len(rows): st.add('vf-tie')
            if rows != list(range(rows[0], rows[0] + len(rows))): st.add('versions-not-contiguous')
        if rows and not js: st.add('key-only-old')
        if js and not rows: st.add('key-only-new')
        if rows and js:
            last, j = rows[-1], js[0]
            d = [f['o'][last] != f['n'][j] for f in case['fields']]
            kinds = [f['k'] for f in case['fields']]
            if not any(d): st.add('key-both-unchanged')
            else:
                st.add('key-both-changed')
                if sum(d) == 1 and len(d) >= 2:
                    st.add('diff-only-in-' + ('numeric' if kinds[d.index(True)] == 'n' else 'string'))
            if len(rows) >= 2 and any(f['o'][rows[0]] == f['n'][j] and f['o'][last] != f['n'][j] for f in case['fields']):
                st.add('new-equals-older-version-only')
    return st


def features(case, model):
    f = ['op:' + case['op']]
    if isinstance(model, str):
        f.append('err:' + model.split(':')[0])
    if case['op'] == 'indices':
        o, n = case['old'], case['new']
        if o != sorted(o) or n != sorted(n) or len(set(n)) != len(n): f.append('malformed')
        if not o: f.append('empty-old')
        if not n: f.append('empty-new')
        return f
    if not in_domain(case):
        f.append('malformed')
        return f
    f.extend(sorted(_stats(case)))
    ok, nk = case['okeys'], case['nkeys']
    if not ok: f.append('empty-old')
    if not nk: f.append('empty-new')
    if ok != sorted(ok): f.append('old-physically-unsorted')
    if nk != sorted(nk): f.append('new-physically-unsorted')
    kinds = [x['k'] for x in case['fields']]
    f.append('cols:' + ''.join(kinds))
    if any(x['k'] == 's' and any(len(c) == 0 for c in x['o'] + x['n']) for x in case['fields']): f.append('empty-string-cell')
    if case['op'] == 'table': f.append('kd:' + case['kd'])
    f.append('rows-old:%d' % len(ok))
    return f


def nontrivial(case, model):
    if isinstance(model, str) or case['op'] == 'indices' or not in_domain(case):
        return False
    st = _stats(case)
    return bool(st & {'key-both-unchanged', 'key-both-changed', 'multi-version-key'})


def known(case, impl, model, spec, mode):
    return None


def skip(case, mode):
    # HDF5-backed cases cost ~30 ms each (field creation): each one is run in ONE of the modes jit / nojit (chosen by a
    # hash of the case, so both modes see every shape class), cases tagged allmodes in every mode.  The numba kernels
    # themselves are run in every mode on every pipe / indices case.
    if case['op'] != 'table' or case.get('allmodes'):
        return False
    h = int(hashlib.sha256(json.dumps(case, sort_keys=True).encode()).hexdigest()[:8], 16)
    if mode == 'bounds':
        return h % 4 != 0
    return (h % 2 == 0) != (mode == 'jit')


# ---- generators
def _payload(okeys, ovf, nkeys, kinds, pattern):
    """Build payload columns. Old numeric cell of physical row i = 10+i (row identity); old string cell of row i =
    i%3 letters.  pattern: dict key -> one of 'same','num','str','both' for keys present in both tables."""
    nold = len(okeys)
    onum = [10 + i for i in range(nold)]
    ostr = [[97 + i] * (i % 3) for i in range(nold)]
    nnum, nstr = [], []
    for j, k in enumerate(nkeys):
        rows = sorted((i for i in range(nold) if okeys[i] == k), key=lambda i: (ovf[i], i))
        if rows:
            last = rows[-1]
            p = pattern.get(k, 'same')
            v, s = onum[last], list(ostr[last])
            if p in ('num', 'both'):
                # differ from the latest version; when possible equal to an OLDER version (tempting a wrong comparison)
                v = onum[rows[0]] if len(rows) >= 2 else 50 + j
            if p in ('str', 'both'):
                s = s[:-1] if (s and j % 2 == 0) else s + [122]
            nnum.append(v); nstr.append(s)
        else:
            nnum.append(70 + j); nstr.append([110 + j] * (j % 2))
    fields = []
    for kd in kinds:
        if kd == 'n':
            fields.append({'k': 'n', 'o': onum, 'n': nnum})
        else:
            fields.append({'k': 's', 'o': ostr, 'n': nstr})
    return fields


def _patterns(matched, kinds, rng, exhaustive):
    opts = ['same']
    if 'n' in kinds: opts.append('num')
    if 's' in kinds: opts.append('str')
    if 'n' in kinds and 's' in kinds: opts.append('both')
    if not matched:
        return [{}]
    if exhaustive:
        return [dict(zip(matched, c)) for c in itertools.product(opts, repeat=len(matched))]
    ps = [dict((k, 'same') for k in matched), dict((k, opts[-1]) for k in matched),
          dict((k, rng.choice(opts)) for k in matched)]
    out = []
    for p in ps:
        if p not in out:
            out.append(p)
    return out


def _nondecr(n, k):
    return itertools.combinations_with_replacement(range(k), n)


def gen(tier, rng):
    big = tier == 'thorough'
    # ---- indices: arbitrary arrays (model = code also outside the precondition)
    for no in range(0, 5):
        for old in itertools.product(range(3), repeat=no):
            for nn in range(0, 4):
                for new in itertools.product(range(4), repeat=nn):
                    yield {'op': 'indices', 'old': list(old), 'new': list(new)}
    # ---- pipe: kernels on sorted arrays, exhaustive difference patterns
    for no in range(0, 7 if big else 6):
        for okeys in _nondecr(no, 3):
            okeys = list(okeys)
            for r in range(0, 5):
                for nkeys in itertools.combinations(range(4), r):
                    nkeys = list(nkeys)
                    matched = [k for k in nkeys if k in okeys]
                    for kinds in (['n', 's'],):
                        for p in _patterns(matched, kinds, rng, True):
                            yield {'op': 'pipe', 'okeys': okeys, 'nkeys': nkeys,
                                   'fields': _payload(okeys, [0] * no, nkeys, kinds, p)}
                    # single-column variants with one pattern
                    for kinds in (['n'], ['s'], ['s', 'n'], ['n', 'n', 's']):
                        p = dict((k, rng.choice(['same', 'num' if 'n' in kinds else 'str', 'str' if 's' in kinds else 'num']))
                                 for k in matched)
                        yield {'op': 'pipe', 'okeys': okeys, 'nkeys': nkeys,
                               'fields': _payload(okeys, [0] * no, nkeys, kinds, p)}
    # pipe, malformed: duplicate snapshot keys / unsorted old (model = code only)
    for _ in range(400 if big else 150):
        no, nn = rng.randint(1, 5), rng.randint(1, 4)
        okeys = [rng.randint(0, 2) for _ in range(no)]
        nkeys = sorted(rng.randint(0, 3) for _ in range(nn))
        yield {'op': 'pipe', 'okeys': okeys, 'nkeys': nkeys,
               'fields': _payload(okeys, [0] * no, nkeys, ['n', 's'], dict((k, rng.choice(['same', 'num', 'str'])) for k in nkeys))}
    # ---- table: the real journal_table on HDF5 groups
    kds = ['int32', 'int64', 'S1']
    c = 0
    nmax = 4 if big else 3
    news = []
    for r in range(0, 4):
        for sub in itertools.combinations([0, 1, 3], r):
            for perm in itertools.permutations(sub):
                news.append(list(perm))
    for no in range(0, nmax + 1):
        for okeys in itertools.product(range(3), repeat=no):
            for ovf in itertools.product((1, 2), repeat=no):
                okeys_, ovf_ = list(okeys), list(ovf)
                c += 1      # key dtype and column layout rotate per OLD table (so that the old table is shared)
                kinds = [['n', 's'], ['s', 'n'], ['n'], ['s']][c % 4] if c % 3 else ['n', 's']
                for nkeys in news:
                    matched = [k for k in nkeys if k in okeys_]
                    for p in _patterns(matched, kinds, rng, False):
                        yield {'op': 'table', 'kd': kds[c % 3], 'okeys': okeys_, 'ovf': ovf_, 'nkeys': nkeys,
                               'fields': _payload(okeys_, ovf_, nkeys, kinds, p)}
    # table: seeded larger tables
    for t in range(6000 if big else 800):
        no = rng.randint(nmax + 1, 7 if big else 6)
        nk = rng.randint(2, 4)
        okeys = [rng.randint(0, nk - 1) * 2 for _ in range(no)]
        ovf = [rng.randint(1, 3) for _ in range(no)]
        pool = list(range(0, 2 * nk + 1))
        nkeys = rng.sample(pool, rng.randint(0, len(pool)))
        matched = [k for k in nkeys if k in okeys]
        kinds = rng.choice([['n', 's'], ['n', 's'], ['s', 'n'], ['n'], ['s'], ['n', 's', 'n']])
        opts = ['same', 'same'] + (['num'] if 'n' in kinds else []) + (['str'] if 's' in kinds else []) + \
               (['both'] if len(set(kinds)) == 2 else [])
        p = dict((k, rng.choice(opts)) for k in matched)
        case = {'op': 'table', 'kd': kds[t % 3], 'okeys': okeys, 'ovf': ovf, 'nkeys': nkeys,
                'fields': _payload(okeys, ovf, nkeys, kinds, p)}
        if t % 10 == 0:
            case['allmodes'] = True
        yield case
    # table, malformed: duplicate snapshot keys (model = code only)
    for t in range(200 if big else 60):
        no = rng.randint(1, 4)
        okeys = [rng.randint(0, 2) for _ in range(no)]
        ovf = [rng.randint(1, 2) for _ in range(no)]
        nkeys = [rng.randint(0, 2) for _ in range(rng.randint(2, 4))]
        yield {'op': 'table', 'kd': kds[t % 3], 'okeys': okeys, 'ovf': ovf, 'nkeys': nkeys,
               'fields': _payload(okeys, ovf, nkeys, ['n', 's'], dict((k, rng.choice(['same', 'num', 'str'])) for k in nkeys))}


def shrink(case):
    if case['op'] == 'indices':
        for key in ('old', 'new'):
            for i in range(len(case[key])):
                c = dict(case); c[key] = case[key][:i] + case[key][i + 1:]; yield c
        return
    no, nn = len(case['okeys']), len(case['nkeys'])
    for i in range(no):
        c = dict(case)
        c['okeys'] = case['okeys'][:i] + case['okeys'][i + 1:]
        if 'ovf' in case: c['ovf'] = case['ovf'][:i] + case['ovf'][i + 1:]
        c['fields'] = [dict(f, o=f['o'][:i] + f['o'][i + 1:]) for f in case['fields']]
        yield c
    for j in range(nn):
        c = dict(case)
        c['nkeys'] = case['nkeys'][:j] + case['nkeys'][j + 1:]
        c['fields'] = [dict(f, n=f['n'][:j] + f['n'][j + 1:]) for f in case['fields']]
        yield c
    if len(case['fields']) > 1:
        for i in range(len(case['fields'])):
            c = dict(case); c['fields'] = case['fields'][:i] + case['fields'][i + 1:]; yield c
