"""C19 — Session-level merge / join helpers (exetera/core/session.py + the non-streamed ordered-map kernels and the
deprecated *_old streaming helpers of exetera/core/operations.py) vs coq/Model/SessionMerge.v."""
import itertools, functools

PROP, NUM = 'C19', 19
PROPS_FILES = ['Props/C19.v']
MODES = ['jit', 'nojit']
MODES_THOROUGH = ['jit', 'nojit', 'bounds']
LEVEL = 'proof'
HANG_TIMEOUT_S = 3.0
TIMEOUT_S = 30.0

INV64 = 1 << 62

_np = _ops = _fld = _ses = _S = None


def setup():
    global _np, _ops, _fld, _ses, _S
    import numpy as np
    from exetera.core import operations as ops, fields as fld, session as ses
    _np, _ops, _fld, _ses = np, ops, fld, ses
    _S = ses.Session()


# ----------------------------------------------------------------------------- helpers (impl side)
def _arr(xs, dt='int64'):
    return _np.asarray(xs, dtype=dt)


_H5 = {'df': None, 'n': 0, 'pid': None}


def _h5_frame():
    """one HDF5 file (in a BytesIO) per worker process, renewed every 400 fields"""
    import os, io
    if _H5['df'] is None or _H5['pid'] != os.getpid() or _H5['n'] > 400:
        _H5['gen'] = _H5.get('gen', 0) + 1
        ds = _S.open_dataset(io.BytesIO(), 'w', 'ds%d_%d' % (os.getpid(), _H5['gen']))
        _H5.update(df=ds.create_dataframe('h'), n=0, pid=os.getpid())
    return _H5['df']


def _nfield(xs, dt='int32', h5=False):
    if h5:
        df = _h5_frame()
        _H5['n'] += 1
        f = df.create_numeric('f%d' % _H5['n'], dt)
    else:
        f = _fld.NumericMemField(_S, dt)
    if xs is not None:
        f.data.write(_arr(xs, dt))
    return f


def _ifield(strs):
    f = _fld.IndexedStringMemField(_S)
    if strs is not None:
        f.data.write([bytes(s).decode('ascii') for s in strs])
    return f


def _ilist(f):
    """indexed-string field -> list of byte lists"""
    idx = [int(x) for x in f.indices[:]]
    vals = [int(x) for x in f.values[:]]
    if not idx:
        return []
    return [vals[idx[k]:idx[k + 1]] for k in range(len(idx) - 1)]


def _col(x):
    """canonical form of one returned payload: ndarray / numeric field -> ints; indexed field -> list of byte lists"""
    if isinstance(x, _fld.Field):
        if x.indexed:
            return _ilist(x)
        return [int(v) for v in x.data[:]]
    return [int(v) for v in x]


def _cols(t):
    return None if t is None else [_col(x) for x in t]


_PATCH = ['generate_ordered_map_to_left_right_unique_streamed', 'generate_ordered_map_to_left_both_unique_streamed',
          'ordered_map_valid_stream', 'generate_ordered_map_to_left_right_unique_streamed_old',
          'ordered_map_valid_stream_old']


class _patched:
    """vary the chunk size the Session call sites hard-wire (default 1<<20) without editing the repository"""
    def __init__(self, cs):
        self.cs = cs

    def __enter__(self):
        self.orig = {n: getattr(_ops, n) for n in _PATCH}
        if self.cs is not None:
            for n in _PATCH:
                setattr(_ops, n, functools.partial(self.orig[n], chunksize=self.cs))

    def __exit__(self, *a):
        for n in _PATCH:
            setattr(_ops, n, self.orig[n])


def _payload(kind, col, form, h5=False):
    """kind 'n' numeric / 'i' indexed string;  form 'a' ndarray / 'f' field"""
    if kind == 'i':
        return _ifield(col)
    return _arr(col, 'int32') if form == 'a' else _nfield(col, 'int32', h5)


# ----------------------------------------------------------------------------- run: the real code
def run(case):
    np, ops, S = _np, _ops, _S
    op = case['op']
    try:
        return _run(case, op, np, ops, S)
    except StopIteration:
        return {'exc': 'Other'}
    except AttributeError:
        return {'exc': 'Other'}


def _run(case, op, np, ops, S):
    if op in ('klru', 'klbu'):
        f = ops.generate_ordered_map_to_left_right_unique if op == 'klru' else ops.generate_ordered_map_to_left_both_unique
        res = np.zeros(case['n'], dtype=np.int64)
        u = f(_arr(case['L']), _arr(case['R']), res, np.int64(case['inv']))
        return [[int(x) for x in res], 1 if u else 0]
    if op == 'kisz':
        return int(ops.ordered_inner_map_result_size(_arr(case['L']), _arr(case['R'])))
    if op in ('kim', 'kimlu', 'kimbu'):
        f = {'kim': ops.ordered_inner_map, 'kimlu': ops.ordered_inner_map_left_unique,
             'kimbu': ops.ordered_inner_map_both_unique}[op]
        a = np.zeros(case['n'], dtype=np.int64)
        b = np.zeros(case['n'], dtype=np.int64)
        f(_arr(case['L']), _arr(case['R']), a, b)
        return [[int(x) for x in a], [int(x) for x in b]]
    if op == 'ksold':
        L, R = _nfield(case['L'], 'int64'), _nfield(case['R'], 'int64')
        if case.get('dst', 'f') == 'f':
            m = _nfield(None, 'int64')
            u = ops.generate_ordered_map_to_left_right_unique_streamed_old(L, R, m, np.int64(case['inv']), chunksize=case['cs'])
            return [[int(x) for x in m.data[:]], 1 if u else 0]
        m = np.zeros(len(case['L']), dtype=np.int64)
        u = ops.generate_ordered_map_to_left_right_unique_streamed_old(L, R, m, np.int64(case['inv']), chunksize=case['cs'])
        return [[int(x) for x in m], 1 if u else 0]
    if op == 'kmvold':
        d, m = _nfield(case['data'], 'int32'), _nfield(case['map'], 'int64')
        if case.get('dst', 'f') == 'f':
            r = _nfield(None, 'int32')
            ops.ordered_map_valid_stream_old(d, m, r, np.int64(case['inv']), chunksize=case['cs'])
            return [int(x) for x in r.data[:]]
        r = np.zeros(len(case['map']), dtype=np.int32)
        ops.ordered_map_valid_stream_old(d, m, r, np.int64(case['inv']), chunksize=case['cs'])
        return [int(x) for x in r]
    if op == 'oml':
        return _run_oml(case, np, ops, S)
    if op == 'omi':
        return _run_omi(case, np, ops, S)
    if op in ('ml', 'mr', 'mi'):
        return _run_merge(case, np, ops, S)
    if op == 'gi':
        T = _arr(case['T'], 'int32') if case['form'] == 'a' else _nfield(case['T'], 'int32')
        F = _arr(case['F'], 'int32') if case['form'] == 'a' else _nfield(case['F'], 'int32')
        if case['dest'] == 'n':
            return [int(x) for x in S.get_index(T, F)]
        if case['dest'] == 'a':
            d = np.zeros(len(case['F']), dtype=np.int64)
            r = S.get_index(T, F, d)
            assert r is None
            return [int(x) for x in d]
        d = _nfield(None, 'int64')
        r = S.get_index(T, F, d)
        assert r is None
        return [int(x) for x in d.data[:]]
    if op == 'join':
        pk = np.zeros(case['n'], dtype=np.int32)
        fk = _arr(case['fk'], 'int64') if case['form'] == 'a' else _nfield(case['fk'], 'int64')
        vals = _arr(case['vals'], 'int32') if case['form'] == 'a' else _nfield(case['vals'], 'int32')
        if case['writer']:
            w = _nfield(None, 'int32')
            r = S.join(pk, fk, vals, writer=w)
            assert r is None
            return [int(x) for x in w.data[:]]
        return [int(x) for x in S.join(pk, fk, vals)]
    raise ValueError(op)


def _run_oml(case, np, ops, S):
    """ordered_merge_left(L, R, srcs, sinks, map, lu, ru)  (swap=1: the same call through ordered_merge_right)
       form: 'a'  ndarray keys+sources, no sinks        'as' ndarray keys+sources, ndarray sinks (pre-filled with `fill`)
             'f'  field keys+sources, no sinks          'fs' field keys+sources, field sinks
       mapk: 'n' no map argument / 'a' ndarray / 'f' field   (form 'fs' + mapk != 'n' is the streamable form)"""
    form, mapk = case['form'], case['mapk']
    fa = 'a' if form in ('a', 'as') else 'f'
    kd = case.get('kt', 'int32')
    h5 = bool(case.get('h5'))          # HDF5-backed fields instead of memory fields
    L = _arr(case['L'], kd) if fa == 'a' else _nfield(case['L'], kd, h5)
    R = _arr(case['R'], kd) if fa == 'a' else _nfield(case['R'], kd, h5)
    srcs = tuple(_payload('n', c, fa, h5) for c in case['srcs'])
    sinks = None
    if form == 'as':
        sinks = tuple(np.full(len(case['L']), case.get('fill', 0), dtype=np.int32) for _ in case['srcs'])
    elif form == 'fs':
        sinks = tuple(_nfield(None, 'int32', h5) for _ in case['srcs'])
    mp = None
    if mapk == 'a':
        mp = np.zeros(len(case['L']), dtype=np.int64)
    elif mapk == 'f':
        mp = _nfield(None, 'int64', h5)
    lu, ru = bool(case['lu']), bool(case['ru'])
    with _patched(case.get('cs')):
        if case.get('swap'):
            ret = S.ordered_merge_right(R, L, left_field_sources=srcs, right_field_sinks=sinks,
                                        right_to_left_map=mp, left_unique=ru, right_unique=lu)
        else:
            ret = S.ordered_merge_left(L, R, right_field_sources=srcs, left_field_sinks=sinks,
                                       left_to_right_map=mp, left_unique=lu, right_unique=ru)
    out_sinks = None if sinks is None else [_col(s) for s in sinks]
    out_map = None
    if mapk == 'f':
        out_map = [int(x) for x in mp.data[:]]
    return [_cols(ret), out_sinks, out_map]


def _run_omi(case, np, ops, S):
    form = case['form']
    fa = 'a' if form in ('a', 'as') else 'f'
    L = _arr(case['L'], 'int32') if fa == 'a' else _nfield(case['L'], 'int32')
    R = _arr(case['R'], 'int32') if fa == 'a' else _nfield(case['R'], 'int32')
    ls = tuple(_payload('n', c, fa) for c in case['lsrcs'])
    rs = tuple(_payload('n', c, fa) for c in case['rsrcs'])
    lsk = rsk = None
    if form == 'as':
        n = case['n']
        lsk = tuple(np.full(n, case.get('fill', 0), dtype=np.int32) for _ in ls)
        rsk = tuple(np.full(n, case.get('fill', 0), dtype=np.int32) for _ in rs)
    elif form == 'fs':
        lsk = tuple(_nfield(None, 'int32') for _ in ls)
        rsk = tuple(_nfield(None, 'int32') for _ in rs)
    ret = S.ordered_merge_inner(L, R, left_field_sources=ls, left_field_sinks=lsk,
                                right_field_sources=rs, right_field_sinks=rsk,
                                left_unique=bool(case['lu']), right_unique=bool(case['ru']))
    if ret is None:
        r = None
    elif len(ret) == 2 and isinstance(ret[0], tuple):
        r = [_cols(ret[0]), _cols(ret[1])]
    else:
        r = [_cols(ret)]
    return [r, None if lsk is None else [_col(s) for s in lsk], None if rsk is None else [_col(s) for s in rsk]]


def _run_merge(case, np, ops, S):
    """merge_left / merge_right / merge_inner; payload descriptors: list of [kind, col] with kind 'n'/'i';
       form 'a' ndarray keys and numeric payloads / 'f' fields;  wr: destination writers given"""
    op, form = case['op'], case['form']
    L = _arr(case['L'], 'int32') if form == 'a' else _nfield(case['L'], 'int32')
    R = _arr(case['R'], 'int32') if form == 'a' else _nfield(case['R'], 'int32')

    def pays(ps):
        return tuple(_payload(k, c, form) for (k, c) in ps)

    def writers(ps):
        if not case['wr']:
            return None
        return tuple(_ifield(None) if k == 'i' else _nfield(None, 'int32') for (k, c) in ps)

    if op == 'ml':
        p = pays(case['rp']); w = writers(case['rp'])
        ret = S.merge_left(L, R, right_fields=p, right_writers=w)
        return [_cols(ret), None if w is None else [_col(x) for x in w]]
    if op == 'mr':
        p = pays(case['lp']); w = writers(case['lp'])
        ret = S.merge_right(L, R, left_fields=p, left_writers=w)
        return [_cols(ret), None if w is None else [_col(x) for x in w]]
    lp, rp = pays(case['lp']), pays(case['rp'])
    lw, rw = writers(case['lp']), writers(case['rp'])
    ret = S.merge_inner(L, R, left_fields=lp, left_writers=lw, right_fields=rp, right_writers=rw)
    return [[_cols(ret[0]), _cols(ret[1])], None if lw is None else [[_col(x) for x in lw], [_col(x) for x in rw]]]


# ----------------------------------------------------------------------------- wire
FORMS = {'a': 0, 'as': 1, 'f': 2, 'fs': 3}
MAPKS = {'n': 0, 'a': 1, 'f': 2}
IKINDS = {'kim': 0, 'kimlu': 1, 'kimbu': 2}
VER = int(__import__('os').environ.get('VERIF_C19_VER', '1'))   # 1 = model of the repaired Session.ordered_merge_left; 0 = as found


def _enc_payloads(ps):
    out = []
    for k, col in ps:
        if k == 'n':
            out.append([0, list(col)])
        else:
            idx, vals = [0], []
            for s in col:
                vals.extend(s); idx.append(len(vals))
            out.append([1, idx, vals])
    return out


def to_val(case):
    op = case['op']
    if op in ('klru', 'klbu'):
        return [1, 1 if op == 'klbu' else 0, case['L'], case['R'], case['n'], case['inv']]
    if op == 'kisz':
        return [2, case['L'], case['R']]
    if op in IKINDS:
        return [3, IKINDS[op], case['L'], case['R'], case['n']]
    if op == 'ksold':
        return [4, case['L'], case['R'], case['cs'], case['inv']]
    if op == 'kmvold':
        return [5, case['data'], case['map'], case['cs'], case['inv']]
    if op == 'oml':
        n = len(case['L'])
        sinks0 = [[case.get('fill', 0)] * n for _ in case['srcs']] if case['form'] == 'as' else []
        cs = case.get('cs')
        # production default 1 << 20: the model is run with a chunk size just beyond both inputs (one chunk per side,
        # as with any larger size; a unary million-element buffer per case would only cost time)
        return [6, case.get('ver', VER), (max(len(case['L']), len(case['R'])) + 2) if cs is None else cs, case['L'], case['R'], case['srcs'],
                FORMS[case['form']], sinks0, MAPKS[case['mapk']], case['lu'], case['ru']]
    if op == 'omi':
        n = case['n']
        f = case.get('fill', 0)
        ls0 = [[f] * n for _ in case['lsrcs']] if case['form'] == 'as' else []
        rs0 = [[f] * n for _ in case['rsrcs']] if case['form'] == 'as' else []
        return [7, case['L'], case['R'], case['lsrcs'], case['rsrcs'], FORMS[case['form']], ls0, rs0,
                case['lu'], case['ru']]
    if op in ('ml', 'mr', 'mi'):
        return [8, {'ml': 0, 'mr': 1, 'mi': 2}[op], case['L'], case['R'],
                _enc_payloads(case.get('lp', [])), _enc_payloads(case.get('rp', []))]
    if op == 'gi':
        return [9, case['T'], case['F']]
    if op == 'join':
        return [10, case['n'], case['fk'], case['vals']]
    raise ValueError(op)


def _opt(v):
    return None if v == [] else v[0]


def _dec_payload(p):
    """model/spec payload -> canonical column"""
    if p[0] == 0:
        return p[1]
    if p[0] == 2:
        return p[1]
    idx, vals = p[1], p[2]
    return [vals[idx[k]:idx[k + 1]] for k in range(len(idx) - 1)]


def _sorted(xs):
    return all(a <= b for a, b in zip(xs, xs[1:]))


def _strict(xs):
    return all(a < b for a, b in zip(xs, xs[1:]))


def in_domain(case):
    """the case satisfies the property's preconditions (sorted keys for the ordered forms, truthful flags,
    zero-initialised destination arrays, well-formed arguments); outside it only model == impl is checked"""
    op = case['op']
    if op in ('klru',):
        return _sorted(case['L']) and _strict(case['R']) and case['n'] == len(case['L']) and not (0 <= case['inv'] < len(case['R']))
    if op == 'klbu':
        return _strict(case['L']) and _strict(case['R']) and case['n'] == len(case['L']) and not (0 <= case['inv'] < len(case['R']))
    if op == 'kisz':
        return _sorted(case['L']) and _sorted(case['R'])
    if op in IKINDS:
        ok = _sorted(case['L']) and _sorted(case['R'])
        if op in ('kimlu', 'kimbu'):
            ok = ok and _strict(case['L'])
        if op == 'kimbu':
            ok = ok and _strict(case['R'])
        return ok and case['n'] == _n_inner(case['L'], case['R'])
    if op in ('ksold', 'kmvold'):
        return False          # deprecated helpers, not Session entry points after the fix: correspondence only
    if op == 'oml':
        if not case['srcs'] or not case['ru'] or not _sorted(case['L']) or not _strict(case['R']):
            return False
        if case['lu'] and not _strict(case['L']):
            return False
        if case['form'] == 'as' and case.get('fill', 0) != 0:
            return False
        return True
    if op == 'omi':
        if not case['lsrcs'] or not case['rsrcs'] or not _sorted(case['L']) or not _sorted(case['R']):
            return False
        if (case['lu'] and not _strict(case['L'])) or (case['ru'] and not _strict(case['R'])):
            return False
        if case['form'] == 'as' and (case.get('fill', 0) != 0 or case['n'] != _n_inner(case['L'], case['R'])):
            return False
        return True
    if op in ('ml', 'mr', 'mi'):
        return True
    if op == 'gi':
        return True
    if op == 'join':
        runs = _nruns(case['fk'])
        return len(case['vals']) == runs and all(0 <= k < case['n'] or k >= INV64 for k in case['fk'])
    return False


def _nruns(xs):
    return sum(1 for k in range(len(xs)) if k == 0 or xs[k] != xs[k - 1])


def _n_inner(L, R):
    return sum(1 for a in L for b in R if a == b)


def from_val(case, v):
    from harness.core import decode_err
    model, spec = v
    e = decode_err(model)
    op = case['op']
    dom = in_domain(case)
    if op in ('klru', 'klbu', 'ksold'):
        m = e if e is not None else [model[0], model[1]]
        if op == 'ksold' and e is None and case.get('dst', 'f') == 'a':
            m[0] = m[0] + [0] * (len(case['L']) - len(m[0]))      # ndarray destination: zeros(len(left)) written in place
        s = m
        if dom and e is None:
            s = [spec, m[1]]            # the flag is compared with the model only
        return m, s
    if op == 'kisz':
        m = e if e is not None else model
        return m, (spec if dom else m)
    if op in IKINDS:
        m = e if e is not None else model
        return m, (spec if dom else m)
    if op == 'kmvold':
        m = e if e is not None else model
        return m, m
    if op == 'oml':
        if e is not None:
            # in the domain the specification is the join payload; the only admissible error there is the documented
            # long-run ValueError of the streamed form, which spec_ok() accepts
            return e, (_oml_shape(case, spec, None) if dom else e)
        m = [_opt(model[0]), _opt(model[1]), _opt(model[2])]
        return m, (_oml_shape(case, spec, m[2]) if dom else m)
    if op == 'omi':
        if e is not None:
            return e, (e if not dom else _omi_shape(case, spec))
        ret = model[0]
        m = [None if ret == [] else ret, _opt(model[1]), _opt(model[2])]
        return m, (_omi_shape(case, spec) if dom else m)
    if op in ('ml', 'mr'):
        if e is not None:
            return e, [None if case['wr'] else [_dec_payload(p) for p in spec], [_dec_payload(p) for p in spec] if case['wr'] else None]
        cols = [_dec_payload(p) for p in model]
        scols = [_dec_payload(p) for p in spec]
        return _merge_shape(case, cols), _merge_shape(case, scols)
    if op == 'mi':
        if e is not None:
            return e, e
        cols = [[_dec_payload(p) for p in model[0]], [_dec_payload(p) for p in model[1]]]
        scols = [[_dec_payload(p) for p in spec[0]], [_dec_payload(p) for p in spec[1]]]
        if case['wr']:
            return [[[], []], cols], [[[], []], scols]
        return [cols, None], [scols, None]
    if op == 'gi':
        return model, spec
    if op == 'join':
        m = e if e is not None else model
        return m, (spec if dom else m)
    raise ValueError(op)


def _merge_shape(case, cols):
    return [[], cols] if case['wr'] else [cols, None]


def _oml_shape(case, cols, mp):
    f = case['form']
    return [cols if f in ('a', 'f') else None, cols if f in ('as', 'fs') else None, mp]


def _omi_shape(case, spec):
    f = case['form']
    if f in ('a', 'f'):
        return [[spec[0], spec[1]], None, None]
    return [None, spec[0], spec[1]]


# ----------------------------------------------------------------------------- comparison
def _runs(xs):
    out, k = [], 0
    while k < len(xs):
        m = k
        while m + 1 < len(xs) and xs[m + 1] == xs[k]:
            m += 1
        out.append((k, m + 1))
        k = m + 1
    return out


def long_run(case):
    """streamed form, right-unique variant: the left side is fetched in trimmed chunks; a run of equal left keys
    that cannot fit a chunk is the documented clear ValueError of get_next_chunk (C03 / C12)"""
    if case['op'] != 'oml' or case.get('cs') is None or case['lu']:
        return False
    if not (case['form'] == 'fs' and case['mapk'] == 'f'):
        return False
    cs = case['cs']
    return any(b - a > cs or (b - a == cs and b != len(case['L'])) for a, b in _runs(case['L']))


def _rows(cols):
    """zip payload columns into rows (for order-insensitive comparison of merge_inner)"""
    flat = [c for side in cols for c in side]
    if not flat:
        return []
    return sorted(zip(*[[repr(x) for x in c] for c in flat]))


def _eq(case, impl, exp, mode, is_spec):
    from harness.core import results_equal
    op = case['op']
    if isinstance(exp, str) or isinstance(impl, str):
        return results_equal(impl, exp, mode)
    if op == 'mi':
        # pandas' inner merge may list the matching pairs in any order; all payload columns of one call
        # must be permuted consistently, so rows (across left and right payloads) are compared as multisets
        ic = impl[1] if case['wr'] else impl[0]
        ec = exp[1] if case['wr'] else exp[0]
        if (impl[0] if case['wr'] else impl[1]) != (exp[0] if case['wr'] else exp[1]):
            return False
        return [len(x) for x in ic] == [len(x) for x in ec] and _rows(ic) == _rows(ec)
    if op == 'gi' and is_spec:
        return len(impl) == len(exp) and all((a >= INV64) if b == -1 else a == b for a, b in zip(impl, exp))
    return impl == exp


def equal(case, impl, expected, mode):
    return _eq(case, impl, expected, mode, False)


def spec_ok(case, impl, spec, mode):
    if impl == 'EXC:ValueError' and long_run(case):
        return True
    return _eq(case, impl, spec, mode, True)


# ----------------------------------------------------------------------------- features
def features(case, model):
    f = []
    op = case['op']
    f.append('op:' + op)
    if isinstance(model, str):
        f.append('err:' + model)
    if not in_domain(case):
        f.append('outside-precondition(model==impl only)')
    if op in ('klru', 'klbu', 'kisz', 'kim', 'kimlu', 'kimbu', 'ksold', 'oml', 'omi', 'ml', 'mr', 'mi'):
        L, R = case['L'], case['R']
        if set(L) & set(R): f.append('matched')
        if set(L) - set(R): f.append('unmatched-left')
        if set(R) - set(L): f.append('unmatched-right')
        if len(set(L)) < len(L): f.append('dup-left')
        if len(set(R)) < len(R): f.append('dup-right')
        if len(set(L)) < len(L) and len(set(R)) < len(R) and \
                {x for x in L if L.count(x) > 1} & {x for x in R if R.count(x) > 1}:
            f.append('cartesian-block')
        if not L or not R: f.append('empty-side')
        if L and R and op not in ('ml', 'mr', 'mi') and _sorted(L) and _sorted(R) and L[-1] > R[-1]:
            f.append('tail-unmatched-left')
        if op in ('ml', 'mr', 'mi') and (not _sorted(L) or not _sorted(R)): f.append('unsorted-keys')
    if op in ('ksold', 'oml') and case.get('cs') is not None:
        cs, L, R = case['cs'], case['L'], case['R']
        if len(L) > cs or len(R) > cs: f.append('multi-chunk')
        if any(b - a > 1 and (a // cs) != ((b - 1) // cs) for a, b in _runs(L)): f.append('left-run-straddles-chunk-end')
        if any(b - a >= 1 and b % cs == 0 and b != len(L) for a, b in _runs(L)): f.append('left-run-ends-at-chunk-end')
        if op == 'oml' and long_run(case): f.append('long-run(clear ValueError allowed)')
    if op == 'oml':
        f.append('form:' + case['form'] + '/map:' + case['mapk'] + ('/streamed' if case['form'] == 'fs' and case['mapk'] == 'f' else ''))
        f.append('flags:lu=%d,ru=%d' % (case['lu'], case['ru']))
        if case.get('swap'): f.append('via-ordered_merge_right')
        if len(case['srcs']) > 1: f.append('several-payloads')
        if case.get('fill', 0): f.append('prefilled-sink')
        if case.get('cs') is None and case['form'] == 'fs' and case['mapk'] == 'f': f.append('default-chunksize')
        if case.get('h5'): f.append('hdf5-backed-fields')
        f.append('keys:' + case.get('kt', 'int32'))
    if op == 'omi':
        f.append('form:' + case['form'])
        f.append('flags:lu=%d,ru=%d' % (case['lu'], case['ru']))
    if op in ('ml', 'mr', 'mi'):
        f.append('form:' + case['form'] + ('/writers' if case['wr'] else ''))
        ps = case.get('lp', []) + case.get('rp', [])
        if any(k == 'i' for k, c in ps): f.append('indexed-string-payload')
        if any(k == 'i' and any(len(s) == 0 for s in c) for k, c in ps): f.append('empty-string-in-payload')
    if op == 'gi':
        T, F = case['T'], case['F']
        f.append('dest:' + case['dest'] + '/form:' + case['form'])
        if len(set(T)) < len(T): f.append('dup-target(last wins)')
        miss = [k for k in F if k not in T]
        if miss: f.append('missing-key')
        if len(set(miss)) > 1: f.append('several-distinct-missing-keys')
        if len(miss) > len(set(miss)): f.append('repeated-missing-key')
    if op == 'join':
        if any(k >= INV64 for k in case['fk']): f.append('invalid-fkey')
        if _nruns(case['fk']) < len(case['fk']): f.append('span>1')
        if len(set(case['fk'])) < _nruns(case['fk']): f.append('non-adjacent-repeat(last wins)')
        if case['writer']: f.append('writer')
    if op == 'kmvold':
        cs = case['cs']
        if len(case['map']) > cs: f.append('multi-chunk-map')
        if len(case['data']) > cs: f.append('multi-chunk-data')
        if case['inv'] in case['map']: f.append('invalid-entries')
    return f


def nontrivial(case, model):
    fs = features(case, model)
    return any(x in fs for x in ('matched', 'unmatched-left', 'missing-key', 'invalid-fkey', 'span>1', 'invalid-entries',
                                 'multi-chunk-map', 'dup-target(last wins)')) or case['op'] in ('gi', 'join')


def known(case, impl, model, spec, mode):
    return None


# ----------------------------------------------------------------------------- generators
def _nondecr(n, k):
    for m in range(n + 1):
        for c in itertools.combinations_with_replacement(range(k), m):
            yield list(c)


def _anyseq(n, k):
    for m in range(n + 1):
        for c in itertools.product(range(k), repeat=m):
            yield list(c)


def _src(n, k):
    return [100 * (k + 1) + j + 1 for j in range(n)]


def _istr(n, k):
    return [[97 + ((j + k) % 26)] * ((j + k) % 3) for j in range(n)]


def gen(tier, rng):
    big = tier == 'thorough'
    # ---- kernels, exhaustive over order-types
    n, k = (6, 4) if big else (4, 4)
    seqs = list(_nondecr(n, k))
    cnt = 0
    for L in seqs:
        for R in seqs:
            inv = (-1, INV64, 2)[cnt % 3] if cnt % 7 == 0 else INV64
            cnt += 1
            if _strict(R):
                yield {'op': 'klru', 'L': L, 'R': R, 'n': len(L), 'inv': inv}
                if _strict(L):
                    yield {'op': 'klbu', 'L': L, 'R': R, 'n': len(L), 'inv': inv}
            yield {'op': 'kisz', 'L': L, 'R': R}
            ni = _n_inner(L, R)
            yield {'op': 'kim', 'L': L, 'R': R, 'n': ni}
            if _strict(L):
                yield {'op': 'kimlu', 'L': L, 'R': R, 'n': ni}
                if _strict(R):
                    yield {'op': 'kimbu', 'L': L, 'R': R, 'n': ni}
    # kernels outside their precondition: wrong result length, untruthful uniqueness, unsorted keys, short buffers
    small = list(_anyseq(3, 3))
    for L in small:
        for R in small:
            for dn in (-1, 1):
                if len(L) + dn >= 0:
                    yield {'op': 'klru', 'L': L, 'R': R, 'n': len(L) + dn, 'inv': INV64}
            if not (_sorted(L) and _strict(R)):
                yield {'op': 'klru', 'L': L, 'R': R, 'n': len(L), 'inv': -1}
                yield {'op': 'klbu', 'L': L, 'R': R, 'n': len(L), 'inv': -1}
            if not (_sorted(L) and _sorted(R)):
                yield {'op': 'kisz', 'L': L, 'R': R}
            ni = _n_inner(L, R)
            for op in ('kim', 'kimlu', 'kimbu'):
                if not in_domain({'op': op, 'L': L, 'R': R, 'n': ni}):
                    yield {'op': op, 'L': L, 'R': R, 'n': ni + 2}     # roomy buffers: no out-of-bounds
            if ni > 0 and _sorted(L) and _sorted(R):
                yield {'op': 'kim', 'L': L, 'R': R, 'n': ni - 1}          # buffer one short: IndexError in checked modes
    # ---- the deprecated streaming helpers (correspondence of the as-found code; F-C19a/b live here)
    n2, k2 = (5, 3) if big else (4, 3)
    seqs2 = list(_nondecr(n2, k2))
    for L in seqs2:
        for R in seqs2:
            if not _strict(R):
                continue
            for cs in range(1, n2 + 2):
                yield {'op': 'ksold', 'L': L, 'R': R, 'cs': cs, 'inv': INV64, 'dst': 'f' if (len(L) + cs) % 2 else 'a'}
    for nd in range(0, 4):
        data = [10 * (j + 1) for j in range(nd)]
        for nm in range(0, 5 if big else 4):
            for mp in itertools.product(list(range(nd)) + [None], repeat=nm):
                vs = [x for x in mp if x is not None]
                if any(a > b for a, b in zip(vs, vs[1:])):
                    continue
                for cs in range(1, 5):
                    yield {'op': 'kmvold', 'data': data, 'map': [INV64 if x is None else x for x in mp], 'cs': cs,
                           'inv': INV64, 'dst': 'f' if (nm + cs) % 2 else 'a'}
    # ---- Session.ordered_merge_left / ordered_merge_right
    n3, k3 = (6, 4) if big else (4, 4)
    seqs3 = list(_nondecr(n3, k3))
    nonstream = [('a', 'n'), ('a', 'a'), ('as', 'n'), ('f', 'n'), ('fs', 'n'), ('f', 'f'), ('fs', 'a')]
    cnt = 0
    for L in seqs3:
        for R in seqs3:
            if not _strict(R):
                continue
            for lu in ((0, 1) if _strict(L) else (0,)):
                cnt += 1
                nsrc = 2 if cnt % 5 == 0 else 1
                srcs = [_src(len(R), c) for c in range(nsrc)]
                base = {'op': 'oml', 'L': L, 'R': R, 'lu': lu, 'ru': 1, 'srcs': srcs}
                # streamed form: every chunk size that splits the inputs differently, and the production default
                for cs in list(range(1, n3 + 2)) + [None]:
                    yield dict(base, form='fs', mapk='f', cs=cs, swap=(cnt + (cs or 0)) % 2, kt=('int32', 'int64')[cnt % 2])
                if cnt % (3 if big else 7) == 0:
                    # the same call on HDF5-backed fields (milliseconds per case: a sample of the pairs)
                    yield dict(base, form='fs', mapk='f', cs=(cnt % (n3 + 1)) + 1, swap=cnt % 2, h5=1)
                    yield dict(base, form='fs', mapk='f', cs=None, swap=cnt % 2, h5=1)
                    yield dict(base, form='fs', mapk='n', cs=None, swap=cnt % 2, h5=1)
                    yield dict(base, form='f', mapk='n', cs=None, swap=cnt % 2, h5=1)
                # the other argument forms (3 of 7 per pair, rotating; all 7 over any 3 consecutive pairs)
                for r in range(3):
                    form, mapk = nonstream[(3 * cnt + r) % 7]
                    yield dict(base, form=form, mapk=mapk, cs=None, swap=(cnt + r) % 2)
    # flags the call rejects, untruthful hints, unsorted keys, pre-filled destination arrays, no payload
    for L in small:
        for R in small:
            srcs = [_src(len(R), 0)]
            for form, mapk, cs in (('a', 'n', None), ('fs', 'f', 2)):
                for lu in (0, 1):
                    yield {'op': 'oml', 'L': L, 'R': R, 'lu': lu, 'ru': 0, 'srcs': srcs, 'form': form, 'mapk': mapk, 'cs': cs}
            if not _sorted(L) or not _strict(R) or not _strict(L):
                for lu in (0, 1):
                    if _sorted(L) and _strict(R) and not lu:
                        continue
                    yield {'op': 'oml', 'L': L, 'R': R, 'lu': lu, 'ru': 1, 'srcs': srcs, 'form': 'a', 'mapk': 'n', 'cs': None}
            if _sorted(L) and _strict(R):
                yield {'op': 'oml', 'L': L, 'R': R, 'lu': 0, 'ru': 1, 'srcs': srcs, 'form': 'as', 'mapk': 'n', 'cs': None, 'fill': 7}
    yield {'op': 'oml', 'L': [1, 2], 'R': [2], 'lu': 0, 'ru': 1, 'srcs': [], 'form': 'a', 'mapk': 'n', 'cs': None}
    # ---- Session.ordered_merge_inner
    forms4 = ['a', 'as', 'f', 'fs']
    cnt = 0
    seqs4 = list(_nondecr(6, 3)) if big else seqs2
    for L in seqs4:
        for R in seqs4:
            for lu in ((0, 1) if _strict(L) else (0,)):
                for ru in ((0, 1) if _strict(R) else (0,)):
                    cnt += 1
                    nl = 2 if cnt % 4 == 0 else 1
                    base = {'op': 'omi', 'L': L, 'R': R, 'lu': lu, 'ru': ru, 'n': _n_inner(L, R),
                            'lsrcs': [_src(len(L), c) for c in range(nl)], 'rsrcs': [_src(len(R), 5)]}
                    for r in range(2):
                        yield dict(base, form=forms4[(2 * cnt + r) % 4])
    for L in small:
        for R in small:
            if _sorted(L) and _sorted(R) and _strict(L) and _strict(R):
                continue
            for lu, ru in ((1, 1), (1, 0), (0, 1)):
                yield {'op': 'omi', 'L': L, 'R': R, 'lu': lu, 'ru': ru, 'n': _n_inner(L, R) + 3, 'form': 'as',
                       'lsrcs': [_src(len(L), 0)], 'rsrcs': [_src(len(R), 5)], 'fill': 0}
    # ---- merge_left / merge_right / merge_inner: keys in any order, duplicates on both sides
    anyk = list(_anyseq(4 if big else 3, 3))
    cnt = 0
    for L in anyk:
        for R in anyk:
            cnt += 1
            form = 'af'[cnt % 2]
            wr = (cnt // 2) % 2
            lp = [['n', _src(len(L), 0)]]
            rp = [['n', _src(len(R), 5)]]
            if form == 'f':
                lp.append(['i', _istr(len(L), 1)])
                rp.append(['i', _istr(len(R), 0)])
            yield {'op': 'ml', 'L': L, 'R': R, 'form': form, 'wr': wr, 'rp': rp}
            yield {'op': 'mr', 'L': L, 'R': R, 'form': form, 'wr': wr, 'lp': lp}
            yield {'op': 'mi', 'L': L, 'R': R, 'form': form, 'wr': wr, 'lp': lp, 'rp': rp}
    # ---- get_index
    cnt = 0
    for T in anyk:
        for F in anyk:
            cnt += 1
            yield {'op': 'gi', 'T': T, 'F': [x + (cnt % 2) for x in F], 'form': 'af'[cnt % 2], 'dest': 'naf'[cnt % 3]}
    # ---- join
    for n in range(0, 4):
        pool = list(range(n)) + [INV64, INV64 + 1]
        for m in range(0, 5 if big else 4):
            for fk in itertools.product(pool, repeat=m):
                fk = list(fk)
                nr = _nruns(fk)
                cnt += 1
                yield {'op': 'join', 'n': n, 'fk': fk, 'vals': [7 * (j + 1) for j in range(nr)], 'form': 'af'[cnt % 2],
                       'writer': (cnt // 2) % 2}
    for fk, vals, n in (([0, 1], [5], 3), ([0, 1], [5, 6, 7], 3), ([0, 3], [5, 6], 3), ([0, -1], [5, 6], 3), ([], [], 0), ([2], [4], 2)):
        yield {'op': 'join', 'n': n, 'fk': fk, 'vals': vals, 'form': 'a', 'writer': 0}
    # ---- structured random, longer: runs planted at chunk ends (streamed form), larger merges
    for _ in range(6000 if big else 1200):
        cs = rng.randint(2, 9)
        key, L, R = 0, [], []
        tl, tr = rng.randint(0, 4 * cs), rng.randint(0, 4 * cs)
        while len(L) < tl:
            key += rng.choice([1, 1, 2])
            L.extend([key] * rng.choice([1, 1, 1, 2, max(1, cs - 1), max(1, cs - 2), cs]))
        key = 0
        while len(R) < tr:
            key += rng.choice([1, 1, 2]); R.append(key)
        lu = 1 if _strict(L) and rng.random() < 0.5 else 0
        yield {'op': 'oml', 'L': L, 'R': R, 'lu': lu, 'ru': 1, 'srcs': [_src(len(R), 0)], 'form': 'fs', 'mapk': 'f',
               'cs': cs, 'swap': rng.randint(0, 1)}
    for _ in range(1500 if big else 300):
        L = [rng.randint(0, 6) for _ in range(rng.randint(0, 9))]
        R = [rng.randint(0, 6) for _ in range(rng.randint(0, 9))]
        op = rng.choice(['ml', 'mr', 'mi'])
        yield {'op': op, 'L': L, 'R': R, 'form': 'f', 'wr': rng.randint(0, 1),
               'lp': [['n', _src(len(L), 0)], ['i', _istr(len(L), 1)]], 'rp': [['i', _istr(len(R), 0)], ['n', _src(len(R), 5)]]}
    for _ in range(1500 if big else 300):
        L = sorted(rng.randint(0, 8) for _ in range(rng.randint(0, 12)))
        R = sorted(rng.randint(0, 8) for _ in range(rng.randint(0, 12)))
        yield {'op': 'omi', 'L': L, 'R': R, 'lu': 0, 'ru': 0, 'n': _n_inner(L, R), 'form': rng.choice(forms4),
               'lsrcs': [_src(len(L), 0)], 'rsrcs': [_src(len(R), 5)]}


def shrink(case):
    for side in ('L', 'R', 'T', 'F', 'fk', 'map'):
        if side in case:
            xs = case[side]
            for i in range(len(xs)):
                c = dict(case); c[side] = xs[:i] + xs[i + 1:]
                if case['op'] == 'oml' and side == 'R':
                    c['srcs'] = [s[:i] + s[i + 1:] for s in case['srcs']]
                if case['op'] in ('omi', 'ml', 'mr', 'mi', 'join', 'kmvold'):
                    continue          # payload lengths are tied to the keys: keep these cases as they are
                if case['op'] in ('klru', 'klbu') and side == 'L':
                    c['n'] = max(0, case['n'] - 1)
                yield c
    if case.get('cs') and case['cs'] > 1:
        c = dict(case); c['cs'] = case['cs'] - 1; yield c


def warmup():
    cases = [{'op': 'klru', 'L': [1, 2], 'R': [2], 'n': 2, 'inv': INV64}, {'op': 'klbu', 'L': [1, 2], 'R': [2], 'n': 2, 'inv': INV64},
             {'op': 'kisz', 'L': [1, 2], 'R': [2]}, {'op': 'kim', 'L': [1, 2], 'R': [2], 'n': 1},
             {'op': 'kimlu', 'L': [1, 2], 'R': [2], 'n': 1}, {'op': 'kimbu', 'L': [1, 2], 'R': [2], 'n': 1},
             {'op': 'ksold', 'L': [1, 2], 'R': [2], 'cs': 1, 'inv': INV64}, {'op': 'kmvold', 'data': [1, 2], 'map': [0, 1], 'cs': 1, 'inv': INV64},
             {'op': 'ksold', 'L': [1, 2], 'R': [2], 'cs': 1, 'inv': INV64, 'dst': 'a'},
             {'op': 'kmvold', 'data': [1, 2], 'map': [0, 1], 'cs': 1, 'inv': INV64, 'dst': 'a'}]
    for form, mapk, cs in (('a', 'n', None), ('as', 'n', None), ('f', 'n', None), ('fs', 'n', None), ('fs', 'f', 2)):
        for lu in (0, 1):
            cases.append({'op': 'oml', 'L': [1, 2], 'R': [2, 3], 'lu': lu, 'ru': 1, 'srcs': [[5, 6]], 'form': form, 'mapk': mapk, 'cs': cs})
    for form in ('a', 'as', 'f', 'fs'):
        for lu, ru in ((0, 0), (0, 1), (1, 0), (1, 1)):
            cases.append({'op': 'omi', 'L': [1, 2], 'R': [2, 3], 'lu': lu, 'ru': ru, 'n': 1, 'form': form, 'lsrcs': [[5, 6]], 'rsrcs': [[7, 8]]})
    for op in ('ml', 'mr', 'mi'):
        cases.append({'op': op, 'L': [1, 2], 'R': [2, 2], 'form': 'f', 'wr': 0, 'lp': [['n', [1, 2]], ['i', [[97], []]]],
                      'rp': [['n', [3, 4]], ['i', [[98], [99]]]]})
    cases.append({'op': 'gi', 'T': [1, 2], 'F': [2, 3], 'form': 'a', 'dest': 'n'})
    cases.append({'op': 'join', 'n': 2, 'fk': [0, 1], 'vals': [3, 4], 'form': 'a', 'writer': 0})
    for c in cases:
        try:
            run(c)
        except Exception:
            pass


RULE = ('exhaustive over order-types: every pair of non-decreasing key sequences up to length 4 (thorough: 6) over 4 '
        'symbols for the six numba kernels and for Session.ordered_merge_left/right in every argument form (ndarray / '
        'ndarray sinks / field / field sinks / with and without map argument; 3 of the 7 in-memory forms per pair, '
        'rotating) and, in the streamed form, every chunk size 1..5 (thorough 1..7) plus the production default; pairs up '
        'to length 4 (thorough 6) over 3 symbols for ordered_merge_inner x truthful flag combinations x 2 of 4 argument '
        'forms (rotating); every pair of key sequences in ANY order up to length 3 (thorough 4) over 3 symbols for '
        'merge_left / merge_right / merge_inner (numeric + indexed-string payloads incl. empty strings, ndarray/field, '
        'with/without writers) and for get_index; every foreign-key index vector up to length 3 (thorough 4) for join; '
        'the deprecated *_old streaming helpers at every chunk size (correspondence of the as-found code only); cases '
        'outside the preconditions (unsorted keys, untruthful flags, rejected flag combinations, wrong buffer lengths, '
        'pre-filled destination arrays, empty payload tuple) are compared with the model only; plus seeded random longer '
        'cases with runs of equal left keys planted at chunk ends. Memory-backed fields (no HDF5 file per case). '
        'merge_inner is compared up to one consistent permutation of the output rows (pandas does not promise more). '
        'Non-trivial = at least one matched or unmatched key / missing key / invalid index is present.')
EXHAUSTIVE = {'quick': True, 'thorough': True}
TRUSTED = ['numba code generation; numpy fancy indexing / boolean masks; MemoryField write / write_part (modelled as append)',
           'pandas.merge(how=left) = rows of the relational left join in order, pandas.merge(how=inner) = some permutation of '
           'the matching pairs — explicit premises of the merge_* theorems, exercised here on every generated key pair',
           'Python dict semantics in get_index (modelled as an association list, newest binding first)',
           'the chunk size of the streamed form is varied by wrapping the operations-module attributes; the production '
           'default 2^20 is run on the real code and compared with the model at a chunk size just beyond both inputs '
           '(equal by the chunking-independence theorems)']
ASSUMPTIONS = ['ordered_* forms: keys sorted ascending, uniqueness flags truthful, right key unique (the call rejects anything else)',
               'ndarray destination arrays are zero-initialised by the caller',
               'streamed form: no run of equal left keys as long as the chunk size (2^20 in production) — otherwise the documented ValueError',
               'fewer than 2^62 rows (INVALID_INDEX is not a row number); payload columns have the length of their key column']
TECHNIQUE = ('Coq proof (faithful model of the kernels, Session plumbing and — reused from C03/C04 — the streamed generators '
             '= relational join + payload mapping) + exhaustive small-scope differential correspondence against the repository')
LEVEL_TEXT = ('26 theorems in coq/Props/C19.v (all closed under the global context) about the Gallina model '
              'coq/Model/SessionMerge.v: the six non-streamed kernels equal the relational left/inner join for all sorted '
              'inputs; Session.ordered_merge_left/right return left_payload in every in-memory form and in the streamed form '
              'for every chunk size (both-unique: always; right-unique: or the documented long-run ValueError), all forms '
              'agree; ordered_merge_inner returns the inner-join payloads for all four flag combinations and forms; '
              'get_index, join; merge_left/right/inner relative to pandas.merge = relational join; the as-found streamed form '
              'is refuted (F-C19a/b/c). The model is tied to the repository by exhaustive small-scope differential runs of '
              'the real Session methods and kernels (~6.5e4 cases per quick run, 2 modes).')
LEVEL_NOTE = ('Trusted: Coq kernel, extraction, harness, numba/numpy/pandas. pandas.merge is a Section hypothesis. '
              'Session.ordered_merge_left is modelled as repaired by work/C19/fix-F-C19a.diff and fix-F-C19c.diff; the '
              'deprecated *_old helpers are modelled as found (defective, no longer called by Session).')
