"""C19 — Session-level merge / join helpers (exetera/core/session.py + the non-streamed ordered-map kernels and the
deprecated *_old streaming helpers of exetera/core/operations.py) vs coq/Model/SessionMerge.v."""
import itertools, functools

PROP, NUM = 'C19', 19
PROPS_FILES = ['Props/C19.v', 'Props/C19_typed.v', 'Props/C19_flags.v', 'Props/C19_world.v']
MODES = ['jit', 'nojit']
MODES_THOROUGH = ['jit', 'nojit', 'bounds']
LEVEL = 'proof'
HANG_TIMEOUT_S = 3.0
TIMEOUT_S = 30.0

INV64 = 1 << 62

_np = _ops = _fld = _ses = _S = None


def setup():
    global _np, _ops, _fld, _ses, _S
    import numpy as np
    from exetera.core import operations as ops, fields as fld, session as ses
    _np, _ops, _fld, _ses = np, ops, fld, ses
    _S = ses.Session()


# ----------------------------------------------------------------------------- helpers (impl side)
def _arr(xs, dt='int64'):
    return _np.asarray(xs, dtype=dt)


# ---- element types.  A payload value travels as an integer: the value itself (integer dtypes), 0/1 (bool), the IEEE
# bit pattern as an unsigned integer (float32 / float64); the same representation as in Model/SessionMergeTyped.v
DTC = {'bool': 1, 'int8': 8, 'int16': 16, 'int32': 32, 'int64': 64, 'uint8': 108, 'uint16': 116, 'uint32': 132,
       'uint64': 164, 'float32': 232, 'float64': 264}
for _n in (1, 2, 3, 8):
    DTC['S%d' % _n] = 300 + _n       # fixed-width strings: the n bytes, NUL-padded, as a big-endian number (b'' = 0)
DTN = {v: k for k, v in DTC.items()}
_FBITS = {'float32': 'uint32', 'float64': 'uint64'}


def _is_s(dt):
    return dt[0] == 'S'


def _tarr(xs, dt):
    """canonical integers -> ndarray of dtype dt"""
    if _is_s(dt):
        n = int(dt[1:])
        return _np.asarray([int(v).to_bytes(n, 'big') for v in xs], dtype=dt)
    if dt in _FBITS:
        return _np.asarray(xs, dtype=_FBITS[dt]).view(dt)
    if dt == 'bool':
        return _np.asarray(xs, dtype='int64').astype(bool)
    return _np.asarray(xs, dtype=dt)


def _full(n, fill, dt):
    """a destination array as the caller allocates it (np.full with a number would store its decimal text in an S array)"""
    return _np.zeros(n, dtype=dt) if _is_s(dt) else _np.full(n, fill, dtype=dt)


def _tcol(x):
    """ndarray / numeric field -> [dtype name, canonical integers]"""
    a = x.data[:] if isinstance(x, _fld.Field) else x
    a = _np.asarray(a)
    dt = str(a.dtype)
    if a.dtype.kind == 'S':
        n = a.dtype.itemsize
        return ['S%d' % n, [int.from_bytes(bytes(v).ljust(n, b'\0'), 'big') for v in a]]
    if dt in _FBITS:
        return [dt, [int(v) for v in a.view(_FBITS[dt])]]
    return [dt, [int(v) for v in a]]


def _dt_range(dt):
    if dt == 'bool':
        return 0, 1
    if dt.startswith('uint'):
        return 0, (1 << int(dt[4:])) - 1
    if dt.startswith('int'):
        n = int(dt[3:])
        return -(1 << (n - 1)), (1 << (n - 1)) - 1
    return None


def _preserved(sdt, kdt, col):
    """a column of dtype sdt is stored unchanged in an array of dtype kdt (Proofs/SessionMergeTypedP.v: preserved)"""
    if sdt == kdt:
        return True
    if sdt in _FBITS or kdt in _FBITS or _is_s(sdt) or _is_s(kdt):
        return False
    lo, hi = _dt_range(kdt)
    return all(lo <= v <= hi for v in col)


# ---- key columns: the model sees small key symbols; the real call gets their image under a strictly increasing map
# into the key dtype (the kernels only compare keys, so the join is the same — that is the claim being tested)
KMAPS = {
    'i32': ('int32', lambda k: k),
    'i64': ('int64', lambda k: k),
    'i8lo': ('int8', lambda k: k - 128),
    'i16hi': ('int16', lambda k: 32767 - 60 + k),
    'i32hi': ('int32', lambda k: (1 << 31) - 1 - 60 + k),
    'i64p53': ('int64', lambda k: (1 << 53) - 2 + k),          # neighbours that float64 cannot tell apart
    'i64hi': ('int64', lambda k: (1 << 63) - 1 - 60 + k),
    'i64lo': ('int64', lambda k: -(1 << 63) + k),
    'i64w32': ('int64', lambda k: (k << 32) + 5),               # equal modulo 2^32
    'u8': ('uint8', lambda k: 190 + k),
    'u32hi': ('uint32', lambda k: (1 << 32) - 1 - 60 + k),
    'u64p63': ('uint64', lambda k: (1 << 63) - 3 + k),          # straddles the sign bit of int64
    'u64hi': ('uint64', lambda k: (1 << 64) - 1 - 60 + k),
    'f64': ('float64', lambda k: k * 0.25 - 1.5),
    'f64big': ('float64', lambda k: float(1 << 53) + 2.0 * k),
    'f32': ('float32', lambda k: 0.5 * k - 2.25),
}
# fixed-width string keys: every string of 1..3 bytes over {space, '0', 'a', 0xff} in bytewise order (a shorter string
# sorts before its extensions; trailing spaces and bytes >= 0x80 are significant)
_SKEYS = sorted(bytes(t) for n in (1, 2, 3) for t in itertools.product((0x20, 0x30, 0x61, 0xff), repeat=n))
KMAPS['S3'] = ('S3', lambda k: _SKEYS[k])
KMAPS['S8'] = ('S8', lambda k: b'id-' + _SKEYS[k])
KMAP_MAXSYM = 60        # symbols above this only with the maps that have room
KMAPS_WIDE = ['i32', 'i64', 'i64p53', 'i64lo', 'i64w32', 'f64', 'f64big']


# ---- key columns of DIFFERENT integer dtypes on the two sides (case['kmx'] = [left dtype, right dtype]): one strictly
# increasing map from the key symbols to integers; a symbol may be representable on one side only.  The values are chosen
# so that a value outside the other side's range collides, after a cast to that dtype (wrap-around at 8/16/32/64 bits,
# sign reinterpretation), with a key that IS there: c + s * 2^w for c in (-1, 1, 2, 7), w a width of either side.
INT_DTYPES = ['int8', 'int16', 'int32', 'int64', 'uint8', 'uint16', 'uint32', 'uint64']
_MIX = {}


def mix_syms(A, B):
    """(values by symbol, symbols representable in A, symbols representable in B)"""
    if (A, B) not in _MIX and (A in _FBITS or B in _FBITS):
        # an integer column against a floating-point one: halves (exactly representable; a cast of the float side to the
        # integer dtype truncates 1.5 to 1 and 7.5 to 7, which are keys of the integer side).  Values far below 2^24.
        vals = [-1.5, -1.0, -0.5, 1.0, 1.5, 2.0, 2.5, 7.0, 7.5, 8.0]

        def ok(d):
            if d in _FBITS:
                return list(range(len(vals)))
            lo, hi = _dt_range(d)
            return [k for k, v in enumerate(vals) if v == int(v) and lo <= v <= hi]
        _MIX[(A, B)] = (vals, ok(A), ok(B))
    if (A, B) not in _MIX:
        (la, ha), (lb, hb) = _dt_range(A), _dt_range(B)
        ws = sorted({int(''.join(ch for ch in d if ch.isdigit())) for d in (A, B)})
        vals = sorted({c + s * (1 << w) for c in (-1, 1, 2, 7) for w in ws for s in (-1, 0, 1)
                       if la <= c + s * (1 << w) <= ha or lb <= c + s * (1 << w) <= hb})
        _MIX[(A, B)] = (vals, [k for k, v in enumerate(vals) if la <= v <= ha], [k for k, v in enumerate(vals) if lb <= v <= hb])
    return _MIX[(A, B)]


def _keys(case, xs, side='L'):
    """key symbols -> (ndarray, dtype name)"""
    if case.get('kmx'):
        A, B = case['kmx']
        vals = mix_syms(A, B)[0]
        kd = A if side == 'L' else B
        ks = [vals[k] for k in xs]
        if kd in _FBITS:
            return _np.asarray(ks, dtype=kd), kd
        if A in _FBITS or B in _FBITS:
            if not all(v == int(v) for v in ks):
                raise AssertionError('generator: key symbol not representable in ' + kd)
            ks = [int(v) for v in ks]
        lo, hi = _dt_range(kd)
        if not all(lo <= v <= hi for v in ks):
            raise AssertionError('generator: key symbol not representable in ' + kd)
        return _np.asarray(ks, dtype=kd), kd
    km = case.get('km')
    if km is None:
        kd = case.get('kt', 'int32')
        return _np.asarray(xs, dtype=kd), kd
    kd, f = KMAPS[km]
    return _np.asarray([f(k) for k in xs], dtype=kd), kd


def key_canon(km, xs):
    """canonical integers of the actual key values (for a payload that IS a key column)"""
    import struct
    kd, f = KMAPS[km]
    if _is_s(kd):
        return [int.from_bytes(f(k).ljust(int(kd[1:]), b'\0'), 'big') for k in xs], kd
    if kd == 'float64':
        return [struct.unpack('<Q', struct.pack('<d', f(k)))[0] for k in xs], kd
    if kd == 'float32':
        return [struct.unpack('<I', struct.pack('<f', f(k)))[0] for k in xs], kd
    return [int(f(k)) for k in xs], kd


# ---- objects shared between the arguments of one call (aliasing) or between the calls of a history: an argument
# that carries a name in case['reg'] is created on first mention and re-used afterwards
_REG = {}


def _reg(case, role, idx, make):
    names = (case.get('reg') or {}).get(role)
    nm = None
    if names is not None:
        nm = names if isinstance(names, str) else (names[idx] if idx < len(names) else None)
    if nm is not None and nm in _REG:
        return _REG[nm]
    o = make()
    if nm is not None:
        _REG[nm] = o
    return o


_H5 = {'df': None, 'n': 0, 'pid': None}


def _h5_frame():
    """one HDF5 file (in a BytesIO) per worker process, renewed every 400 fields"""
    import os, io
    if _H5['df'] is None or _H5['pid'] != os.getpid() or _H5['n'] > 400:
        _H5['gen'] = _H5.get('gen', 0) + 1
        ds = _S.open_dataset(io.BytesIO(), 'w', 'ds%d_%d' % (os.getpid(), _H5['gen']))
        _H5.update(df=ds.create_dataframe('h'), n=0, pid=os.getpid())
    return _H5['df']


def _nfield(xs, dt='int32', h5=False):
    if h5:
        df = _h5_frame()
        _H5['n'] += 1
        f = df.create_fixed_string('f%d' % _H5['n'], int(dt[1:])) if _is_s(dt) else df.create_numeric('f%d' % _H5['n'], dt)
    else:
        f = _fld.FixedStringMemField(_S, int(dt[1:])) if _is_s(dt) else _fld.NumericMemField(_S, dt)
    if xs is not None:
        f.data.write(xs if isinstance(xs, _np.ndarray) else _tarr(xs, dt))
    return f


# ---- named HDF5 columns of a history (case['at'] = {role: [frame, name, mode]}): frame 'd0/a' = dataframe 'a' of dataset
# 'd0' of this case; the column is created on first mention; a later mention of the same path with another content
# overwrites it in place (mode 0: f.data[:] = a at equal length and dtype, else clear + write; mode 1: clear + write) or
# replaces it by a new field of the same name (mode 2, and whenever the dtype changes).  Model/SessionWorld.v.
_W = {'ds': {}, 'df': {}, 'cols': {}, 'n': 0, 'gen': 0}


def _world_reset():
    """a new history: new dataframes (the two HDF5 files of a worker are kept for 100 histories: closing one costs 15 ms)"""
    _W['df'].clear(); _W['cols'].clear()
    _W['gen'] += 1
    if _W['gen'] % 100 == 0:
        for nm in list(_W['ds'].values()):
            try:
                _S.close_dataset(nm)
            except Exception:       # noqa
                pass
        _W['ds'].clear()


def _world_frame(frame):
    import os, io
    if frame not in _W['df']:
        dname, fname = frame.split('/')
        if dname not in _W['ds'] or _W['ds'][dname] not in _S.datasets:
            _W['n'] += 1
            nm = 'w%d_%d_%s' % (os.getpid(), _W['n'], dname)
            _S.open_dataset(io.BytesIO(), 'w', nm)
            _W['ds'][dname] = nm
        _W['df'][frame] = _S.get_dataset(_W['ds'][dname]).create_dataframe('%s_%d' % (fname, _W['gen']))
    return _W['df'][frame]


def _world_col(at, arr, dt):
    frame, name = at[0], at[1]
    mode = at[2] if len(at) > 2 else 0
    df = _world_frame(frame)
    # the names collide WITHIN a history as the case says; they are unique ACROSS the histories a worker runs on its one
    # Session, so that a history (and every shrunk form of it) behaves in a used worker as it does in a fresh process
    name = '%s_%d' % (name, _W['gen'])
    old = _W['cols'].get((frame, name))
    content = (dt, arr.tolist())
    if old is not None:
        if old == content:
            return df[name]
        f = df[name]
        if mode == 2 or old[0] != dt:
            del df[name]
        elif mode == 0 and len(old[1]) == len(arr):
            f.data[:] = arr
            _W['cols'][(frame, name)] = content
            return df[name]
        else:
            f.data.clear()
            f.data.write(arr)
            _W['cols'][(frame, name)] = content
            return df[name]
    f = df.create_fixed_string(name, int(dt[1:])) if _is_s(dt) else df.create_numeric(name, dt)
    f.data.write(arr)
    _W['cols'][(frame, name)] = content
    return f


def _kfield(case, role, arr, dt, h5=False):
    """a key column as a field: a named HDF5 column of the history's world, else an anonymous field"""
    at = (case.get('at') or {}).get(role)
    if at is not None:
        return _world_col(at, arr, dt)
    return _nfield(arr, dt, h5)


def _ifield(strs, h5=False):
    if h5:
        df = _h5_frame()
        _H5['n'] += 1
        f = df.create_indexed_string('s%d' % _H5['n'])
    else:
        f = _fld.IndexedStringMemField(_S)
    if strs is not None:
        f.data.write([bytes(s).decode('utf-8') for s in strs])
    return f


def _ilist(f):
    """indexed-string field -> list of byte lists"""
    idx = [int(x) for x in f.indices[:]]
    vals = [int(x) for x in f.values[:]]
    if not idx:
        return []
    return [vals[idx[k]:idx[k + 1]] for k in range(len(idx) - 1)]


def _col(x):
    """canonical form of one returned payload: ndarray / numeric field -> ints; indexed field -> list of byte lists"""
    if isinstance(x, _fld.Field):
        if x.indexed:
            return _ilist(x)
        return [int(v) for v in x.data[:]]
    return [int(v) for v in x]


def _cols(t):
    return None if t is None else [_col(x) for x in t]


_PATCH = ['generate_ordered_map_to_left_right_unique_streamed', 'generate_ordered_map_to_left_both_unique_streamed',
          'ordered_map_valid_stream', 'generate_ordered_map_to_left_right_unique_streamed_old',
          'ordered_map_valid_stream_old']


class _patched:
    """vary the chunk size the Session call sites hard-wire (default 1<<20) without editing the repository"""
    def __init__(self, cs, csf=None):
        self.cs = _scal(cs, csf)

    def __enter__(self):
        self.orig = {n: getattr(_ops, n) for n in _PATCH}
        self.dcs = _ops.DEFAULT_CHUNKSIZE
        if self.cs is not None:
            for n in _PATCH:
                setattr(_ops, n, functools.partial(self.orig[n], chunksize=self.cs))
            # code that reads the module constant at run time (rather than through a default argument) sees the same size
            _ops.DEFAULT_CHUNKSIZE = self.cs

    def __exit__(self, *a):
        for n in _PATCH:
            setattr(_ops, n, self.orig[n])
        _ops.DEFAULT_CHUNKSIZE = self.dcs


def _payload(kind, col, form, h5=False, dt='int32', at=None):
    """kind 'n' numeric / 'i' indexed string;  form 'a' ndarray / 'f' field;  at: a named HDF5 column of the history's world"""
    if kind == 'i':
        return _ifield(col, h5)
    if at is not None and form != 'a':
        return _world_col(at, _tarr(col, dt), dt)
    return _tarr(col, dt) if form == 'a' else _nfield(col, dt, h5)


def _pat(case, role, k=None):
    """where payload k of `role` lives (case['at'][role]: one place, or a list of places / None per payload)"""
    a = (case.get('at') or {}).get(role)
    if a is None or k is None:
        return a
    return a[k] if k < len(a) else None


def _arg(x, grp):
    """an HDF5-backed field passed as its h5py.Group (the third documented argument form)"""
    if grp and isinstance(x, _fld.Field) and hasattr(x, '_field') and not isinstance(x, _fld.MemoryField):
        return x._field
    return x


def _exc_name(e):
    from harness.worker import exc_name
    return exc_name(e)


# ---- the TYPE FORM of scalar arguments.  The model sees the truth value of a uniqueness hint / the integer value of a
# chunk size or invalid marker; the real call gets that value in one of the forms a script produces: a Python bool, a
# numpy bool (np.True_ / np.False_), the result of np.all(keys[1:] != keys[:-1]), a Python or numpy integer 0/1, a
# 0-d boolean array.  Every one of them is == True / == False (Model/FlagForm.v: py_eq_False), none but the first IS
# True / False.
FLAGF = ['b', 'nb', 'all', 'i', 'ni', 'u8', 'a0']


def _flagv(v, form, keys=None):
    np = _np
    v = bool(v)
    if form == 'b':
        return v
    if form == 'nb':
        return np.bool_(v)
    if form == 'all':
        # as a script computes the hint from the sorted key column (a numpy bool); a hint that says less than the
        # column allows (False for a column that happens to be unique) is passed as the numpy bool of its value
        k = np.asarray(keys if keys is not None else [])
        c = np.all(k[1:] != k[:-1])
        return c if bool(c) == v else np.bool_(v)
    if form == 'i':
        return int(v)
    if form == 'ni':
        return np.int64(v)
    if form == 'u8':
        return np.uint8(v)
    if form == 'a0':
        return np.asarray(v)
    raise ValueError(form)


def _flags(case):
    """(left flag, right flag) of the case in their type forms (case['ff'] = [form of lu, form of ru])"""
    ff = case.get('ff') or ['b', 'b']
    return _flagv(case['lu'], ff[0], case['L']), _flagv(case['ru'], ff[1], case['R'])


SCALF = {'i': int, 'ni': lambda v: _np.int64(v), 'n32': lambda v: _np.int32(v), 'np': lambda v: _np.intp(v)}


def _scal(v, form):
    return v if v is None else SCALF[form or 'i'](v)


def _invv(case):
    """the invalid marker of a kernel call: numpy int64 scalar (default) or a Python int"""
    return int(case['inv']) if case.get('invf') == 'py' else _np.int64(case['inv'])


# ----------------------------------------------------------------------------- run: the real code
def run(case):
    np, ops, S = _np, _ops, _S
    op = case['op']
    _REG.clear()
    if op == 'hist':
        # several calls one after the other on the same Session; arguments named in 'reg' are shared between them,
        # key columns placed by 'at' are named HDF5 columns of the datasets of this history
        out = []
        _world_reset()
        for c in case['calls']:
            try:
                r = _run1(c, np, ops, S)
            except BaseException as e:          # noqa
                if isinstance(e, (KeyboardInterrupt, SystemExit)):
                    raise
                r = {'exc': _exc_name(e)}
            out.append('EXC:' + r['exc'] if isinstance(r, dict) and 'exc' in r else r)
        _REG.clear()
        _world_reset()
        return out
    if case.get('at'):
        _world_reset()
    try:
        return _run1(case, np, ops, S)
    finally:
        _REG.clear()
        if case.get('at'):
            _world_reset()


def _run1(case, np, ops, S):
    try:
        return _run(case, case['op'], np, ops, S)
    except StopIteration:
        return {'exc': 'Other'}
    except AttributeError:
        return {'exc': 'Other'}


def _run(case, op, np, ops, S):
    if op in ('klru', 'klbu'):
        f = ops.generate_ordered_map_to_left_right_unique if op == 'klru' else ops.generate_ordered_map_to_left_both_unique
        res = np.zeros(case['n'], dtype=np.int64)
        u = f(_arr(case['L']), _arr(case['R']), res, _invv(case))
        return [[int(x) for x in res], 1 if u else 0]
    if op == 'kisz':
        return int(ops.ordered_inner_map_result_size(_arr(case['L']), _arr(case['R'])))
    if op in ('kim', 'kimlu', 'kimbu'):
        f = {'kim': ops.ordered_inner_map, 'kimlu': ops.ordered_inner_map_left_unique,
             'kimbu': ops.ordered_inner_map_both_unique}[op]
        a = np.zeros(case['n'], dtype=np.int64)
        b = np.zeros(case['n'], dtype=np.int64)
        f(_arr(case['L']), _arr(case['R']), a, b)
        return [[int(x) for x in a], [int(x) for x in b]]
    if op == 'ksold':
        L, R = _nfield(case['L'], 'int64'), _nfield(case['R'], 'int64')
        if case.get('dst', 'f') == 'f':
            m = _nfield(None, 'int64')
            u = ops.generate_ordered_map_to_left_right_unique_streamed_old(L, R, m, _invv(case), chunksize=_scal(case['cs'], case.get('csf')))
            return [[int(x) for x in m.data[:]], 1 if u else 0]
        m = np.zeros(len(case['L']), dtype=np.int64)
        u = ops.generate_ordered_map_to_left_right_unique_streamed_old(L, R, m, _invv(case), chunksize=_scal(case['cs'], case.get('csf')))
        return [[int(x) for x in m], 1 if u else 0]
    if op == 'kmvold':
        d, m = _nfield(case['data'], 'int32'), _nfield(case['map'], 'int64')
        if case.get('dst', 'f') == 'f':
            r = _nfield(None, 'int32')
            ops.ordered_map_valid_stream_old(d, m, r, _invv(case), chunksize=_scal(case['cs'], case.get('csf')))
            return [int(x) for x in r.data[:]]
        r = np.zeros(len(case['map']), dtype=np.int32)
        ops.ordered_map_valid_stream_old(d, m, r, _invv(case), chunksize=_scal(case['cs'], case.get('csf')))
        return [int(x) for x in r]
    if op == 'oml':
        return _run_oml(case, np, ops, S)
    if op == 'omi':
        return _run_omi(case, np, ops, S)
    if op in ('ml', 'mr', 'mi'):
        return _run_merge(case, np, ops, S)
    if op == 'gi':
        Ta, kd = _keys(case, case['T'], 'R')
        Fa, fd = _keys(case, case['F'], 'L')
        T = Ta if case['form'] == 'a' else _kfield(case, 'T', Ta, kd, bool(case.get('h5')))
        F = Fa if case['form'] == 'a' else _kfield(case, 'F', Fa, fd, bool(case.get('h5')))
        if case['dest'] == 'n':
            return [int(x) for x in S.get_index(T, F)]
        if case['dest'] == 'a':
            d = np.zeros(len(case['F']), dtype=np.int64)
            r = S.get_index(T, F, d)
            assert r is None
            return [int(x) for x in d]
        d = _nfield(None, 'int64', bool(case.get('h5')))
        r = S.get_index(T, F, d)
        assert r is None
        return [int(x) for x in d.data[:]]
    if op == 'join':
        pk = np.zeros(case['n'], dtype=np.int32)
        jh5 = bool(case.get('h5'))
        fk = _arr(case['fk'], 'int64') if case['form'] == 'a' else _kfield(case, 'fk', _arr(case['fk'], 'int64'), 'int64', jh5)
        vdt = case.get('vdt', 'int32')
        col = _tcol if case.get('typed') else _col
        vals = _payload('n', case['vals'], case['form'], jh5, vdt, _pat(case, 'vals'))
        kw = {}
        if case.get('sp'):
            # the caller supplies the spans of the foreign-key indices (rarely used argument)
            xs = case['fk']
            kw['fkey_index_spans'] = np.asarray([k for k in range(len(xs)) if k == 0 or xs[k] != xs[k - 1]] + [len(xs)], dtype=np.int64)
        if case['writer']:
            w = _nfield(None, vdt, bool(case.get('h5')))
            r = S.join(pk, fk, vals, writer=w, **kw)
            assert r is None
            return col(w)
        return col(S.join(pk, fk, vals, **kw))
    raise ValueError(op)


def _run_oml(case, np, ops, S):
    """ordered_merge_left(L, R, srcs, sinks, map, lu, ru)  (swap=1: the same call through ordered_merge_right)
       form: 'a'  ndarray keys+sources, no sinks        'as' ndarray keys+sources, ndarray sinks (pre-filled with `fill`)
             'f'  field keys+sources, no sinks          'fs' field keys+sources, field sinks
       mapk: 'n' no map argument / 'a' ndarray / 'f' field   (form 'fs' + mapk != 'n' is the streamable form)
       typed: 'sdt' dtype of every source, 'kdt' dtype of every sink (default: the source's), results carry dtypes
       km: key map (KMAPS); grp: HDF5-backed fields are passed as h5py groups; reg: shared argument objects"""
    form, mapk = case['form'], case['mapk']
    fa = 'a' if form in ('a', 'as') else 'f'
    h5 = bool(case.get('h5'))          # HDF5-backed fields instead of memory fields
    grp = bool(case.get('grp'))
    typed = bool(case.get('typed'))
    n = len(case['srcs'])
    sdt = case.get('sdt') or ['int32'] * n
    kdt = case.get('kdt') or sdt
    col = _tcol if typed else _col

    def key(role, xs):
        def make():
            a, kd = _keys(case, xs, role)
            return a if fa == 'a' else _kfield(case, role, a, kd, h5)
        return _reg(case, role, 0, make)
    L = key('L', case['L'])
    R = key('R', case['R'])
    srcs = tuple(_reg(case, 'srcs', k, (lambda k=k: _payload('n', case['srcs'][k], fa, h5, sdt[k], _pat(case, 'srcs', k)))) for k in range(n))
    sinks = None
    if form == 'as':
        sinks = tuple(_reg(case, 'sinks', k, (lambda k=k: _full(len(case['L']), case.get('fill', 0), kdt[k])))
                      for k in range(len(kdt)))
    elif form == 'fs':
        sinks = tuple(_reg(case, 'sinks', k, (lambda k=k: _nfield(None, kdt[k], h5))) for k in range(len(kdt)))
    mp = None
    if mapk == 'a':
        mp = np.zeros(len(case['L']), dtype=np.int64)
    elif mapk == 'f':
        mp = _reg(case, 'map', 0, lambda: _nfield(None, case.get('mdt', 'int64'), h5))
    lu, ru = _flags(case)
    g = lambda x: _arg(x, grp)
    seq = list if case.get('lst') else tuple            # the payload / sink collections as lists
    gt = lambda t: None if t is None else seq(g(x) for x in t)
    with _patched(case.get('cs'), case.get('csf')):
        if case.get('swap'):
            ret = S.ordered_merge_right(g(R), g(L), left_field_sources=gt(srcs), right_field_sinks=gt(sinks),
                                        right_to_left_map=g(mp), left_unique=ru, right_unique=lu)
        else:
            ret = S.ordered_merge_left(g(L), g(R), right_field_sources=gt(srcs), left_field_sinks=gt(sinks),
                                       left_to_right_map=g(mp), left_unique=lu, right_unique=ru)
    out_sinks = None if sinks is None else [col(x) for x in sinks]
    out_map = None
    if mapk == 'f':
        out_map = [int(x) for x in mp.data[:]]
        if case.get('mdt', 'int64') != 'int64':
            # a narrower map field marks unmatched rows with the largest value of its dtype (fix F-C19h); canonical form: 1 << 62
            top = int(np.iinfo(case['mdt']).max)
            out_map = [INV64 if x == top else x for x in out_map]
    return [None if ret is None else [col(x) for x in ret], out_sinks, out_map]


def _run_omi(case, np, ops, S):
    form = case['form']
    fa = 'a' if form in ('a', 'as') else 'f'
    La, kd = _keys(case, case['L'], 'L')
    Ra, rd = _keys(case, case['R'], 'R')
    h5 = bool(case.get('h5'))
    L = La if fa == 'a' else _kfield(case, 'L', La, kd, h5)
    R = Ra if fa == 'a' else _kfield(case, 'R', Ra, rd, h5)
    ldt = case.get('ldt') or ['int32'] * len(case['lsrcs'])
    rdt = case.get('rdt') or ['int32'] * len(case['rsrcs'])
    _cols_ = (lambda t: None if t is None else [_tcol(x) for x in t]) if case.get('typed') else _cols
    ls = tuple(_payload('n', c, fa, h5, d, _pat(case, 'lsrcs', k)) for k, (c, d) in enumerate(zip(case['lsrcs'], ldt)))
    rs = tuple(_payload('n', c, fa, h5, d, _pat(case, 'rsrcs', k)) for k, (c, d) in enumerate(zip(case['rsrcs'], rdt)))
    lsk = rsk = None
    if form == 'as':
        n = case['n']
        lsk = tuple(_full(n, case.get('fill', 0), d) for d in ldt)
        rsk = tuple(_full(n, case.get('fill', 0), d) for d in rdt)
    elif form == 'fs':
        lsk = tuple(_nfield(None, d, h5) for d in ldt)
        rsk = tuple(_nfield(None, d, h5) for d in rdt)
    lu, ru = _flags(case)
    ret = S.ordered_merge_inner(L, R, left_field_sources=ls, left_field_sinks=lsk,
                                right_field_sources=rs, right_field_sinks=rsk,
                                left_unique=lu, right_unique=ru)
    if ret is None:
        r = None
    elif len(ret) == 2 and isinstance(ret[0], tuple):
        r = [_cols_(ret[0]), _cols_(ret[1])]
    else:
        r = [_cols_(ret)]
    return [r, _cols_(lsk), _cols_(rsk)]


def _run_merge(case, np, ops, S):
    """merge_left / merge_right / merge_inner; payload descriptors: list of [kind, col] with kind 'n'/'i';
       form 'a' ndarray keys and numeric payloads / 'f' fields;  wr: destination writers given"""
    op, form = case['op'], case['form']
    La, kd = _keys(case, case['L'], 'L')
    Ra, rd = _keys(case, case['R'], 'R')
    h5 = bool(case.get('h5'))
    L = La if form == 'a' else _kfield(case, 'L', La, kd, h5)
    R = Ra if form == 'a' else _kfield(case, 'R', Ra, rd, h5)
    typed = bool(case.get('typed'))

    def pdt(p):
        return p[2] if len(p) > 2 else 'int32'

    def pays(ps, role):
        return tuple(_payload(p[0], p[1], form, h5, pdt(p), _pat(case, role, k)) for k, p in enumerate(ps))

    def writers(ps):
        if not case['wr']:
            return None
        return tuple(_ifield(None, h5) if p[0] == 'i' else _nfield(None, pdt(p), h5) for p in ps)

    def col(x):
        if typed and not (isinstance(x, _fld.Field) and x.indexed):
            return _tcol(x)
        return _col(x)

    def cols(t):
        return None if t is None else [col(x) for x in t]

    if op == 'ml':
        p = pays(case['rp'], 'rp'); w = writers(case['rp'])
        ret = S.merge_left(L, R, right_fields=p, right_writers=w)
        return [cols(ret), cols(w)]
    if op == 'mr':
        p = pays(case['lp'], 'lp'); w = writers(case['lp'])
        ret = S.merge_right(L, R, left_fields=p, left_writers=w)
        return [cols(ret), cols(w)]
    lp, rp = pays(case['lp'], 'lp'), pays(case['rp'], 'rp')
    lw, rw = writers(case['lp']), writers(case['rp'])
    ret = S.merge_inner(L, R, left_fields=lp, left_writers=lw, right_fields=rp, right_writers=rw)
    return [[cols(ret[0]), cols(ret[1])], None if lw is None else [cols(lw), cols(rw)]]


# ----------------------------------------------------------------------------- wire
FORMS = {'a': 0, 'as': 1, 'f': 2, 'fs': 3}
MAPKS = {'n': 0, 'a': 1, 'f': 2}
IKINDS = {'kim': 0, 'kimlu': 1, 'kimbu': 2}
VER = int(__import__('os').environ.get('VERIF_C19_VER', '1'))   # 1 = model of the repaired Session.ordered_merge_left; 0 = as found


def _enc_payloads(ps):
    out = []
    for p_ in ps:
        k, col = p_[0], p_[1]
        if k == 'n':
            out.append([0, list(col)])
        else:
            idx, vals = [0], []
            for s in col:
                vals.extend(s); idx.append(len(vals))
            out.append([1, idx, vals])
    return out


_FWIRE = {'b': 0, 'nb': 10, 'all': 10, 'i': 20, 'ni': 30, 'u8': 30, 'a0': 40}


def _wflags(case):
    """the hints on the wire: truth value + the code of the type form (Model/FlagForm.v: flag_of_wire)"""
    ff = case.get('ff') or ['b', 'b']
    return [_FWIRE[ff[0]] + (1 if case['lu'] else 0), _FWIRE[ff[1]] + (1 if case['ru'] else 0)]


def to_val(case):
    op = case['op']
    if op in ('klru', 'klbu'):
        return [1, 1 if op == 'klbu' else 0, case['L'], case['R'], case['n'], case['inv']]
    if op == 'kisz':
        return [2, case['L'], case['R']]
    if op in IKINDS:
        return [3, IKINDS[op], case['L'], case['R'], case['n']]
    if op == 'ksold':
        return [4, case['L'], case['R'], case['cs'], case['inv']]
    if op == 'kmvold':
        return [5, case['data'], case['map'], case['cs'], case['inv']]
    if op == 'hist':
        if any(c.get('at') for c in case['calls']):
            return [14, _world_steps(case['calls'])]
        return [13, [to_val(c) for c in case['calls']]]
    if op == 'oml' and case.get('typed'):
        n = len(case['L'])
        sdt = case.get('sdt') or ['int32'] * len(case['srcs'])
        kdt = case.get('kdt') or sdt
        has_sinks = case['form'] in ('as', 'fs')
        sinks0 = [[case.get('fill', 0)] * n for _ in kdt] if case['form'] == 'as' else []
        cs = case.get('cs')
        return [12, (max(len(case['L']), len(case['R'])) + 2) if cs is None else cs, case['L'], case['R'],
                [[DTC[d], list(c)] for d, c in zip(sdt, case['srcs'])], FORMS[case['form']],
                [DTC[d] for d in kdt] if has_sinks else [], sinks0, MAPKS[case['mapk']]] + _wflags(case) + \
               [1 if case.get('h5') else 0]
    if op == 'oml':
        n = len(case['L'])
        sinks0 = [[case.get('fill', 0)] * n for _ in case['srcs']] if case['form'] == 'as' else []
        cs = case.get('cs')
        # production default 1 << 20: the model is run with a chunk size just beyond both inputs (one chunk per side,
        # as with any larger size; a unary million-element buffer per case would only cost time)
        return [6, case.get('ver', VER), (max(len(case['L']), len(case['R'])) + 2) if cs is None else cs, case['L'], case['R'], case['srcs'],
                FORMS[case['form']], sinks0, MAPKS[case['mapk']]] + _wflags(case)
    if op == 'omi':
        n = case['n']
        f = case.get('fill', 0)
        ls0 = [[f] * n for _ in case['lsrcs']] if case['form'] == 'as' else []
        rs0 = [[f] * n for _ in case['rsrcs']] if case['form'] == 'as' else []
        return [7, case['L'], case['R'], case['lsrcs'], case['rsrcs'], FORMS[case['form']], ls0, rs0] + _wflags(case)
    if op in ('ml', 'mr', 'mi'):
        return [8, {'ml': 0, 'mr': 1, 'mi': 2}[op], case['L'], case['R'],
                _enc_payloads(case.get('lp', [])), _enc_payloads(case.get('rp', []))]
    if op == 'gi':
        return [9, case['T'], case['F']]
    if op == 'join':
        return [10, case['n'], case['fk'], case['vals']]
    raise ValueError(op)


KEYROLES = ('L', 'R', 'T', 'F', 'fk')


def _argpos(c, role):
    """position of the key column `role` in the wire form of call c"""
    op = c['op']
    if op == 'gi':
        return {'T': 1, 'F': 2}[role]
    if op == 'join':
        return {'fk': 2}[role]
    if op in ('ml', 'mr', 'mi'):
        return {'L': 2, 'R': 3}[role]
    if op == 'omi':
        return {'L': 1, 'R': 2}[role]
    if op == 'oml':
        return {'L': 2, 'R': 3}[role] if c.get('typed') else {'L': 3, 'R': 4}[role]
    raise ValueError(op)


def _world_steps(calls):
    """wire 14 (Model/SessionWorld.v): before each call the columns its handles point to are written (what run() does),
    the call itself travels with HOLES at those argument positions: the model reads them from the world by full path"""
    fid, nid, steps = {}, {}, []
    for c in calls:
        v = to_val(c)
        refs = []
        for role in sorted(r for r in (c.get('at') or {}) if r in KEYROLES):
            at = c['at'][role]
            f = fid.setdefault(at[0], len(fid))
            n = nid.setdefault(at[1], len(nid))
            pos = _argpos(c, role)
            steps.append([0, f, n, list(v[pos])])
            v[pos] = []
            refs.append([pos, f, n])
        steps.append([1, v, refs])
    return steps


def _opt(v):
    return None if v == [] else v[0]


def _dec_payload(p):
    """model/spec payload -> canonical column"""
    if p[0] == 0:
        return p[1]
    if p[0] == 2:
        return p[1]
    idx, vals = p[1], p[2]
    return [vals[idx[k]:idx[k + 1]] for k in range(len(idx) - 1)]


def _sorted(xs):
    return all(a <= b for a, b in zip(xs, xs[1:]))


def _strict(xs):
    return all(a < b for a, b in zip(xs, xs[1:]))


def in_domain(case):
    """the case satisfies the property's preconditions (sorted keys for the ordered forms, truthful flags,
    zero-initialised destination arrays, well-formed arguments); outside it only model == impl is checked"""
    op = case['op']
    if op in ('klru',):
        return _sorted(case['L']) and _strict(case['R']) and case['n'] == len(case['L']) and not (0 <= case['inv'] < len(case['R']))
    if op == 'klbu':
        return _strict(case['L']) and _strict(case['R']) and case['n'] == len(case['L']) and not (0 <= case['inv'] < len(case['R']))
    if op == 'kisz':
        return _sorted(case['L']) and _sorted(case['R'])
    if op in IKINDS:
        ok = _sorted(case['L']) and _sorted(case['R'])
        if op in ('kimlu', 'kimbu'):
            ok = ok and _strict(case['L'])
        if op == 'kimbu':
            ok = ok and _strict(case['R'])
        return ok and case['n'] == _n_inner(case['L'], case['R'])
    if op in ('ksold', 'kmvold'):
        return False          # deprecated helpers, not Session entry points after the fix: correspondence only
    if op == 'hist':
        return all(in_domain(c) for c in case['calls'])
    if op == 'oml':
        if not case['srcs'] or not case['ru'] or not _sorted(case['L']) or not _strict(case['R']):
            return False
        if case.get('typed'):
            sdt = case.get('sdt') or ['int32'] * len(case['srcs'])
            kdt = case.get('kdt') or sdt
            if case['form'] in ('as', 'fs'):
                if len(kdt) != len(sdt):
                    return False
                if case['form'] == 'as' and kdt != sdt:
                    return False        # numba cannot compile map_valid(src, map, snk) for two different array types
                if not all(_preserved(a, b, c) for a, b, c in zip(sdt, kdt, case['srcs'])):
                    return False
        if case['lu'] and not _strict(case['L']):
            return False
        if case['form'] == 'as' and case.get('fill', 0) != 0:
            return False
        return True
    if op == 'omi':
        if not case['lsrcs'] or not case['rsrcs'] or not _sorted(case['L']) or not _sorted(case['R']):
            return False
        if (case['lu'] and not _strict(case['L'])) or (case['ru'] and not _strict(case['R'])):
            return False
        if case['form'] == 'as' and (case.get('fill', 0) != 0 or case['n'] != _n_inner(case['L'], case['R'])):
            return False
        return True
    if op in ('ml', 'mr', 'mi'):
        return True
    if op == 'gi':
        return True
    if op == 'join':
        runs = _nruns(case['fk'])
        return len(case['vals']) == runs and all(0 <= k < case['n'] or k >= INV64 for k in case['fk'])
    return False


def _nruns(xs):
    return sum(1 for k in range(len(xs)) if k == 0 or xs[k] != xs[k - 1])


def _n_inner(L, R):
    return sum(1 for a in L for b in R if a == b)


def from_val(case, v):
    from harness.core import decode_err
    op = case['op']
    if op == 'hist':
        if decode_err(v) is not None:
            return decode_err(v), decode_err(v)
        ms = [from_val(c, x) for c, x in zip(case['calls'], v)]
        return [m for m, _ in ms], [s_ for _, s_ in ms]
    model, spec = v
    e = decode_err(model)
    dom = in_domain(case)
    typed = bool(case.get('typed'))
    if op == 'oml' and typed:
        sdt = case.get('sdt') or ['int32'] * len(case['srcs'])
        kdt = case.get('kdt') or sdt
        if e is not None:
            return e, (_oml_shape(case, [[d, c] for d, c in zip(_out_dt(case, sdt, kdt), spec)], None) if dom else e)
        tc = lambda o: None if o == [] else [[DTN[c[0]], c[1]] for c in o[0]]
        m = [tc(model[0]), tc(model[1]), _opt(model[2])]
        cols = m[0] if m[0] is not None else m[1]
        return m, (_oml_shape(case, [[mc[0], sc] for mc, sc in zip(cols, spec)], m[2]) if dom else m)
    if op in ('klru', 'klbu', 'ksold'):
        m = e if e is not None else [model[0], model[1]]
        if op == 'ksold' and e is None and case.get('dst', 'f') == 'a':
            m[0] = m[0] + [0] * (len(case['L']) - len(m[0]))      # ndarray destination: zeros(len(left)) written in place
        s = m
        if dom and e is None:
            s = [spec, m[1]]            # the flag is compared with the model only
        return m, s
    if op == 'kisz':
        m = e if e is not None else model
        return m, (spec if dom else m)
    if op in IKINDS:
        m = e if e is not None else model
        return m, (spec if dom else m)
    if op == 'kmvold':
        m = e if e is not None else model
        return m, m
    if op == 'oml':
        if e is not None:
            # in the domain the specification is the join payload; the only admissible error there is the documented
            # long-run ValueError of the streamed form, which spec_ok() accepts
            return e, (_oml_shape(case, spec, None) if dom else e)
        m = [_opt(model[0]), _opt(model[1]), _opt(model[2])]
        return m, (_oml_shape(case, spec, m[2]) if dom else m)
    if op == 'omi':
        ldt = case.get('ldt') or ['int32'] * len(case['lsrcs'])
        rdt = case.get('rdt') or ['int32'] * len(case['rsrcs'])
        tg = (lambda cols, dts: [[d, c] for d, c in zip(dts, cols)]) if typed else (lambda cols, dts: cols)
        tspec = [tg(spec[0], ldt), tg(spec[1], rdt)]
        if e is not None:
            return e, (e if not dom else _omi_shape(case, tspec))
        ret = model[0]
        if typed and ret != []:
            ret = [tg(ret[0], ldt)] + ([tg(ret[1], rdt)] if len(ret) == 2 else [])
        m = [None if ret == [] else ret, None if model[1] == [] else tg(model[1][0], ldt),
             None if model[2] == [] else tg(model[2][0], rdt)]
        return m, (_omi_shape(case, tspec) if dom else m)
    if op in ('ml', 'mr'):
        ps = case['rp'] if op == 'ml' else case['lp']
        dec = lambda l: [_dec_tpayload(p, q, typed) for p, q in zip(l, ps)]
        if e is not None:
            return e, [None if case['wr'] else dec(spec), dec(spec) if case['wr'] else None]
        cols = dec(model)
        scols = dec(spec)
        return _merge_shape(case, cols), _merge_shape(case, scols)
    if op == 'mi':
        if e is not None:
            return e, e
        dec = lambda l, ps: [_dec_tpayload(p, q, typed) for p, q in zip(l, ps)]
        cols = [dec(model[0], case['lp']), dec(model[1], case['rp'])]
        scols = [dec(spec[0], case['lp']), dec(spec[1], case['rp'])]
        if case['wr']:
            return [[[], []], cols], [[[], []], scols]
        return [cols, None], [scols, None]
    if op == 'gi':
        return model, spec
    if op == 'join':
        tg = (lambda c: [case.get('vdt', 'int32'), c]) if typed else (lambda c: c)
        m = e if e is not None else tg(model)
        return m, (tg(spec) if dom else m)
    raise ValueError(op)


def _dec_tpayload(p, desc, typed):
    c = _dec_payload(p)
    if typed and desc[0] == 'n':
        return [desc[2] if len(desc) > 2 else 'int32', c]
    return c


def _out_dt(case, sdt, kdt):
    """the dtype each form hands back (Model/SessionMergeTyped.v: staged_dtype); only used to shape the expected value
    when the model itself stopped with the documented long-run error"""
    f = case['form']
    if f in ('a', 'f'):
        return sdt
    if f == 'as' or (f == 'fs' and case['mapk'] == 'f') or case.get('h5'):
        return kdt
    return sdt


def _merge_shape(case, cols):
    return [[], cols] if case['wr'] else [cols, None]


def _oml_shape(case, cols, mp):
    f = case['form']
    return [cols if f in ('a', 'f') else None, cols if f in ('as', 'fs') else None, mp]


def _omi_shape(case, spec):
    f = case['form']
    if f in ('a', 'f'):
        return [[spec[0], spec[1]], None, None]
    return [None, spec[0], spec[1]]


# ----------------------------------------------------------------------------- comparison
def _runs(xs):
    out, k = [], 0
    while k < len(xs):
        m = k
        while m + 1 < len(xs) and xs[m + 1] == xs[k]:
            m += 1
        out.append((k, m + 1))
        k = m + 1
    return out


def long_run(case):
    """streamed form, right-unique variant: the left side is fetched in trimmed chunks; a run of equal left keys
    that cannot fit a chunk is the documented clear ValueError of get_next_chunk (C03 / C12)"""
    if case['op'] != 'oml' or case.get('cs') is None or case['lu']:
        return False
    if not (case['form'] == 'fs' and case['mapk'] == 'f'):
        return False
    cs = case['cs']
    return any(b - a > cs or (b - a == cs and b != len(case['L'])) for a, b in _runs(case['L']))


def _rows(cols):
    """zip payload columns into rows (for order-insensitive comparison of merge_inner)"""
    flat = [c for side in cols for c in side]
    if not flat:
        return []
    return sorted(zip(*[[repr(x) for x in c] for c in flat]))


def _untag(side):
    """typed columns [dtype, values] -> (dtypes, value columns)"""
    tagged = [isinstance(c, list) and len(c) == 2 and isinstance(c[0], str) for c in side]
    return [c[0] if t else None for c, t in zip(side, tagged)], [c[1] if t else c for c, t in zip(side, tagged)]


def _eq(case, impl, exp, mode, is_spec):
    from harness.core import results_equal
    op = case['op']
    if isinstance(exp, str) or isinstance(impl, str):
        return results_equal(impl, exp, mode)
    if op == 'hist':
        return len(impl) == len(exp) and all(_eq(c, i, x, mode, is_spec) or (is_spec and i == 'EXC:ValueError' and long_run(c))
                                             for c, i, x in zip(case['calls'], impl, exp))
    if op == 'mi':
        # pandas' inner merge may list the matching pairs in any order; all payload columns of one call
        # must be permuted consistently, so rows (across left and right payloads) are compared as multisets
        ic = impl[1] if case['wr'] else impl[0]
        ec = exp[1] if case['wr'] else exp[0]
        if (impl[0] if case['wr'] else impl[1]) != (exp[0] if case['wr'] else exp[1]):
            return False
        if [len(x) for x in ic] != [len(x) for x in ec]:
            return False
        (idl, icl), (idr, icr) = _untag(ic[0]), _untag(ic[1])
        (edl, ecl), (edr, ecr) = _untag(ec[0]), _untag(ec[1])
        return idl == edl and idr == edr and _rows([icl, icr]) == _rows([ecl, ecr])
    if op == 'gi' and is_spec:
        return len(impl) == len(exp) and all((a >= INV64) if b == -1 else a == b for a, b in zip(impl, exp))
    return impl == exp


def equal(case, impl, expected, mode):
    return _eq(case, impl, expected, mode, False)


def spec_ok(case, impl, spec, mode):
    if impl == 'EXC:ValueError' and long_run(case):
        return True
    return _eq(case, impl, spec, mode, True)


# ----------------------------------------------------------------------------- features
def features(case, model):
    f = []
    op = case['op']
    f.append('op:' + op)
    if op == 'hist':
        calls = case['calls']
        f.append('history:%d-calls' % len(calls))
        names = [repr(sorted((c.get('reg') or {}).items())) for c in calls]
        if any(c.get('reg') for c in calls): f.append('history:shared-argument-objects')
        dts = [tuple(c.get('sdt') or ()) for c in calls]
        if len(set(dts)) > 1: f.append('history:payload-dtypes-change-between-calls')
        if len(set(c['op'] for c in calls)) > 1: f.append('history:different-entry-points')
        lens = [len(c.get('L', c.get('T', c.get('fk', [])))) for c in calls]
        if any(a > b for a, b in zip(lens, lens[1:])): f.append('history:shorter-call-after-longer')
        f.extend(_world_features(calls))
        for k, c in enumerate(calls):
            sub = model[k] if isinstance(model, list) and k < len(model) else model
            f.extend(x for x in features(c, sub) if x not in f)
        return f
    if case.get('typed'):
        f.append('typed-payloads')
        dts = list(case.get('sdt') or []) + list(case.get('ldt') or []) + list(case.get('rdt') or []) + \
            [p[2] for p in case.get('lp', []) + case.get('rp', []) if len(p) > 2] + ([case['vdt']] if 'vdt' in case else [])
        for d in sorted(set(dts)): f.append('payload:' + d)
        if len(set(dts)) > 1: f.append('payload-dtypes-differ-within-call')
        if case.get('kdt') and case.get('kdt') != case.get('sdt'): f.append('sink-dtype-wider-than-source')
        allv = [v for c in case.get('srcs', []) + case.get('lsrcs', []) + case.get('rsrcs', []) for v in c]
        if any(abs(v) > (1 << 53) for v in allv): f.append('payload-value-beyond-2^53')
        if any(_is_s(d) for d in dts): f.append('fixed-width-string-payload')
    if case.get('ff'):
        ff = case['ff']
        f.append('flagform:lu=%s' % ff[0]); f.append('flagform:ru=%s' % ff[1])
        if ff[0] != 'b' and not case['lu']: f.append('flag:non-bool-falsy-left-hint')
        if ff[1] != 'b' and not case['ru']: f.append('flag:non-bool-falsy-right-hint')
        if ff[0] != 'b' and not case['lu'] and len(set(case['L'])) < len(case['L']):
            f.append('flag:non-bool-falsy-hint-with-duplicates-on-that-side')
        if ff[1] != 'b' and not case['ru'] and len(set(case['R'])) < len(case['R']) and f[-1] != 'flag:non-bool-falsy-hint-with-duplicates-on-that-side':
            f.append('flag:non-bool-falsy-hint-with-duplicates-on-that-side')
    if case.get('csf'): f.append('chunksize-form:' + case['csf'])
    if case.get('invf'): f.append('invalid-marker-form:' + case['invf'])
    if case.get('mdt'): f.append('map-field-dtype:' + case['mdt'])
    if case.get('km'): f.append('keymap:' + case['km'])
    if case.get('kmx'):
        A, B = case['kmx']
        f.append('mixed-key-dtypes'); f.append('mixed-key-dtypes:%s/%s' % (A, B))
        vals, okA, okB = mix_syms(A, B)
        Ls, Rs = case.get('L', case.get('F', [])), case.get('R', case.get('T', []))
        lv, rv = {vals[k] for k in Ls}, {vals[k] for k in Rs}
        if A in _FBITS or B in _FBITS:
            f.append('mixed-key-dtypes:integer-against-float')
            fr, it = (lv, rv) if A in _FBITS else (rv, lv)
            if any(v != int(v) and int(v) in it for v in fr): f.append('float-key-truncates-to-a-key-of-the-integer-side')
            la = ha = lb = hb = 0; wa = wb = 1; lv = rv = set()
        else:
            (la, ha), (lb, hb) = _dt_range(A), _dt_range(B)
            wa, wb = ha - la + 1, hb - lb + 1
        wrapA = lambda v: (v - la) % wa + la
        wrapB = lambda v: (v - lb) % wb + lb
        if any(not (la <= v <= ha) and wrapA(v) in lv for v in rv): f.append('right-key-collides-with-a-left-key-when-cast-to-the-left-dtype')
        if any(not (lb <= v <= hb) and wrapB(v) in rv for v in lv): f.append('left-key-collides-with-a-right-key-when-cast-to-the-right-dtype')
    if case.get('grp'): f.append('h5py-group-arguments')
    if case.get('lst'): f.append('payloads-and-sinks-as-lists')
    if case.get('sp'): f.append('join:caller-supplied-spans')
    if case.get('h5') and case['op'] != 'oml': f.append('hdf5-backed-fields')
    if case.get('reg'):
        r = case['reg']
        flat = [r.get('L'), r.get('R')] + list(r.get('srcs') or [])
        flat = [x for x in flat if x]
        if len(set(flat)) < len(flat): f.append('aliased-arguments')
    if isinstance(model, str):
        f.append('err:' + model)
    if not in_domain(case):
        f.append('outside-precondition(model==impl only)')
    if op in ('klru', 'klbu', 'kisz', 'kim', 'kimlu', 'kimbu', 'ksold', 'oml', 'omi', 'ml', 'mr', 'mi'):
        L, R = case['L'], case['R']
        if set(L) & set(R): f.append('matched')
        if set(L) - set(R): f.append('unmatched-left')
        if set(R) - set(L): f.append('unmatched-right')
        if len(set(L)) < len(L): f.append('dup-left')
        if len(set(R)) < len(R): f.append('dup-right')
        if len(set(L)) < len(L) and len(set(R)) < len(R) and \
                {x for x in L if L.count(x) > 1} & {x for x in R if R.count(x) > 1}:
            f.append('cartesian-block')
        if not L or not R: f.append('empty-side')
        if L and R and op not in ('ml', 'mr', 'mi') and _sorted(L) and _sorted(R) and L[-1] > R[-1]:
            f.append('tail-unmatched-left')
        if op in ('ml', 'mr', 'mi') and (not _sorted(L) or not _sorted(R)): f.append('unsorted-keys')
    if op in ('ksold', 'oml') and case.get('cs') is not None:
        cs, L, R = case['cs'], case['L'], case['R']
        if len(L) > cs or len(R) > cs: f.append('multi-chunk')
        if any(b - a > 1 and (a // cs) != ((b - 1) // cs) for a, b in _runs(L)): f.append('left-run-straddles-chunk-end')
        if any(b - a >= 1 and b % cs == 0 and b != len(L) for a, b in _runs(L)): f.append('left-run-ends-at-chunk-end')
        if op == 'oml' and long_run(case): f.append('long-run(clear ValueError allowed)')
    if op == 'oml':
        f.append('form:' + case['form'] + '/map:' + case['mapk'] + ('/streamed' if case['form'] == 'fs' and case['mapk'] == 'f' else ''))
        f.append('flags:lu=%d,ru=%d' % (case['lu'], case['ru']))
        if case.get('swap'): f.append('via-ordered_merge_right')
        if len(case['srcs']) > 1: f.append('several-payloads')
        if case.get('fill', 0): f.append('prefilled-sink')
        if case.get('cs') is None and case['form'] == 'fs' and case['mapk'] == 'f': f.append('default-chunksize')
        if case.get('h5'): f.append('hdf5-backed-fields')
        f.append('keys:' + case.get('kt', 'int32'))
    if op == 'omi':
        f.append('form:' + case['form'])
        f.append('flags:lu=%d,ru=%d' % (case['lu'], case['ru']))
    if op in ('ml', 'mr', 'mi'):
        f.append('form:' + case['form'] + ('/writers' if case['wr'] else ''))
        ps = case.get('lp', []) + case.get('rp', [])
        if any(p_[0] == 'i' for p_ in ps): f.append('indexed-string-payload')
        if any(p_[0] == 'i' and any(len(s) == 0 for s in p_[1]) for p_ in ps): f.append('empty-string-in-payload')
        if any(p_[0] == 'i' and any(len(s) >= 256 for s in p_[1]) for p_ in ps): f.append('string-of-256-or-more-bytes')
        if any(p_[0] == 'i' and any(b >= 128 for s in p_[1] for b in s) for p_ in ps): f.append('non-ascii-string')
    if op == 'gi':
        T, F = case['T'], case['F']
        f.append('dest:' + case['dest'] + '/form:' + case['form'])
        if len(set(T)) < len(T): f.append('dup-target(last wins)')
        miss = [k for k in F if k not in T]
        if miss: f.append('missing-key')
        if len(set(miss)) > 1: f.append('several-distinct-missing-keys')
        if len(miss) > len(set(miss)): f.append('repeated-missing-key')
    if op == 'join':
        if any(k >= INV64 for k in case['fk']): f.append('invalid-fkey')
        if _nruns(case['fk']) < len(case['fk']): f.append('span>1')
        if len(set(case['fk'])) < _nruns(case['fk']): f.append('non-adjacent-repeat(last wins)')
        if case['writer']: f.append('writer')
    if op == 'kmvold':
        cs = case['cs']
        if len(case['map']) > cs: f.append('multi-chunk-map')
        if len(case['data']) > cs: f.append('multi-chunk-data')
        if case['inv'] in case['map']: f.append('invalid-entries')
    return f


def _world_features(calls):
    """what the named HDF5 columns of a history do to each other (Model/SessionWorld.v)"""
    f, seen = [], []            # seen: (frame, name, mode, dtype, content) of every column mention so far
    for c in calls:
        pl = [a for r, v in (c.get('at') or {}).items() if r not in KEYROLES for a in (v if isinstance(v[0], list) or v[0] is None else [v]) if a]
        if pl and 'world:named-hdf5-payload-columns' not in f: f.append('world:named-hdf5-payload-columns')
        for role in sorted(r for r in (c.get('at') or {}) if r in KEYROLES):
            at = c['at'][role]
            xs = c[role]
            dt = 'int64' if role == 'fk' else (KMAPS[c['km']][0] if c.get('km') else c.get('kt', 'int32'))
            for (fr, nm, dt0, xs0) in seen:
                if nm != at[1]:
                    continue
                same_path = fr == at[0]
                w = 'same-path' if same_path else ('same-name-other-dataset' if fr.split('/')[0] != at[0].split('/')[0]
                                                    else 'same-name-other-dataframe')
                if same_path and (xs0 != xs or dt0 != dt):
                    mode = at[2] if len(at) > 2 else 0
                    w += ('-replaced-by-same-named-field' if mode == 2 or dt0 != dt else
                          '-overwritten-in-place' if mode == 0 and len(xs0) == len(xs) else '-cleared-and-rewritten')
                f.append('world:' + w)
                f.append('world:%s/%s-length/%s-content' % (w, 'same' if len(xs0) == len(xs) else 'other', 'same' if xs0 == xs else 'other'))
                if dt0 != dt: f.append('world:dtype-changes-under-the-same-name')
            seen.append((at[0], at[1], dt, xs))
    if seen:
        f.insert(0, 'world:named-hdf5-key-columns')
        if len(calls) >= 3: f.append('world:3-or-more-calls')
    out = []
    for x in f:
        if x not in out: out.append(x)
    return out


def nontrivial(case, model):
    if case['op'] == 'hist':
        return any(nontrivial(c, model[k] if isinstance(model, list) and k < len(model) else model)
                   for k, c in enumerate(case['calls']))
    fs = features(case, model)
    return any(x in fs for x in ('matched', 'unmatched-left', 'missing-key', 'invalid-fkey', 'span>1', 'invalid-entries',
                                 'multi-chunk-map', 'dup-target(last wins)')) or case['op'] in ('gi', 'join')


def known(case, impl, model, spec, mode):
    return None


# ----------------------------------------------------------------------------- generators
def _nondecr(n, k):
    for m in range(n + 1):
        for c in itertools.combinations_with_replacement(range(k), m):
            yield list(c)


def _anyseq(n, k):
    for m in range(n + 1):
        for c in itertools.product(range(k), repeat=m):
            yield list(c)


def _src(n, k):
    return [100 * (k + 1) + j + 1 for j in range(n)]


def _istr(n, k):
    return [[97 + ((j + k) % 26)] * ((j + k) % 3) for j in range(n)]


def gen(tier, rng):
    """all generators; the streamed ordered_merge_left/right cases additionally rotate the dtype of the map FIELD (int64,
    int32, int16: the marker of unmatched rows has to fit it — F-C19h)"""
    k = 0
    for c in _gen_all(tier, rng):
        if c.get('op') == 'oml' and c.get('form') == 'fs' and c.get('mapk') == 'f' and not c.get('reg'):
            k += 1
            if k % 3 == 1:
                c = dict(c, mdt='int32')
            elif k % 9 == 2:
                c = dict(c, mdt='int16')
        yield c


def _gen_all(tier, rng):
    big = tier == 'thorough'
    # ---- kernels, exhaustive over order-types
    n, k = (6, 4) if big else (4, 4)
    seqs = list(_nondecr(n, k))
    cnt = 0
    for L in seqs:
        for R in seqs:
            inv = (-1, INV64, 2)[cnt % 3] if cnt % 7 == 0 else INV64
            cnt += 1
            if _strict(R):
                yield {'op': 'klru', 'L': L, 'R': R, 'n': len(L), 'inv': inv}
                if _strict(L):
                    yield {'op': 'klbu', 'L': L, 'R': R, 'n': len(L), 'inv': inv}
            yield {'op': 'kisz', 'L': L, 'R': R}
            ni = _n_inner(L, R)
            yield {'op': 'kim', 'L': L, 'R': R, 'n': ni}
            if _strict(L):
                yield {'op': 'kimlu', 'L': L, 'R': R, 'n': ni}
                if _strict(R):
                    yield {'op': 'kimbu', 'L': L, 'R': R, 'n': ni}
    # kernels outside their precondition: wrong result length, untruthful uniqueness, unsorted keys, short buffers
    small = list(_anyseq(3, 3))
    for L in small:
        for R in small:
            for dn in (-1, 1):
                if len(L) + dn >= 0:
                    yield {'op': 'klru', 'L': L, 'R': R, 'n': len(L) + dn, 'inv': INV64}
            if not (_sorted(L) and _strict(R)):
                yield {'op': 'klru', 'L': L, 'R': R, 'n': len(L), 'inv': -1}
                yield {'op': 'klbu', 'L': L, 'R': R, 'n': len(L), 'inv': -1}
            if not (_sorted(L) and _sorted(R)):
                yield {'op': 'kisz', 'L': L, 'R': R}
            ni = _n_inner(L, R)
            for op in ('kim', 'kimlu', 'kimbu'):
                if not in_domain({'op': op, 'L': L, 'R': R, 'n': ni}):
                    yield {'op': op, 'L': L, 'R': R, 'n': ni + 2}     # roomy buffers: no out-of-bounds
            if ni > 0 and _sorted(L) and _sorted(R):
                yield {'op': 'kim', 'L': L, 'R': R, 'n': ni - 1}          # buffer one short: IndexError in checked modes
    # ---- the deprecated streaming helpers (correspondence of the as-found code; F-C19a/b live here)
    n2, k2 = (5, 3) if big else (4, 3)
    seqs2 = list(_nondecr(n2, k2))
    for L in seqs2:
        for R in seqs2:
            if not _strict(R):
                continue
            for cs in range(1, n2 + 2):
                yield {'op': 'ksold', 'L': L, 'R': R, 'cs': cs, 'inv': INV64, 'dst': 'f' if (len(L) + cs) % 2 else 'a'}
    for nd in range(0, 4):
        data = [10 * (j + 1) for j in range(nd)]
        for nm in range(0, 5 if big else 4):
            for mp in itertools.product(list(range(nd)) + [None], repeat=nm):
                vs = [x for x in mp if x is not None]
                if any(a > b for a, b in zip(vs, vs[1:])):
                    continue
                for cs in range(1, 5):
                    yield {'op': 'kmvold', 'data': data, 'map': [INV64 if x is None else x for x in mp], 'cs': cs,
                           'inv': INV64, 'dst': 'f' if (nm + cs) % 2 else 'a'}
    # longer maps for the deprecated map streamer: the switch to the next DATA chunk falls in the middle of a MAP chunk
    # (rows of that map chunk already emitted) and invalid entries follow the switch point
    for _ in range(6000 if big else 1500):
        cs = rng.randint(2, 4)
        nd = rng.randint(cs, 3 * cs + 1)
        nm = rng.randint(cs, 3 * cs + 2)
        vals = sorted(rng.randint(0, nd - 1) for _ in range(nm))
        mp = [INV64 if rng.random() < 0.35 else v for v in vals]
        yield {'op': 'kmvold', 'data': [10 * (j + 1) for j in range(nd)], 'map': mp, 'cs': cs, 'inv': INV64,
               'dst': 'f' if rng.random() < 0.5 else 'a'}
    # ---- Session.ordered_merge_left / ordered_merge_right
    n3, k3 = (6, 4) if big else (4, 4)
    seqs3 = list(_nondecr(n3, k3))
    nonstream = [('a', 'n'), ('a', 'a'), ('as', 'n'), ('f', 'n'), ('fs', 'n'), ('f', 'f'), ('fs', 'a')]
    cnt = 0
    for L in seqs3:
        for R in seqs3:
            if not _strict(R):
                continue
            for lu in ((0, 1) if _strict(L) else (0,)):
                cnt += 1
                nsrc = 2 if cnt % 5 == 0 else 1
                srcs = [_src(len(R), c) for c in range(nsrc)]
                base = {'op': 'oml', 'L': L, 'R': R, 'lu': lu, 'ru': 1, 'srcs': srcs}
                # streamed form: every chunk size that splits the inputs differently, and the production default
                for cs in list(range(1, n3 + 2)) + [None]:
                    yield dict(base, form='fs', mapk='f', cs=cs, swap=(cnt + (cs or 0)) % 2, kt=('int32', 'int64')[cnt % 2])
                if cnt % (3 if big else 7) == 0:
                    # the same call on HDF5-backed fields (milliseconds per case: a sample of the pairs)
                    yield dict(base, form='fs', mapk='f', cs=(cnt % (n3 + 1)) + 1, swap=cnt % 2, h5=1)
                    yield dict(base, form='fs', mapk='f', cs=None, swap=cnt % 2, h5=1)
                    yield dict(base, form='fs', mapk='n', cs=None, swap=cnt % 2, h5=1)
                    yield dict(base, form='f', mapk='n', cs=None, swap=cnt % 2, h5=1)
                # the other argument forms (3 of 7 per pair, rotating; all 7 over any 3 consecutive pairs)
                for r in range(3):
                    form, mapk = nonstream[(3 * cnt + r) % 7]
                    yield dict(base, form=form, mapk=mapk, cs=None, swap=(cnt + r) % 2)
    # flags the call rejects, untruthful hints, unsorted keys, pre-filled destination arrays, no payload
    for L in small:
        for R in small:
            srcs = [_src(len(R), 0)]
            for form, mapk, cs in (('a', 'n', None), ('fs', 'f', 2)):
                for lu in (0, 1):
                    yield {'op': 'oml', 'L': L, 'R': R, 'lu': lu, 'ru': 0, 'srcs': srcs, 'form': form, 'mapk': mapk, 'cs': cs}
            if not _sorted(L) or not _strict(R) or not _strict(L):
                for lu in (0, 1):
                    if _sorted(L) and _strict(R) and not lu:
                        continue
                    yield {'op': 'oml', 'L': L, 'R': R, 'lu': lu, 'ru': 1, 'srcs': srcs, 'form': 'a', 'mapk': 'n', 'cs': None}
            if _sorted(L) and _strict(R):
                yield {'op': 'oml', 'L': L, 'R': R, 'lu': 0, 'ru': 1, 'srcs': srcs, 'form': 'as', 'mapk': 'n', 'cs': None, 'fill': 7}
    yield {'op': 'oml', 'L': [1, 2], 'R': [2], 'lu': 0, 'ru': 1, 'srcs': [], 'form': 'a', 'mapk': 'n', 'cs': None}
    # ---- Session.ordered_merge_inner
    forms4 = ['a', 'as', 'f', 'fs']
    cnt = 0
    seqs4 = list(_nondecr(6, 3)) if big else seqs2
    for L in seqs4:
        for R in seqs4:
            for lu in ((0, 1) if _strict(L) else (0,)):
                for ru in ((0, 1) if _strict(R) else (0,)):
                    cnt += 1
                    nl = 2 if cnt % 4 == 0 else 1
                    base = {'op': 'omi', 'L': L, 'R': R, 'lu': lu, 'ru': ru, 'n': _n_inner(L, R),
                            'lsrcs': [_src(len(L), c) for c in range(nl)], 'rsrcs': [_src(len(R), 5)]}
                    for r in range(2):
                        yield dict(base, form=forms4[(2 * cnt + r) % 4])
    for L in small:
        for R in small:
            if _sorted(L) and _sorted(R) and _strict(L) and _strict(R):
                continue
            for lu, ru in ((1, 1), (1, 0), (0, 1)):
                yield {'op': 'omi', 'L': L, 'R': R, 'lu': lu, 'ru': ru, 'n': _n_inner(L, R) + 3, 'form': 'as',
                       'lsrcs': [_src(len(L), 0)], 'rsrcs': [_src(len(R), 5)], 'fill': 0}
    # ---- merge_left / merge_right / merge_inner: keys in any order, duplicates on both sides
    anyk = list(_anyseq(4 if big else 3, 3))
    cnt = 0
    for L in anyk:
        for R in anyk:
            cnt += 1
            form = 'af'[cnt % 2]
            wr = (cnt // 2) % 2
            lp = [['n', _src(len(L), 0)]]
            rp = [['n', _src(len(R), 5)]]
            if form == 'f':
                lp.append(['i', _istr(len(L), 1)])
                rp.append(['i', _istr(len(R), 0)])
            yield {'op': 'ml', 'L': L, 'R': R, 'form': form, 'wr': wr, 'rp': rp}
            yield {'op': 'mr', 'L': L, 'R': R, 'form': form, 'wr': wr, 'lp': lp}
            yield {'op': 'mi', 'L': L, 'R': R, 'form': form, 'wr': wr, 'lp': lp, 'rp': rp}
    # ---- get_index
    cnt = 0
    for T in anyk:
        for F in anyk:
            cnt += 1
            yield {'op': 'gi', 'T': T, 'F': [x + (cnt % 2) for x in F], 'form': 'af'[cnt % 2], 'dest': 'naf'[cnt % 3]}
    # ---- join
    for n in range(0, 4):
        pool = list(range(n)) + [INV64, INV64 + 1]
        for m in range(0, 5 if big else 4):
            for fk in itertools.product(pool, repeat=m):
                fk = list(fk)
                nr = _nruns(fk)
                cnt += 1
                yield {'op': 'join', 'n': n, 'fk': fk, 'vals': [7 * (j + 1) for j in range(nr)], 'form': 'af'[cnt % 2],
                       'writer': (cnt // 2) % 2}
    for fk, vals, n in (([0, 1], [5], 3), ([0, 1], [5, 6, 7], 3), ([0, 3], [5, 6], 3), ([0, -1], [5, 6], 3), ([], [], 0), ([2], [4], 2)):
        yield {'op': 'join', 'n': n, 'fk': fk, 'vals': vals, 'form': 'a', 'writer': 0}
    # ---- structured random, longer: runs planted at chunk ends (streamed form), larger merges
    for _ in range(6000 if big else 1200):
        cs = rng.randint(2, 9)
        key, L, R = 0, [], []
        tl, tr = rng.randint(0, 4 * cs), rng.randint(0, 4 * cs)
        while len(L) < tl:
            key += rng.choice([1, 1, 2])
            L.extend([key] * rng.choice([1, 1, 1, 2, max(1, cs - 1), max(1, cs - 2), cs]))
        key = 0
        while len(R) < tr:
            key += rng.choice([1, 1, 2]); R.append(key)
        lu = 1 if _strict(L) and rng.random() < 0.5 else 0
        yield {'op': 'oml', 'L': L, 'R': R, 'lu': lu, 'ru': 1, 'srcs': [_src(len(R), 0)], 'form': 'fs', 'mapk': 'f',
               'cs': cs, 'swap': rng.randint(0, 1)}
    for _ in range(1500 if big else 300):
        L = [rng.randint(0, 6) for _ in range(rng.randint(0, 9))]
        R = [rng.randint(0, 6) for _ in range(rng.randint(0, 9))]
        op = rng.choice(['ml', 'mr', 'mi'])
        yield {'op': op, 'L': L, 'R': R, 'form': 'f', 'wr': rng.randint(0, 1),
               'lp': [['n', _src(len(L), 0)], ['i', _istr(len(L), 1)]], 'rp': [['i', _istr(len(R), 0)], ['n', _src(len(R), 5)]]}
    for _ in range(1500 if big else 300):
        L = sorted(rng.randint(0, 8) for _ in range(rng.randint(0, 12)))
        R = sorted(rng.randint(0, 8) for _ in range(rng.randint(0, 12)))
        yield {'op': 'omi', 'L': L, 'R': R, 'lu': 0, 'ru': 0, 'n': _n_inner(L, R), 'form': rng.choice(forms4),
               'lsrcs': [_src(len(L), 0)], 'rsrcs': [_src(len(R), 5)]}
    # ---- element types, key dtypes, histories of calls on one Session, aliased arguments, change-directed sizes
    for g in (_gen_typed, _gen_hist, _gen_world, _gen_alias, _gen_flagforms, _gen_mixed_keys, _gen_hot, _gen_changed):
        for c in g(big, rng):
            yield c


# ----------------------------------------------------------------------------- generators: element types, histories, aliasing
DTYPES = ['int8', 'int16', 'int32', 'int64', 'uint8', 'uint16', 'uint32', 'uint64', 'bool', 'float32', 'float64', 'S3', 'S1', 'S8']
# (source dtype, wider sink dtype): the sink can hold every value of the source
WIDEN = [('int8', 'int16'), ('int8', 'int64'), ('int16', 'int32'), ('int32', 'int64'), ('uint8', 'uint16'), ('uint8', 'int16'),
         ('uint16', 'int32'), ('uint32', 'int64'), ('uint32', 'uint64'), ('bool', 'int8'), ('bool', 'uint8'), ('bool', 'int64'),
         ('uint8', 'uint64'), ('int8', 'int32')]


def _f64(x):
    import struct
    return struct.unpack('<Q', struct.pack('<d', x))[0]


def _f32(x):
    import struct
    return struct.unpack('<I', struct.pack('<f', x))[0]


_POOLS = {}


def _pool(dt):
    """values of a dtype that a wrong intermediate type would damage: extremes, beyond 2^31 / 2^53, fractions, NaN, -0.0"""
    if dt in _POOLS:
        return _POOLS[dt]
    if _is_s(dt):
        n = int(dt[1:])
        raw = [b'x', b'yy', b'zzz', b'w w', b' ', b'a ', b'\xff\xfe\xfd', b'0', 'é'.encode(), b'a\x00b', b'A\x01', b'abcdefgh',
               b'12345678', b'  pad  ', b'\xff' * 8, b'Zo\xc3\xab', b'   ']
        p = []
        for b in raw:
            v = int.from_bytes(b[:n].rstrip(b'\0').ljust(n, b'\0'), 'big')
            if v and v not in p:
                p.append(v)
    elif dt == 'bool':
        p = [1, 1, 0, 1, 0, 1, 1]
    elif dt == 'float64':
        p = [_f64(x) for x in (70.5, -81.25, 0.1, 1.7976931348623157e308, 5e-324, -0.0, float('inf'), 2.0 ** 53 + 2, 1e-7,
                               float('-inf'), 64.75, 3.0e9, -2.5, 1600000000.123456)] + [0x7ff8000000000000]
    elif dt == 'float32':
        p = [_f32(x) for x in (70.5, -81.25, 0.1, 3.4028234663852886e38, 1e-45, -0.0, float('inf'), 16777216.0, 1e-7,
                               float('-inf'), 64.75, 3.0e9, -2.5)] + [0x7fc00000]
    else:
        lo, hi = _dt_range(dt)
        p = [hi, lo, hi - 1, lo + 1, 1, (-1 if lo < 0 else 2), hi // 2 + 1, 3, (lo // 2 - 1 if lo < 0 else hi // 3)]
        if dt in ('int64', 'uint64'):
            p += [(1 << 53) + 1, (1 << 32) + 5, 1600000000123456789, 1 << 31, (1 << 53) + 3, (1 << 40) + 7]
        if dt == 'uint64':
            p += [1 << 63, (1 << 63) + 1]
        if dt in ('int32', 'uint32'):
            p += [(1 << 24) + 1, (1 << 16) + 5, 70]
        q = []
        for v in p:
            if lo <= v <= hi and v not in q:
                q.append(v)
        p = q
    _POOLS[dt] = p
    return p


def _tsrc(n, dt, off=0):
    p = _pool(dt)
    return [p[(j + off) % len(p)] for j in range(n)]


def _ref_lp(L, R, col):
    """left-join payload for a unique right key (only used to write down what a shared sink holds in a later call)"""
    idx = {k: i for i, k in enumerate(R)}
    return [col[idx[k]] if k in idx else 0 for k in L]


# representative key pairs: (left, right unique): duplicates left, matched, unmatched both sides, unmatched tail, empty sides
KP = [([0, 0, 1, 3], [0, 1, 2]), ([1, 2, 3], [0, 2, 3, 5]), ([0, 1], []), ([], [0, 1]), ([0, 1, 1, 1, 2, 4, 4], [1, 2, 3, 4]),
      ([2, 2, 5], [2]), ([0, 1, 2, 3, 4, 5], [0, 1, 2, 3, 4, 5])]
TFORMS = [('fs', 'f', 1), ('fs', 'f', 2), ('fs', 'f', 3), ('fs', 'f', None), ('a', 'n', None), ('as', 'n', None), ('f', 'n', None),
          ('fs', 'n', None), ('fs', 'a', None), ('f', 'f', None), ('a', 'a', None)]


def _toml(L, R, sdt, form, mapk, cs, lu=0, offs=None, **kw):
    srcs = [_tsrc(len(R), d, (offs[k] if offs else 3 * k)) for k, d in enumerate(sdt)]
    c = {'op': 'oml', 'typed': 1, 'L': L, 'R': R, 'lu': lu, 'ru': 1, 'srcs': srcs, 'sdt': list(sdt), 'form': form, 'mapk': mapk,
         'cs': cs}
    c.update(kw)
    return c


def _gen_typed(big, rng):
    cnt = 0
    # every dtype alone x every argument form
    for d in DTYPES:
        for fi, (form, mapk, cs) in enumerate(TFORMS):
            for L, R in (KP[(cnt + fi) % len(KP)], KP[(cnt + fi + 3) % len(KP)]):
                cnt += 1
                yield _toml(L, R, [d], form, mapk, cs, lu=(cnt % 2 if _strict(L) else 0), swap=cnt % 2)
    # every ordered pair of dtypes in one call: streamed at several chunk sizes + two in-memory forms (rotating)
    for d1 in DTYPES:
        for d2 in DTYPES:
            cnt += 1
            L, R = KP[cnt % len(KP)]
            for cs in (1, 2, None):
                yield _toml(L, R, [d1, d2], 'fs', 'f', cs, swap=(cnt + (cs or 0)) % 2)
            for r in range(2):
                form, mapk, cs = TFORMS[4 + (cnt + 3 * r) % 7]
                yield _toml(L, R, [d1, d2], form, mapk, cs)
            # HDF5-backed fields, streamed and through sink fields
            yield _toml(L, R, [d1, d2], 'fs', 'f', 2, h5=1)
            if cnt % 3 == 0:
                yield _toml(L, R, [d1, d2], 'fs', 'n', None, h5=1)
                yield _toml(L, R, [d1, d2], 'fs', 'f', None, h5=1, grp=1)
    # three payloads (quick: the third dtype rotates; thorough: every triple)
    for d1 in DTYPES:
        for d2 in DTYPES:
            for d3 in (DTYPES if big else [DTYPES[(DTYPES.index(d1) + 2 * DTYPES.index(d2) + 5) % len(DTYPES)]]):
                cnt += 1
                L, R = KP[cnt % len(KP)]
                yield _toml(L, R, [d1, d2, d3], 'fs', 'f', (1, 2, 3, None)[cnt % 4], swap=cnt % 2)
                if big or cnt % 4 == 0:
                    form, mapk, cs = TFORMS[4 + cnt % 7]
                    yield _toml(L, R, [d1, d2, d3], form, mapk, cs)
    # many payloads in one call (4..8), dtypes rotating
    for npay in range(4, 9):
        for r in range(len(DTYPES) if big else 3):
            cnt += 1
            sdt = [DTYPES[(r + 4 * k + k * k) % len(DTYPES)] for k in range(npay)]
            L, R = KP[cnt % len(KP)]
            yield _toml(L, R, sdt, 'fs', 'f', (2, None, 1)[cnt % 3])
            yield _toml(L, R, sdt, 'a', 'n', None)
    # a sink wider than its source (value-preserving), next to a payload of another dtype, in both positions
    for a, b in WIDEN:
        for other in ('float64', 'int64', 'uint8') if big else ('float64',):
            for pos in (0, 1):
                cnt += 1
                L, R = KP[cnt % len(KP)]
                sdt = [a, other] if pos == 0 else [other, a]
                kdt = [b, other] if pos == 0 else [other, b]
                yield _toml(L, R, sdt, 'fs', 'f', (1, 2, None)[cnt % 3], kdt=kdt)
                yield _toml(L, R, sdt, 'fs', 'f', 2, kdt=kdt, h5=1)
                yield _toml(L, R, sdt, 'fs', 'n', None, kdt=kdt)             # memory field sink: keeps the source's dtype
                yield _toml(L, R, sdt, 'fs', 'n', None, kdt=kdt, h5=1)       # HDF5 field sink: the dataset's dtype
    # h5py.Group arguments (HDF5-backed fields passed as groups) in every form that takes fields
    for d in DTYPES if big else ('int32', 'float64', 'uint64', 'bool'):
        for form, mapk, cs in (('fs', 'f', 2), ('fs', 'f', None), ('f', 'n', None), ('fs', 'n', None), ('f', 'f', None)):
            cnt += 1
            L, R = KP[cnt % len(KP)]
            yield _toml(L, R, [d, 'int64'], form, mapk, cs, h5=1, grp=1, swap=cnt % 2, lu=(cnt % 2 if _strict(L) else 0))
    # payloads and sinks given as lists instead of tuples
    for fi, (form, mapk, cs) in enumerate(TFORMS):
        cnt += 1
        L, R = KP[cnt % len(KP)]
        yield _toml(L, R, [DTYPES[cnt % len(DTYPES)], DTYPES[(cnt + 6) % len(DTYPES)]], form, mapk, cs, lst=1)
    # longer columns (structured random): several chunks of keys, payload and map at small chunk sizes, runs of equal left
    # keys ending at chunk ends, 1..4 payloads of random dtypes, every form
    for _ in range(4000 if big else 700):
        cs = rng.randint(1, 6)
        key, L, R = 0, [], []
        tl, tr = rng.randint(0, 5 * cs), rng.randint(0, 5 * cs)
        while len(L) < tl:
            key += rng.choice([1, 1, 2])
            L.extend([key] * rng.choice([1, 1, 1, 2, max(1, cs - 1), max(1, cs - 2)]))
        key = 0
        while len(R) < tr:
            key += rng.choice([1, 1, 2]); R.append(key)
        sdt = [rng.choice(DTYPES) for _ in range(rng.choice([1, 2, 2, 3, 4]))]
        form, mapk, cs_ = rng.choice(TFORMS[:4] * 3 + TFORMS)
        kw = {}
        if rng.random() < 0.2 and max(L + R + [0]) <= KMAP_MAXSYM:
            kw['km'] = rng.choice(list(KMAPS))
        if form in ('f', 'fs') and rng.random() < 0.1:
            kw['h5'] = 1
        yield _toml(L, R, sdt, form, mapk, (cs if cs_ is not None else None) if (form, mapk) == ('fs', 'f') else None,
                    lu=1 if _strict(L) and rng.random() < 0.5 else 0, offs=[rng.randrange(12) for _ in sdt],
                    swap=rng.randint(0, 1), **kw)
    # arguments outside the precondition: fewer / more sinks than sources (model == impl only)
    yield _toml([0, 1], [0, 2], ['int32', 'float64'], 'fs', 'f', 2, kdt=['int32'])
    yield _toml([0, 1], [0, 2], ['int32'], 'fs', 'n', None, kdt=['int32', 'int64'])
    # ---- key columns of every dtype / at the extremes of their range (order-isomorphic images of the key symbols)
    for km in KMAPS:
        for pi, (L, R) in enumerate(KP):
            if not big and pi % 2 == 1 and km not in ('i64p53', 'u64p63', 'f64'):
                continue
            cnt += 1
            for form, mapk, cs in (('fs', 'f', 1), ('fs', 'f', 2), ('fs', 'f', None), ('a', 'n', None), ('f', 'n', None), ('fs', 'n', None)):
                yield _toml(L, R, ['int32' if cnt % 2 else 'float64'], form, mapk, cs, km=km, swap=cnt % 2,
                            lu=(cnt % 2 if _strict(L) else 0))
        for L, R in (([0, 1, 1, 3], [1, 1, 2, 3]), ([0, 2, 4], [0, 1, 2]), ([1, 1], [1, 1, 1])):
            cnt += 1
            for form in ('a', 'fs') if not big else ('a', 'as', 'f', 'fs'):
                yield {'op': 'omi', 'L': L, 'R': R, 'lu': 0, 'ru': 0, 'n': _n_inner(L, R), 'form': form, 'km': km,
                       'lsrcs': [_src(len(L), 0)], 'rsrcs': [_src(len(R), 5)]}
        for L, R in (([2, 0, 5, 2], [0, 2, 2]), ([1, 3, 0], [3, 1, 4, 1])):
            for op in ('ml', 'mr', 'mi'):
                cnt += 1
                yield {'op': op, 'L': L, 'R': R, 'form': 'af'[cnt % 2], 'wr': (cnt // 2) % 2, 'km': km,
                       'lp': [['n', _src(len(L), 0)]], 'rp': [['n', _src(len(R), 5)]]}
        for T, F in (([3, 1, 4, 1], [1, 5, 4, 5, 9]), ([0, 1, 2], [2, 2, 0]), ([], [1])):
            cnt += 1
            yield {'op': 'gi', 'T': T, 'F': F, 'form': 'af'[cnt % 2], 'dest': 'naf'[cnt % 3], 'km': km}
    # ---- ordered_merge_inner: every ordered pair (left payload dtype, right payload dtype)
    for d1 in DTYPES:
        for d2 in DTYPES:
            cnt += 1
            L, R = (([0, 1, 1, 3], [1, 1, 2, 3]), ([0, 2, 4], [0, 1, 2, 4]), ([1, 1], [1, 1, 1]))[cnt % 3]
            lu = 1 if _strict(L) and cnt % 2 else 0
            ru = 1 if _strict(R) and (cnt // 2) % 2 else 0
            for r in range(2 if not big else 4):
                yield {'op': 'omi', 'typed': 1, 'L': L, 'R': R, 'lu': lu, 'ru': ru, 'n': _n_inner(L, R),
                       'form': ['a', 'as', 'f', 'fs'][(cnt + r) % 4], 'ldt': [d1, d2], 'rdt': [d2],
                       'lsrcs': [_tsrc(len(L), d1), _tsrc(len(L), d2, 4)], 'rsrcs': [_tsrc(len(R), d2, 1)]}
    # ---- merge_left / merge_right / merge_inner and join: every numeric payload dtype
    for d in DTYPES:
        d2 = DTYPES[(DTYPES.index(d) + 5) % len(DTYPES)]
        for L, R in (([2, 0, 5, 2], [0, 2, 2]), ([1, 3, 0], [3, 1, 4, 1]), ([], [1]), ([1, 1], [])):
            for op in ('ml', 'mr', 'mi'):
                for form in 'af':
                    cnt += 1
                    lp = [['n', _tsrc(len(L), d), d], ['n', _tsrc(len(L), d2, 2), d2]]
                    rp = [['n', _tsrc(len(R), d2, 1), d2], ['n', _tsrc(len(R), d, 5), d]]
                    if form == 'f':
                        lp.append(['i', _istr(len(L), 1)]); rp.insert(1, ['i', _istr(len(R), 0)])
                    yield {'op': op, 'typed': 1, 'L': L, 'R': R, 'form': form, 'wr': cnt % 2, 'lp': lp, 'rp': rp}
                    if form == 'f' and (big or cnt % 3 == 0):
                        yield {'op': op, 'typed': 1, 'L': L, 'R': R, 'form': form, 'wr': (cnt // 3) % 2, 'lp': lp, 'rp': rp, 'h5': 1}
        for fk in ([0, 1, 1, 2], [2, INV64, 0, 0], []):
            for form in 'af':
                cnt += 1
                yield {'op': 'join', 'typed': 1, 'n': 3, 'fk': fk, 'vals': _tsrc(_nruns(fk), d), 'vdt': d, 'form': form,
                       'writer': cnt % 2}
                yield {'op': 'join', 'typed': 1, 'n': 3, 'fk': fk, 'vals': _tsrc(_nruns(fk), d), 'vdt': d, 'form': form,
                       'writer': (cnt + 1) % 2, 'sp': 1}
        for form in ('a', 'as', 'f', 'fs'):
            cnt += 1
            L, R = (([0, 1, 1, 3], [1, 1, 2, 3]), ([0, 2, 4], [0, 1, 2, 4]))[cnt % 2]
            if form in ('f', 'fs'):
                yield {'op': 'omi', 'typed': 1, 'L': L, 'R': R, 'lu': 0, 'ru': 0, 'n': _n_inner(L, R), 'form': form, 'h5': 1,
                       'ldt': [d, d2], 'rdt': [d2], 'lsrcs': [_tsrc(len(L), d), _tsrc(len(L), d2, 4)], 'rsrcs': [_tsrc(len(R), d2, 1)]}
    # ---- indexed-string payloads whose characters are not bytes, and entries of 255 / 256 / 257 and more bytes
    strs = [list(x) for x in ('é'.encode(), '男'.encode(), '\U0001F600'.encode(), b'a' * 255, b'b' * 256, ('é' * 128).encode(),
                              b'c' * 257, b'', 'Zoë'.encode(), b'd' * 300, ('女' * 90).encode(), b'e')]
    for r in range(len(strs)):
        for L, R in (([2, 0, 5, 2], [0, 2, 2]), ([1, 3, 0, 0], [3, 1, 4, 1])):
            for op in ('ml', 'mr', 'mi'):
                cnt += 1
                lp = [['i', [strs[(r + j) % len(strs)] for j in range(len(L))]], ['n', _src(len(L), 0)]]
                rp = [['n', _src(len(R), 5)], ['i', [strs[(r + 2 * j + 1) % len(strs)] for j in range(len(R))]]]
                yield {'op': op, 'L': L, 'R': R, 'form': 'f', 'wr': cnt % 2, 'lp': lp, 'rp': rp}


def _streamed_typed(L, R, sdt, cs, **kw):
    return _toml(L, R, sdt, 'fs', 'f', cs, **kw)


def _templates(i, v):
    """call templates for histories (v varies lengths / dtypes so that two instances of a template differ)"""
    L, R = KP[(i + v) % len(KP)]
    L2, R2 = KP[(i + 2 * v + 4) % len(KP)]
    d = DTYPES[(3 * i + 5 * v) % len(DTYPES)]
    e = DTYPES[(3 * i + 5 * v + 7) % len(DTYPES)]
    t = [
        lambda: _streamed_typed(L, R, [d], 2),
        lambda: _streamed_typed(L2, R2, [d, e], None),
        lambda: _streamed_typed(L, R, [e, d, 'int32'], 1),
        lambda: _toml(L, R, [d, e], 'a', 'n', None),
        lambda: _toml(L2, R2, [d], 'as', 'n', None),
        lambda: _toml(L, R, [e], 'fs', 'n', None),
        lambda: _toml(L2, R2, [d, e], 'f', 'n', None),
        lambda: _streamed_typed(L, R, [d, e], 2, h5=1),
        lambda: {'op': 'omi', 'typed': 1, 'L': [0, 1, 1, 3], 'R': [1, 1, 2, 3], 'lu': 0, 'ru': 0, 'n': 5, 'form': ['a', 'fs'][v % 2],
                 'ldt': [d], 'rdt': [e], 'lsrcs': [_tsrc(4, d)], 'rsrcs': [_tsrc(4, e, 1)]},
        lambda: {'op': 'ml', 'typed': 1, 'L': [2, 0, 5, 2], 'R': [0, 2, 2], 'form': 'f', 'wr': v % 2,
                 'rp': [['n', _tsrc(3, d), d], ['i', _istr(3, 0)]]},
        lambda: {'op': 'mi', 'typed': 1, 'L': [1, 3, 0], 'R': [3, 1, 4, 1], 'form': 'a', 'wr': 0,
                 'lp': [['n', _tsrc(3, e), e]], 'rp': [['n', _tsrc(4, d, 1), d]]},
        lambda: {'op': 'join', 'typed': 1, 'n': 3, 'fk': [0, 1, 1, 2], 'vals': _tsrc(3, d), 'vdt': d, 'form': 'af'[v % 2], 'writer': v % 2},
        lambda: {'op': 'gi', 'T': [3, 1, 4, 1], 'F': [1, 5, 4, 5, 9], 'form': 'af'[v % 2], 'dest': 'naf'[v % 3]},
    ]
    return t[i % len(t)]()


N_TEMPLATES = 13


def _gen_hist(big, rng):
    cnt = 0
    # two streamed calls whose payload dtypes differ: every ordered pair; lengths grow or shrink between the calls
    for d1 in DTYPES:
        for d2 in DTYPES:
            cnt += 1
            A, B = KP[4], KP[cnt % 4 if cnt % 4 != 2 else 5]
            if cnt % 2:
                A, B = B, A
            cs = (2, None, 1, 3)[cnt % 4]
            yield {'op': 'hist', 'calls': [_streamed_typed(A[0], A[1], [d1], cs), _streamed_typed(B[0], B[1], [d2], cs)]}
    # every ordered pair of call templates (different entry points, forms and dtypes one after the other)
    for i in range(N_TEMPLATES):
        for j in range(N_TEMPLATES):
            cnt += 1
            yield {'op': 'hist', 'calls': [_templates(i, cnt % 3), _templates(j, cnt % 3 + 1)]}
    # three and four calls
    for _ in range(400 if big else 60):
        k = rng.choice([3, 3, 4])
        yield {'op': 'hist', 'calls': [_templates(rng.randrange(N_TEMPLATES), rng.randrange(6)) for _ in range(k)]}
    # the same call twice: (a) all arguments fresh, (b) keys and sources shared, sinks fresh, (c) with another call between
    for d in DTYPES:
        for fi, (form, mapk, cs) in enumerate(TFORMS[:9]):
            if not big and (DTYPES.index(d) + fi) % 3:
                continue
            cnt += 1
            L, R = KP[cnt % len(KP)]
            c = _toml(L, R, [d, DTYPES[(cnt + 4) % len(DTYPES)]], form, mapk, cs)
            yield {'op': 'hist', 'calls': [c, dict(c)]}
            shared = dict(c, reg={'L': 'kL', 'R': 'kR', 'srcs': ['p0', 'p1']})
            yield {'op': 'hist', 'calls': [shared, dict(shared)]}
            yield {'op': 'hist', 'calls': [shared, _templates(cnt, 1), dict(shared)]}
    # chained merges: the sink (and the map field) of one call is a payload of the next, the left key of the first
    # call is the right key of the second
    for d in DTYPES:
        for v in range(4 if big else 2):
            cnt += 1
            L1, R1 = ([1, 2, 3], [0, 2, 3, 5]) if v % 2 == 0 else ([0, 1, 2, 3, 4, 5], [0, 1, 2, 3, 4, 5])
            L2 = [0, 1, 1, 3, 3, 6] if v < 2 else [2, 2, 5]
            p1 = _tsrc(len(R1), d, v)
            s1 = _ref_lp(L1, R1, p1)
            jm = [R1.index(k) if k in R1 else INV64 for k in L1]
            cs = (2, None, 1, 3)[cnt % 4]
            c1 = {'op': 'oml', 'typed': 1, 'L': L1, 'R': R1, 'lu': 1, 'ru': 1, 'srcs': [p1], 'sdt': [d], 'form': 'fs', 'mapk': 'f',
                  'cs': cs, 'reg': {'L': 'k1', 'sinks': ['s1'], 'map': 'm1'}}
            c2 = {'op': 'oml', 'typed': 1, 'L': L2, 'R': L1, 'lu': 0, 'ru': 1, 'srcs': [s1, jm], 'sdt': [d, 'int64'],
                  'form': 'fs', 'mapk': 'f', 'cs': cs, 'reg': {'R': 'k1', 'srcs': ['s1', 'm1']}}
            yield {'op': 'hist', 'calls': [c1, c2]}
            c2b = dict(c2, form='f', mapk='n', cs=None)
            yield {'op': 'hist', 'calls': [c1, c2b]}


# ---- histories on NAMED HDF5 key columns: per-Session state that survives between calls can only be keyed by something
# a call can see of its arguments - the column name (Field.name is the last path component only), the length, the dtype.
# Template alphabet x where the second call's columns live (same name in another dataframe / another dataset; the same
# path overwritten in place / cleared and rewritten / replaced by a same-named field; another name: control) x
# {same, other length} x {same, other content}.
def _wkeys(kind, n, v):
    if n <= 0:
        return []
    if kind == 'perm':          # distinct keys in some row order; v = 1: the same keys, every one in another row
        return list(range(n)) if v == 0 else [(j + 1) % n for j in range(n)]
    if kind == 'strict':        # strictly increasing; v = 1: another key set of the same size
        return list(range(n)) if v == 0 else [0] + list(range(2, n + 1))
    if kind == 'sorted':        # non-decreasing with duplicates
        return [j // 2 for j in range(n)] if v == 0 else [(j + 1) // 2 + (1 if j > 2 else 0) for j in range(n)]
    if kind == 'any':           # foreign keys, some of them missing from the primary column
        return [(2 * j) % (n + 1) for j in range(n)] if v == 0 else [(3 * j + 1) % (n + 2) for j in range(n)]
    if kind == 'fk':            # row indices into a 4-row primary key, with spans
        return [min(3, j // 2) for j in range(n)] if v == 0 else [3 - min(3, j // 2) for j in range(n)]
    raise ValueError(kind)


# name -> (primary role, its kind, secondary role, its kind, builder(P, Q, v, d, e))
WT = {
    'gi': ('T', 'perm', 'F', 'any', lambda P, Q, v, d, e: {'op': 'gi', 'T': P, 'F': Q, 'form': 'f', 'dest': 'naf'[v % 3], 'h5': 1}),
    'join': ('fk', 'fk', None, None, lambda P, Q, v, d, e: {'op': 'join', 'typed': 1, 'n': 4, 'fk': P, 'vals': _tsrc(_nruns(P), d), 'vdt': d,
                                                          'form': 'f', 'writer': v % 2, 'h5': 1}),
    'ml': ('R', 'perm', 'L', 'any', lambda P, Q, v, d, e: {'op': 'ml', 'typed': 1, 'L': Q, 'R': P, 'form': 'f', 'wr': v % 2, 'h5': 1,
                                                         'rp': [['n', _tsrc(len(P), d), d], ['i', _istr(len(P), 0)]]}),
    'mr': ('L', 'perm', 'R', 'any', lambda P, Q, v, d, e: {'op': 'mr', 'typed': 1, 'L': P, 'R': Q, 'form': 'f', 'wr': v % 2, 'h5': 1,
                                                         'lp': [['i', _istr(len(P), 1)], ['n', _tsrc(len(P), d, 2), d]]}),
    'mi': ('R', 'perm', 'L', 'any', lambda P, Q, v, d, e: {'op': 'mi', 'typed': 1, 'L': Q, 'R': P, 'form': 'f', 'wr': v % 2, 'h5': 1,
                                                         'lp': [['n', _tsrc(len(Q), e), e]], 'rp': [['n', _tsrc(len(P), d, 1), d]]}),
    'oml-s': ('R', 'strict', 'L', 'sorted', lambda P, Q, v, d, e: _toml(Q, P, [d], 'fs', 'f', (3, None, 4, 3)[v % 4], h5=1, swap=v % 2)),
    'oml-f': ('R', 'strict', 'L', 'sorted', lambda P, Q, v, d, e: _toml(Q, P, [d, e], 'f', 'n', None, h5=1, swap=v % 2)),
    'oml-fs': ('R', 'strict', 'L', 'sorted', lambda P, Q, v, d, e: _toml(Q, P, [e], 'fs', 'n', None, h5=1)),
    'omi': ('R', 'strict', 'L', 'sorted', lambda P, Q, v, d, e: {'op': 'omi', 'typed': 1, 'L': Q, 'R': P, 'lu': 0, 'ru': 0, 'n': _n_inner(Q, P),
                                                               'form': ['fs', 'f'][v % 2], 'h5': 1, 'ldt': [d], 'rdt': [e],
                                                               'lsrcs': [_tsrc(len(Q), d)], 'rsrcs': [_tsrc(len(P), e, 1)]}),
}
# payload roles of each template and the table (0: the primary key's, 1: the secondary key's) their columns belong to
WPAY = {'gi': [], 'join': [('vals', 1)], 'ml': [('rp', 0)], 'mr': [('lp', 0)], 'mi': [('lp', 1), ('rp', 0)], 'oml': [('srcs', 0)],
        'omi': [('lsrcs', 1), ('rsrcs', 0)]}
WNAMES = list(WT)
# where the columns of a LATER call live relative to the first call's ('d0/a':'id' and 'd0/c':'pid')
WPLACE = {
    'first': (['d0/a', 'id'], ['d0/c', 'pid']),
    'other-frame': (['d0/b', 'id'], ['d0/e', 'pid']),
    'other-dataset': (['d1/a', 'id'], ['d1/c', 'pid']),
    'in-place': (['d0/a', 'id', 0], ['d0/c', 'pid', 0]),
    'rewritten': (['d0/a', 'id', 1], ['d0/c', 'pid', 1]),
    'replaced': (['d0/a', 'id', 2], ['d0/c', 'pid', 2]),
    'other-name': (['d0/a', 'id2'], ['d0/c', 'pid2']),
}
WMODES = ['other-frame', 'other-dataset', 'in-place', 'rewritten', 'replaced', 'other-name']
WKM = [None, 'i64', 'i64p53', 'S8']


def _wcall(t, n, v, place, cnt, km=None, dc=None, po=0):
    """template t on key columns of n rows, content variant v, living at `place`; dc selects the payload dtypes, po rotates
    the payload contents (two calls with equal dc and different po: same names, lengths and dtypes, other values)"""
    pr, pk, sr, sk, build = WT[t]
    dc = cnt if dc is None else dc
    d = DTYPES[(3 * dc) % len(DTYPES)]
    e = DTYPES[(3 * dc + 7) % len(DTYPES)]
    c = build(_wkeys(pk, n, v), _wkeys(sk, n + 1, v) if sr else None, cnt, d, e)
    if po:
        for role, dts in (('srcs', 'sdt'), ('lsrcs', 'ldt'), ('rsrcs', 'rdt')):
            if role in c:
                c[role] = [_tsrc(len(col), dt, po + 3 * k) for k, (col, dt) in enumerate(zip(c[role], c[dts]))]
        for role in ('lp', 'rp'):
            if role in c:
                c[role] = [[p[0], _tsrc(len(p[1]), p[2], po + 3 * k), p[2]] if p[0] == 'n' else [p[0], _istr(len(p[1]), po + k)]
                           for k, p in enumerate(c[role])]
        if 'vals' in c:
            c['vals'] = _tsrc(len(c['vals']), c['vdt'], po)
    at = {pr: list(WPLACE[place][0])}
    if sr:
        at[sr] = list(WPLACE[place][1])
    # numeric payload columns live next to their key column under the names val0, val1 ... (the names collide between
    # the tables exactly as the key names do; the model receives their content with the call)
    for role, slot in WPAY[t.split('-')[0]]:
        fr, mode = WPLACE[place][slot][0], (WPLACE[place][slot][2:] or [0])[0]
        suffix = '2' if place == 'other-name' else ''
        if role == 'vals':
            at[role] = [fr, 'val' + suffix, mode]
        elif role in ('lp', 'rp'):
            at[role] = [[fr, 'val%d%s' % (k, suffix), mode] if p[0] == 'n' else None for k, p in enumerate(c[role])]
        else:
            at[role] = [[fr, 'val%d%s' % (k, suffix), mode] for k in range(len(c[role]))]
    c['at'] = at
    if km is not None and t != 'join':
        c['km'] = km
    return c


def _gen_world(big, rng):
    from harness import hot
    cnt = 0
    combos = [(m, dl, v) for m in WMODES for dl in (0, 1) for v in (0, 1)]
    for i, a in enumerate(WNAMES):
        for j, b in enumerate(WNAMES):
            full = big or a == b or 'gi' in (a, b)
            for ci, (m, dl, v) in enumerate(combos):
                cnt += 1
                if not full and (ci + 5 * (i * len(WNAMES) + j)) % 4:
                    continue
                n = 4 + cnt % 2
                km = WKM[cnt % len(WKM)]
                km2 = WKM[(cnt + 1) % len(WKM)] if cnt % 5 == 0 else km          # the dtype under the name changes
                dc2 = cnt + 1 if cnt % 4 == 3 else cnt                             # payload dtypes: mostly the same in both calls
                yield {'op': 'hist', 'calls': [_wcall(a, n, 0, 'first', cnt, km),
                                               _wcall(b, n + dl, v, m, cnt + 1, km2, dc=dc2, po=1 if (v or cnt % 2) else 0)]}
    # the first call again after a same-named column was used / after its own column was overwritten or replaced
    for _ in range(1500 if big else 200):
        cnt += 1
        a, b = rng.choice(WNAMES), rng.choice(WNAMES)
        n = rng.randint(2, 7)
        km = rng.choice(WKM)
        m = rng.choice(WMODES)
        c1 = _wcall(a, n, 0, 'first', cnt, km)
        c2 = _wcall(b, n + rng.choice([0, 0, 1]), rng.randint(0, 1), m, cnt + 1, km, dc=cnt, po=rng.randint(0, 2))
        back = rng.choice(['in-place', 'rewritten', 'replaced'])
        c3 = _wcall(a, n, rng.choice([0, 0, 1]), back, cnt, km, po=rng.choice([0, 0, 3]))
        calls = [c1, c2, c3]
        if rng.random() < 0.3:
            calls.append(_wcall(rng.choice(WNAMES), n, 1, rng.choice(WMODES), cnt + 2, km, dc=cnt, po=4))
        yield {'op': 'hist', 'calls': calls}
    # change-directed: column lengths around every new small literal of the tree under test
    for K in hot.hot_sizes():
        if K > 400:
            continue
        for n in sorted(set(max(1, x) for x in (K - 1, K, K + 1))):
            for t in WNAMES:
                for m in ('other-frame', 'in-place', 'replaced'):
                    cnt += 1
                    yield {'op': 'hist', 'calls': [_wcall(t, n, 0, 'first', cnt), _wcall(t, n, 1, m, cnt + 1, dc=cnt, po=1)]}


def _gen_alias(big, rng):
    """one call whose arguments are one object: a payload that IS the right key column, the same payload twice,
    the left and the right key the same column"""
    cnt = 0
    kms = list(KMAPS) if big else ['i32', 'i64p53', 'u64hi', 'f64', 'i8lo', 'f32']
    for km in kms:
        for L, R in KP:
            for form, mapk, cs in TFORMS[:8]:
                cnt += 1
                if not big and cnt % 2:
                    continue
                kc, kd = key_canon(km, R)
                other = DTYPES[cnt % len(DTYPES)]
                # right key as payload (first or second position)
                srcs = [kc, _tsrc(len(R), other, 1)]
                sdt = [kd, other]
                names = ['kR', None]
                if cnt % 4 >= 2:
                    srcs, sdt, names = srcs[::-1], sdt[::-1], names[::-1]
                yield {'op': 'oml', 'typed': 1, 'L': L, 'R': R, 'lu': 0, 'ru': 1, 'srcs': srcs, 'sdt': sdt, 'form': form,
                       'mapk': mapk, 'cs': cs, 'km': km, 'reg': {'R': 'kR', 'srcs': names}}
    for d in DTYPES:
        for L, R in KP[:5]:
            for form, mapk, cs in TFORMS[:8]:
                cnt += 1
                if not big and cnt % 3:
                    continue
                p = _tsrc(len(R), d)
                # the same payload object in two positions, with a third one between them
                yield {'op': 'oml', 'typed': 1, 'L': L, 'R': R, 'lu': 0, 'ru': 1, 'srcs': [p, _tsrc(len(R), 'float64', 2), p],
                       'sdt': [d, 'float64', d], 'form': form, 'mapk': mapk, 'cs': cs, 'reg': {'srcs': ['p', None, 'p']}}
    for K in ([0, 1, 2, 3], [1, 4], [], [5]):
        for form, mapk, cs in TFORMS[:8]:
            for lu in (0, 1):
                cnt += 1
                d = DTYPES[cnt % len(DTYPES)]
                # self-merge: left and right key are one column (and the payload is that column, too)
                kc, kd = key_canon('i64', K)
                yield {'op': 'oml', 'typed': 1, 'L': K, 'R': K, 'lu': lu, 'ru': 1, 'srcs': [_tsrc(len(K), d), kc], 'sdt': [d, kd],
                       'form': form, 'mapk': mapk, 'cs': cs, 'km': 'i64', 'reg': {'L': 'k', 'R': 'k', 'srcs': [None, 'k']}}


NONSTREAM = [('a', 'n'), ('a', 'a'), ('as', 'n'), ('f', 'n'), ('fs', 'n'), ('f', 'f'), ('fs', 'a')]


def _gen_flagforms(big, rng):
    """the TYPE FORM of scalar arguments: truthful uniqueness hints as numpy booleans / np.all(...) results / Python and
    numpy integers 0/1 / 0-d arrays, chunk sizes as numpy integers, invalid markers as Python ints — through every entry
    point that takes them.  The expected value only depends on the truth value (Props/C19_flags.v)."""
    from harness import hot
    cnt = 0
    allf = FLAGF
    pairs = [(a, b) for a in allf for b in allf if (a, b) != ('b', 'b')]
    # (1) ordered_merge_left / _right: every (left form, right form) x every argument form (streamed at 3 chunk sizes +
    # the 7 in-memory forms) x the truthful flag values, on key pairs with runs of equal left keys / strictly increasing
    oforms = [('fs', 'f', 1), ('fs', 'f', 2), ('fs', 'f', None)] + [(f, m, None) for f, m in NONSTREAM]
    kps = [([0, 0, 1, 3], [0, 1, 2]), ([0, 1, 1, 1, 2, 4, 4], [1, 2, 3, 4]), ([1, 2, 3], [0, 2, 3, 5])]
    for fl, fr in pairs:
        for form, mapk, cs in oforms:
            for L, R in kps:
                for lu in ((0, 1) if _strict(L) else (0,)):
                    for swap in ((0, 1) if big else (cnt % 2,)):
                        cnt += 1
                        srcs = [_src(len(R), c) for c in range(2 if cnt % 5 == 0 else 1)]
                        yield {'op': 'oml', 'L': L, 'R': R, 'lu': lu, 'ru': 1, 'srcs': srcs, 'form': form, 'mapk': mapk, 'cs': cs,
                               'swap': swap, 'ff': [fl, fr], 'kt': ('int32', 'int64')[cnt % 2]}
    # (2) the exhaustive key pairs again, the flag forms rotating: one streamed call (chunk size rotating) and one
    # in-memory form per (pair, flag value)
    n3, k3 = (5, 4) if big else (4, 4)
    seqs3 = list(_nondecr(n3, k3))
    for L in seqs3:
        for R in seqs3:
            if not _strict(R):
                continue
            for lu in ((0, 1) if _strict(L) else (0,)):
                cnt += 1
                fl, fr = pairs[cnt % len(pairs)]
                base = {'op': 'oml', 'L': L, 'R': R, 'lu': lu, 'ru': 1, 'srcs': [_src(len(R), 0)], 'ff': [fl, fr]}
                cs = (list(range(1, n3 + 2)) + [None])[cnt % (n3 + 2)]
                yield dict(base, form='fs', mapk='f', cs=cs, swap=cnt % 2, csf=(None, 'ni', None, 'np')[cnt % 4] if cs else None)
                form, mapk = NONSTREAM[(cnt // 2) % 7]
                yield dict(base, form=form, mapk=mapk, cs=None, swap=(cnt // 2) % 2)
    # (3) hints the call rejects (right key not unique), in every form: the same ValueError as with Python bools
    for fl in allf:
        for fr in allf:
            for lu in (0, 1):
                cnt += 1
                L, R = ([0, 1, 2], [1, 1, 2]) if cnt % 2 else ([0, 0, 2], [0, 2])
                if lu and not _strict(L):
                    L = [0, 1, 2]
                for form, mapk, cs in (('a', 'n', None), ('fs', 'f', 2), ('fs', 'n', None)):
                    yield {'op': 'oml', 'L': L, 'R': R, 'lu': lu, 'ru': 0, 'srcs': [_src(len(R), 0)], 'form': form, 'mapk': mapk,
                           'cs': cs, 'swap': cnt % 2, 'ff': [fl, fr]}
    # (4) ordered_merge_inner: every (left form, right form) x 4 argument forms x truthful flag combinations, duplicates on
    # both sides (cartesian blocks), on one side, on none
    ikps = [([0, 1, 1, 3], [1, 1, 2, 3]), ([0, 2, 4], [0, 1, 1, 2, 2]), ([1, 1, 2], [1, 2]), ([0, 2, 4], [0, 1, 2, 4])]
    for fl, fr in pairs:
        for form in ('a', 'as', 'f', 'fs'):
            for L, R in ikps:
                for lu in ((0, 1) if _strict(L) else (0,)):
                    for ru in ((0, 1) if _strict(R) else (0,)):
                        cnt += 1
                        yield {'op': 'omi', 'L': L, 'R': R, 'lu': lu, 'ru': ru, 'n': _n_inner(L, R), 'form': form, 'ff': [fl, fr],
                               'lsrcs': [_src(len(L), c) for c in range(2 if cnt % 4 == 0 else 1)], 'rsrcs': [_src(len(R), 5)]}
    seqs4 = list(_nondecr(5 if big else 4, 3))
    for L in seqs4:
        for R in seqs4:
            for lu in ((0, 1) if _strict(L) else (0,)):
                for ru in ((0, 1) if _strict(R) else (0,)):
                    cnt += 1
                    fl, fr = pairs[cnt % len(pairs)]
                    yield {'op': 'omi', 'L': L, 'R': R, 'lu': lu, 'ru': ru, 'n': _n_inner(L, R), 'form': ['a', 'as', 'f', 'fs'][cnt % 4],
                           'ff': [fl, fr], 'lsrcs': [_src(len(L), 0)], 'rsrcs': [_src(len(R), 5)]}
    # (5) typed payloads, HDF5-backed fields, h5py.Group arguments, key dtypes; histories: the same call with numpy flags
    # and then with Python flags (and the other way round) on shared argument objects
    for d in (DTYPES if big else ('int8', 'int64', 'uint64', 'float64', 'bool', 'S3')):
        for form, mapk, cs in TFORMS:
            cnt += 1
            fl, fr = pairs[(7 * cnt) % len(pairs)]
            L, R = KP[cnt % len(KP)]
            lu = cnt % 2 if _strict(L) else 0
            kw = {}
            if form in ('f', 'fs') and cnt % 3 == 0:
                kw['h5'] = 1
                if cnt % 2 == 0:
                    kw['grp'] = 1
            if cnt % 4 == 0:
                kw['km'] = list(KMAPS)[cnt % len(KMAPS)]
            c = _toml(L, R, [d, 'int64'], form, mapk, cs, lu=lu, swap=cnt % 2, ff=[fl, fr], **kw)
            yield c
            if cnt % 2:
                c0 = dict(c, reg={'L': 'kL', 'R': 'kR', 'srcs': ['p0', 'p1']})
                c1 = dict(c0); del c1['ff']
                yield {'op': 'hist', 'calls': [c0, c1] if cnt % 4 == 1 else [c1, c0]}
        for k, (L, R) in enumerate(ikps):
            cnt += 1
            fl, fr = pairs[(5 * cnt) % len(pairs)]
            d2 = DTYPES[(DTYPES.index(d) + 5) % len(DTYPES)]
            yield {'op': 'omi', 'typed': 1, 'L': L, 'R': R, 'lu': 0, 'ru': 1 if _strict(R) and cnt % 2 else 0, 'n': _n_inner(L, R),
                   'form': ['a', 'as', 'f', 'fs'][cnt % 4], 'ldt': [d, d2], 'rdt': [d2], 'ff': [fl, fr], 'h5': 1 if cnt % 3 == 0 else 0,
                   'lsrcs': [_tsrc(len(L), d), _tsrc(len(L), d2, 4)], 'rsrcs': [_tsrc(len(R), d2, 1)]}
    # (6) chunk sizes as numpy integers (the wrapped chunksize= defaults and ops.DEFAULT_CHUNKSIZE), streamed form and the
    # deprecated helpers; invalid markers of the kernels as Python ints
    for csf in ('ni', 'n32', 'np'):
        for L, R in KP:
            for cs in (1, 2, 3, 5):
                cnt += 1
                yield dict({'op': 'oml', 'L': L, 'R': R, 'lu': cnt % 2 if _strict(L) else 0, 'ru': 1, 'srcs': [_src(len(R), 0)],
                            'form': 'fs', 'mapk': 'f', 'cs': cs, 'swap': cnt % 2, 'csf': csf},
                           **({'ff': list(pairs[cnt % len(pairs)])} if cnt % 2 else {}))
                yield _toml(L, R, [DTYPES[cnt % len(DTYPES)], 'float64'], 'fs', 'f', cs, csf=csf, h5=cnt % 2)
    seqs2 = list(_nondecr(3, 3))
    for L in seqs2:
        for R in seqs2:
            cnt += 1
            if _strict(R):
                yield {'op': 'klru', 'L': L, 'R': R, 'n': len(L), 'inv': (INV64, -1)[cnt % 2], 'invf': 'py'}
                if _strict(L):
                    yield {'op': 'klbu', 'L': L, 'R': R, 'n': len(L), 'inv': (INV64, -1)[cnt % 2], 'invf': 'py'}
                yield {'op': 'ksold', 'L': L, 'R': R, 'cs': 1 + cnt % 3, 'inv': INV64, 'dst': 'fa'[cnt % 2],
                       'csf': ('ni', 'n32', 'np')[cnt % 3], 'invf': ('py', None)[cnt % 2]}
    for nm in range(0, 4):
        for mp in itertools.product([0, 1, 2, None], repeat=nm):
            vs = [x for x in mp if x is not None]
            if any(a > b for a, b in zip(vs, vs[1:])):
                continue
            cnt += 1
            yield {'op': 'kmvold', 'data': [10, 20, 30], 'map': [INV64 if x is None else x for x in mp], 'cs': 1 + cnt % 3,
                   'inv': INV64, 'dst': 'fa'[cnt % 2], 'csf': ('ni', 'n32', 'np')[cnt % 3], 'invf': ('py', None)[(cnt // 3) % 2]}
    # (7) change-directed: a changed source file buys random longer cases with random scalar forms
    if hot.changed():
        for _ in range(3000 if big else 800):
            cs = rng.choice([1, 2, 3, 4, 5, 8, None])
            key, L, R = 0, [], []
            tl, tr = rng.randint(0, 16), rng.randint(0, 16)
            while len(L) < tl:
                key += rng.choice([1, 1, 2])
                L.extend([key] * rng.choice([1, 1, 1, 2, 3]))
            ff = [rng.choice(allf), rng.choice(allf)]
            if rng.random() < 0.5:
                key = 0
                while len(R) < tr:
                    key += rng.choice([1, 1, 2]); R.append(key)
                form, mapk, cs_ = rng.choice(TFORMS)
                yield _toml(L, R, [rng.choice(DTYPES) for _ in range(rng.choice([1, 2, 3]))], form, mapk,
                            cs if (form, mapk) == ('fs', 'f') else None, lu=1 if _strict(L) and rng.random() < 0.5 else 0,
                            swap=rng.randint(0, 1), ff=ff, csf=rng.choice([None, 'ni', 'np']))
            else:
                R = sorted(rng.randint(0, 12) for _ in range(tr))
                yield {'op': 'omi', 'L': L, 'R': R, 'lu': 1 if _strict(L) and rng.random() < 0.5 else 0,
                       'ru': 1 if _strict(R) and rng.random() < 0.5 else 0, 'n': _n_inner(L, R), 'form': rng.choice(['a', 'as', 'f', 'fs']),
                       'ff': ff, 'lsrcs': [_src(len(L), 0)], 'rsrcs': [_src(len(R), 5)]}


MIX_QUICK = [('int32', 'int64'), ('int64', 'int32'), ('int8', 'uint8'), ('uint8', 'int8'), ('int64', 'uint64'), ('uint16', 'int64'),
             ('int16', 'int8'), ('uint32', 'int32'), ('int32', 'float64'), ('float64', 'int64')]
MIX_MORE = [('uint64', 'int64'), ('int64', 'uint16'), ('int8', 'int16'), ('int32', 'uint32'), ('uint8', 'int64'), ('int16', 'int32'),
            ('uint32', 'uint64'), ('int64', 'int8'), ('uint8', 'float32'), ('float32', 'int16')]


def _mix_pairs(big):
    from harness import hot
    if big:
        return [(a, b) for a in INT_DTYPES for b in INT_DTYPES if a != b] + \
               [p for d in ('int8', 'int32', 'int64', 'uint16', 'uint64') for fl in ('float32', 'float64') for p in ((d, fl), (fl, d))]
    return MIX_QUICK + (MIX_MORE if hot.changed() else [])      # one numba specialisation of every kernel per pair: a sample


def _dups(xs, which):
    """xs with the symbols at the positions `which` doubled"""
    out = []
    for i, x in enumerate(xs):
        out.extend([x, x] if i in which else [x])
    return out


def _gen_mixed_keys(big, rng):
    """the two key columns have DIFFERENT integer dtypes (width and / or signedness) and hold values that are outside the
    other side's range and collide, under a cast to the other dtype, with a key that is there: every entry point, every
    argument form.  The model joins the key symbols (mathematical integers)."""
    cnt = 0
    oforms = [('fs', 'f', 1), ('fs', 'f', 3), ('fs', 'f', None)] + [(f, m, None) for f, m in NONSTREAM]
    for A, B in _mix_pairs(big):
        vals, okA, okB = mix_syms(A, B)
        onlyA = [k for k in okA if k not in okB]
        onlyB = [k for k in okB if k not in okA]
        both = [k for k in okA if k in okB]
        # left key: all its symbols, runs of equal keys at the ends / in the middle; right key (unique): all its symbols,
        # or only those the left dtype cannot hold (nothing may match) plus one common key
        lefts = [okA, _dups(okA, (0, len(okA) - 1)), _dups(okA, (1, 2)), both[:1] + onlyA, _dups(both, (0, 1, 2, 3))]
        rights = [okB, sorted(onlyB + both[-1:]), sorted(onlyB + both[:1]), both, onlyB]
        kps = []
        for L in lefts:
            for R in rights:
                if (L, R) not in kps and (L or R):
                    kps.append((L, R))
        for pi, (L, R) in enumerate(kps):
            for fi, (form, mapk, cs) in enumerate(oforms):
                if not big and (pi + fi) % 2:
                    continue
                cnt += 1
                yield {'op': 'oml', 'L': L, 'R': R, 'lu': (cnt % 2 if _strict(L) else 0), 'ru': 1,
                       'srcs': [_src(len(R), c) for c in range(2 if cnt % 5 == 0 else 1)], 'form': form, 'mapk': mapk, 'cs': cs,
                       'swap': (cnt // 2) % 2, 'kmx': [A, B], 'h5': 1 if form in ('f', 'fs') and cnt % 7 == 0 else 0}
        # ordered_merge_inner: duplicates on either side, all four argument forms
        rdups = [okB, _dups(okB, (0, len(okB) - 1)), _dups(sorted(onlyB + both[:2]), (0, 1)), onlyB]
        for pi, L in enumerate(lefts):
            for ri, R in enumerate(rdups):
                for fi, form in enumerate(('a', 'as', 'f', 'fs')):
                    if not big and (pi + ri + fi) % 2:
                        continue
                    cnt += 1
                    lu = 1 if _strict(L) and cnt % 2 else 0
                    ru = 1 if _strict(R) and (cnt // 2) % 2 else 0
                    yield {'op': 'omi', 'L': L, 'R': R, 'lu': lu, 'ru': ru, 'n': _n_inner(L, R), 'form': form, 'kmx': [A, B],
                           'lsrcs': [_src(len(L), 0)], 'rsrcs': [_src(len(R), 5)]}
        # merge_left / merge_right / merge_inner (keys in any order) and get_index
        for v in range(3 if big else 2):
            Lu = [rng.choice(okA) for _ in range(rng.randint(3, 7))] + (onlyA[:1] + both[:1])
            Ru = [rng.choice(okB) for _ in range(rng.randint(3, 7))] + (onlyB[:2] + both[:1])
            rng.shuffle(Lu); rng.shuffle(Ru)
            if v == 0:
                Lu, Ru = sorted(Lu), sorted(Ru)
            for op in ('ml', 'mr', 'mi'):
                for form in 'af':
                    cnt += 1
                    yield {'op': op, 'L': Lu, 'R': Ru, 'form': form, 'wr': cnt % 2, 'kmx': [A, B],
                           'lp': [['n', _src(len(Lu), 0)]], 'rp': [['n', _src(len(Ru), 5)]]}
            yield {'op': 'gi', 'T': Ru, 'F': Lu, 'form': 'af'[v % 2], 'dest': 'naf'[v % 3], 'kmx': [A, B]}
        # random sorted columns over the symbols of each side
        for _ in range(40 if big else 12):
            cnt += 1
            L = sorted(rng.choice(okA) for _ in range(rng.randint(0, 9)))
            R = sorted(set(rng.choice(okB) for _ in range(rng.randint(0, 9))))
            form, mapk, cs = rng.choice(oforms)
            if cs is not None:
                cs = rng.randint(1, 4)
            yield {'op': 'oml', 'L': L, 'R': R, 'lu': 1 if _strict(L) and rng.random() < 0.5 else 0, 'ru': 1, 'srcs': [_src(len(R), 0)],
                   'form': form, 'mapk': mapk, 'cs': cs, 'swap': rng.randint(0, 1), 'kmx': [A, B]}
            R2 = sorted(rng.choice(okB) for _ in range(rng.randint(0, 9)))
            yield {'op': 'omi', 'L': L, 'R': R2, 'lu': 0, 'ru': 0, 'n': _n_inner(L, R2), 'form': rng.choice(['a', 'as', 'f', 'fs']),
                   'kmx': [A, B], 'lsrcs': [_src(len(L), 0)], 'rsrcs': [_src(len(R2), 5)]}


def _gen_hot(big, rng):
    """change-directed: a small integer literal that is new in the tree under test (harness/hot.py) is used as chunk size,
    column length, run length and number of payloads"""
    from harness import hot
    for K in hot.hot_sizes():
        nrand = (400 if big else 120) if K <= 600 else (40 if big else 12)

        def side(target, unique, cs):
            xs, key = [], 0
            while len(xs) < target:
                key += rng.choice([1, 1, 2])
                run = 1 if unique else rng.choice([1, 1, 2, K - 1, K, K + 1, max(1, cs - 1)])
                xs.extend([key] * max(1, min(run, target - len(xs))))
            return xs
        for _ in range(nrand):
            cs = max(1, rng.choice([K - 1, K, K + 1, 2 * K, None, None]) or 0) or None
            base = cs or K
            tl = rng.choice([K - 1, K, K + 1, 2 * K, 2 * K + 1, base - 1, base, base + 1, 2 * base + 1, 3 * base])
            tr = rng.choice([K - 1, K, K + 1, 2 * K, 2 * K + 1, base - 1, base, base + 1, 2 * base + 1, 3 * base])
            lu = rng.random() < 0.3
            L = side(max(0, tl), lu, base)
            R = side(max(0, tr), True, base)
            npay = rng.choice([1, 2, 3] + ([K - 1, K, K + 1] if K <= 8 else []))
            sdt = [rng.choice(DTYPES) for _ in range(max(1, npay))]
            form, mapk = rng.choice([('fs', 'f')] * 4 + [('a', 'n'), ('fs', 'n'), ('as', 'n'), ('f', 'n')])
            c = _toml(L, R, sdt, form, mapk, cs if (form, mapk) == ('fs', 'f') else None, lu=1 if lu else 0,
                      offs=[rng.randrange(12) for _ in sdt], swap=rng.randint(0, 1))
            if rng.random() < 0.25:
                c2 = _toml(R[:max(1, len(R) // 2)], R, [rng.choice(DTYPES)], 'fs', 'f', cs)
                yield {'op': 'hist', 'calls': [c, c2]}
            else:
                yield c
        # the other entry points with column lengths around K (K small enough for the quadratic specification)
        if K <= 400:
            for n in sorted(set(max(0, x) for x in (K - 1, K, K + 1, 2 * K, 2 * K + 1))):
                for v in range(3 if big else 2):
                    L = sorted(rng.randint(0, n) for _ in range(n))
                    R = sorted(rng.randint(0, n) for _ in range(max(0, n + rng.choice([-1, 0, 1]))))
                    d = rng.choice(DTYPES)
                    yield {'op': 'omi', 'typed': 1, 'L': L, 'R': sorted(set(R)), 'lu': 0, 'ru': 1, 'n': _n_inner(L, sorted(set(R))),
                           'form': rng.choice(['a', 'as', 'f', 'fs']), 'ldt': [d], 'rdt': ['int64'],
                           'lsrcs': [_tsrc(len(L), d)], 'rsrcs': [_tsrc(len(set(R)), 'int64', 2)]}
                    Lu = [rng.randint(0, n) for _ in range(n)]
                    Ru = [rng.randint(0, n) for _ in range(n)]
                    op = rng.choice(['ml', 'mr', 'mi'])
                    yield {'op': op, 'typed': 1, 'L': Lu, 'R': Ru, 'form': 'f', 'wr': rng.randint(0, 1),
                           'lp': [['n', _tsrc(len(Lu), d), d], ['i', _istr(len(Lu), 1)]],
                           'rp': [['i', _istr(len(Ru), 0)], ['n', _tsrc(len(Ru), d, 3), d]]}
                    yield {'op': 'gi', 'T': Ru, 'F': Lu, 'form': 'af'[v % 2], 'dest': 'naf'[v % 3]}
                    fk = sorted(rng.randint(0, max(0, n - 1)) for _ in range(n)) if n else []
                    yield {'op': 'join', 'typed': 1, 'n': n, 'fk': fk, 'vals': _tsrc(_nruns(fk), d), 'vdt': d, 'form': 'af'[v % 2],
                           'writer': v % 2}


def _gen_changed(big, rng):
    """a larger random budget when a library source differs from the recorded tree"""
    from harness import hot
    if not hot.changed():
        return
    for _ in range(6000 if big else 1500):
        cs = rng.choice([1, 2, 3, 4, 5, 8, 16, None])
        key, L, R = 0, [], []
        tl, tr = rng.randint(0, 24), rng.randint(0, 24)
        while len(L) < tl:
            key += rng.choice([1, 1, 2])
            L.extend([key] * rng.choice([1, 1, 1, 2, 3]))
        key = 0
        while len(R) < tr:
            key += rng.choice([1, 1, 2]); R.append(key)
        sdt = [rng.choice(DTYPES) for _ in range(rng.choice([1, 2, 2, 3, 4]))]
        form, mapk, cs_ = rng.choice(TFORMS)
        kw = {}
        if rng.random() < 0.3:
            kw['km'] = rng.choice(KMAPS_WIDE if max(L + R + [0]) > KMAP_MAXSYM else list(KMAPS))
        if form in ('f', 'fs') and rng.random() < 0.15:
            kw['h5'] = 1
        c = _toml(L, R, sdt, form, mapk, cs if (form, mapk) == ('fs', 'f') else None,
                  lu=1 if _strict(L) and rng.random() < 0.5 else 0, offs=[rng.randrange(12) for _ in sdt], swap=rng.randint(0, 1), **kw)
        if rng.random() < 0.3:
            yield {'op': 'hist', 'calls': [c, _templates(rng.randrange(N_TEMPLATES), rng.randrange(6))]}
        else:
            yield c



def shrink(case):
    if case['op'] == 'hist':
        calls = case['calls']
        for i in range(len(calls)):
            if len(calls) > 1:
                yield dict(case, calls=calls[:i] + calls[i + 1:])
        if len(calls) == 1:
            yield calls[0]
        return
    for k in ('csf', 'invf'):
        if case.get(k):
            c = dict(case); del c[k]; yield c
    if case.get('ff'):
        ff = case['ff']
        c = dict(case); del c['ff']; yield c                     # both flags as Python bools
        for i in (0, 1):
            if ff[i] != 'b':
                yield dict(case, ff=[('b' if j == i else ff[j]) for j in (0, 1)])
            elif ff[1 - i] not in ('b', 'nb'):
                yield dict(case, ff=[('nb' if j != i else ff[j]) for j in (0, 1)])
    if case.get('typed') and case['op'] == 'oml' and len(case['srcs']) > 1:
        for i in range(len(case['srcs'])):
            c = dict(case)
            for k in ('srcs', 'sdt', 'kdt'):
                if case.get(k):
                    c[k] = case[k][:i] + case[k][i + 1:]
            if case.get('reg'):
                c['reg'] = {k: (v if isinstance(v, str) else v[:i] + v[i + 1:]) if k in ('srcs', 'sinks') else v
                            for k, v in case['reg'].items()}
            yield c
    for side in ('L', 'R', 'T', 'F', 'fk', 'map'):
        if side in case:
            xs = case[side]
            for i in range(len(xs)):
                c = dict(case); c[side] = xs[:i] + xs[i + 1:]
                if case['op'] == 'oml' and side == 'R':
                    c['srcs'] = [s[:i] + s[i + 1:] for s in case['srcs']]
                if case['op'] in ('omi', 'ml', 'mr', 'mi', 'join', 'kmvold'):
                    continue          # payload lengths are tied to the keys: keep these cases as they are
                if case['op'] in ('klru', 'klbu') and side == 'L':
                    c['n'] = max(0, case['n'] - 1)
                yield c
    if case.get('cs') and case['cs'] > 1:
        c = dict(case); c['cs'] = case['cs'] - 1; yield c


def warmup():
    cases = [{'op': 'klru', 'L': [1, 2], 'R': [2], 'n': 2, 'inv': INV64}, {'op': 'klbu', 'L': [1, 2], 'R': [2], 'n': 2, 'inv': INV64},
             {'op': 'kisz', 'L': [1, 2], 'R': [2]}, {'op': 'kim', 'L': [1, 2], 'R': [2], 'n': 1},
             {'op': 'kimlu', 'L': [1, 2], 'R': [2], 'n': 1}, {'op': 'kimbu', 'L': [1, 2], 'R': [2], 'n': 1},
             {'op': 'ksold', 'L': [1, 2], 'R': [2], 'cs': 1, 'inv': INV64}, {'op': 'kmvold', 'data': [1, 2], 'map': [0, 1], 'cs': 1, 'inv': INV64},
             {'op': 'ksold', 'L': [1, 2], 'R': [2], 'cs': 1, 'inv': INV64, 'dst': 'a'},
             {'op': 'kmvold', 'data': [1, 2], 'map': [0, 1], 'cs': 1, 'inv': INV64, 'dst': 'a'}]
    for form, mapk, cs in (('a', 'n', None), ('as', 'n', None), ('f', 'n', None), ('fs', 'n', None), ('fs', 'f', 2)):
        for lu in (0, 1):
            cases.append({'op': 'oml', 'L': [1, 2], 'R': [2, 3], 'lu': lu, 'ru': 1, 'srcs': [[5, 6]], 'form': form, 'mapk': mapk, 'cs': cs})
    for form in ('a', 'as', 'f', 'fs'):
        for lu, ru in ((0, 0), (0, 1), (1, 0), (1, 1)):
            cases.append({'op': 'omi', 'L': [1, 2], 'R': [2, 3], 'lu': lu, 'ru': ru, 'n': 1, 'form': form, 'lsrcs': [[5, 6]], 'rsrcs': [[7, 8]]})
    for op in ('ml', 'mr', 'mi'):
        cases.append({'op': op, 'L': [1, 2], 'R': [2, 2], 'form': 'f', 'wr': 0, 'lp': [['n', [1, 2]], ['i', [[97], []]]],
                      'rp': [['n', [3, 4]], ['i', [[98], [99]]]]})
    cases.append({'op': 'gi', 'T': [1, 2], 'F': [2, 3], 'form': 'a', 'dest': 'n'})
    cases.append({'op': 'join', 'n': 2, 'fk': [0, 1], 'vals': [3, 4], 'form': 'a', 'writer': 0})
    # one numba specialisation per payload dtype / key dtype: compile them once, before the worker forks
    for d in DTYPES:
        for form, mapk, cs in (('a', 'n', None), ('as', 'n', None), ('fs', 'f', 2)):
            cases.append(_toml([1, 2], [2, 3], [d], form, mapk, cs))
        cases.append({'op': 'ml', 'typed': 1, 'L': [1, 2], 'R': [2, 2], 'form': 'a', 'wr': 0, 'rp': [['n', [1, 1], d]]})
    for a, b in WIDEN:
        cases.append(_toml([1, 2], [2, 3], [a], 'fs', 'f', 2, kdt=[b]))
    seen = set()
    for km in KMAPS:               # one specialisation of the key kernels per key dtype (the rarer ones compile on first use)
        if KMAPS[km][0] in seen:
            continue
        seen.add(KMAPS[km][0])
        for lu in (0, 1):
            for form, mapk, cs in (('a', 'n', None), ('fs', 'f', 2)):
                cases.append(_toml([1, 2], [2, 3], ['int32'], form, mapk, cs, km=km, lu=lu))
    # one specialisation of the key kernels per PAIR of key dtypes (the quick tier's sample)
    for A, B in MIX_QUICK:
        vals, okA, okB = mix_syms(A, B)
        for lu in (0, 1):
            for form, mapk, cs in (('a', 'n', None), ('fs', 'f', 2)):
                cases.append({'op': 'oml', 'L': okA[:2], 'R': okB[:2], 'lu': lu, 'ru': 1, 'srcs': [[5, 6]], 'form': form, 'mapk': mapk,
                              'cs': cs, 'kmx': [A, B]})
            for ru in (0, 1):
                cases.append({'op': 'omi', 'L': okA[:2], 'R': okB[:2], 'lu': lu, 'ru': ru, 'n': _n_inner(okA[:2], okB[:2]), 'form': 'a',
                              'lsrcs': [[5, 6]], 'rsrcs': [[7, 8]], 'kmx': [A, B]})
    # numpy-integer chunk sizes (np.int32 is another numba argument type than int) and Python-int invalid markers
    for csf in ('ni', 'n32'):
        for lu in (0, 1):
            cases.append(_toml([1, 2], [2, 3], ['int32'], 'fs', 'f', 2, lu=lu, csf=csf))
        cases.append({'op': 'ksold', 'L': [1, 2], 'R': [2], 'cs': 1, 'inv': INV64, 'csf': csf, 'invf': 'py'})
        cases.append({'op': 'kmvold', 'data': [1, 2], 'map': [0, 1], 'cs': 1, 'inv': INV64, 'csf': csf, 'invf': 'py'})
    cases.append({'op': 'klru', 'L': [1, 2], 'R': [2], 'n': 2, 'inv': INV64, 'invf': 'py'})
    cases.append({'op': 'klbu', 'L': [1, 2], 'R': [2], 'n': 2, 'inv': -1, 'invf': 'py'})
    for c in cases:
        try:
            run(c)
        except Exception:
            pass


RULE = ('exhaustive over order-types: every pair of non-decreasing key sequences up to length 4 (thorough: 6) over 4 '
        'symbols for the six numba kernels and for Session.ordered_merge_left/right in every argument form (ndarray / '
        'ndarray sinks / field / field sinks / with and without map argument; 3 of the 7 in-memory forms per pair, '
        'rotating) and, in the streamed form, every chunk size 1..5 (thorough 1..7) plus the production default; pairs up '
        'to length 4 (thorough 6) over 3 symbols for ordered_merge_inner x truthful flag combinations x 2 of 4 argument '
        'forms (rotating); every pair of key sequences in ANY order up to length 3 (thorough 4) over 3 symbols for '
        'merge_left / merge_right / merge_inner (numeric + indexed-string payloads incl. empty strings, ndarray/field, '
        'with/without writers) and for get_index; every foreign-key index vector up to length 3 (thorough 4) for join; '
        'the deprecated *_old streaming helpers at every chunk size (correspondence of the as-found code only); cases '
        'outside the preconditions (unsorted keys, untruthful flags, rejected flag combinations, wrong buffer lengths, '
        'pre-filled destination arrays, empty payload tuple) are compared with the model only; plus seeded random longer '
        'cases with runs of equal left keys planted at chunk ends. Memory-backed fields (no HDF5 file per case). '
        'merge_inner is compared up to one consistent permutation of the output rows (pandas does not promise more). '
        'Non-trivial = at least one matched or unmatched key / missing key / invalid index is present. '
        'ELEMENT TYPES: every numeric dtype and fixed-width strings (int8..int64, uint8..uint64, bool, float32, float64, S1, S3, S8; values at the extremes of '
        'the dtype, beyond 2^31 / 2^53, fractions, NaN, -0.0, +-inf, compared by bit pattern together with the dtype of the '
        'returned column) alone in each of the 11 argument forms, every ordered PAIR of dtypes in one call (streamed at chunk '
        'sizes 1, 2 and the default, two in-memory forms, HDF5-backed), triples (thorough: all 1331), 4..8 payloads, sinks '
        'wider than their source, for ordered_merge_left/right; every ordered dtype pair for ordered_merge_inner; every dtype '
        'for merge_left/right/inner and join. KEY COLUMNS of every integer/float dtype and at the ends of their range '
        '(18 strictly increasing key maps incl. neighbours beyond 2^53, values equal modulo 2^32, the uint64 sign bit, fixed-width '
        'string keys with trailing spaces and bytes >= 0x80). '
        'HISTORIES: several calls on one Session in one case — every ordered pair of payload dtypes in two successive '
        'streamed calls, every ordered pair of 13 call templates (all entry points), the same call twice with fresh or '
        'shared argument objects, chained merges where the sink and the map field of one call are payloads of the next, '
        'growing and shrinking lengths. ALIASING: a payload that is the right key column, one payload object in two '
        'positions, left key = right key. h5py.Group arguments. Indexed-string payloads with multi-byte characters and '
        'entries of 255/256/257+ bytes. ops.DEFAULT_CHUNKSIZE is set to the case\'s chunk size together with the wrapped '
        'chunksize defaults. CHANGE-DIRECTED: small integer literals new in the tree under test become chunk sizes, column '
        'lengths, run lengths and payload counts; a changed source file adds 1500 (thorough 6000) random typed cases. '
        'SCALAR TYPE FORMS: the (truthful) uniqueness hints as Python bool / numpy bool / np.all(...) result / Python int / '
        'numpy int64 / numpy uint8 / 0-d boolean array — every ordered pair of (left form, right form) x the 10 argument forms '
        'of ordered_merge_left/right (streamed at chunk sizes 1, 2, default + 7 in-memory) and x the 4 forms of '
        'ordered_merge_inner x truthful flag values on key pairs with duplicates, the forms rotating over the exhaustive key '
        'pairs (length <= 4), rejected hints in every form, typed / HDF5 / h5py.Group / history variants; chunk sizes as '
        'np.int64 / np.int32 / np.intp; invalid markers of the kernels as Python ints. MIXED KEY DTYPES: the two key columns in '
        'different integer dtypes (quick: 8 ordered pairs, 16 when a source changed; thorough: all 56) holding values outside '
        'the other side\'s range that collide with a key there under a cast (c + s*2^w, c in {-1,1,2,7}: wrap-around at '
        '8/16/32/64 bits, sign reinterpretation) through ordered_merge_left/right (10 forms), ordered_merge_inner (4 forms), '
        'merge_left/right/inner and get_index; an integer key column against a float32/float64 one holding halves (a cast '
        'to the integer dtype truncates 1.5 to the key 1) in the same forms (quick 2 pairs, thorough 20). '
        'NAMED HDF5 COLUMNS (histories of calls on one Session whose key and numeric payload columns are HDF5-backed fields '
        'addressed by dataset/dataframe/column name): every ordered pair of 9 call templates (get_index, join, merge_left/'
        'right/inner, ordered_merge_left streamed / field / field-sink forms, ordered_merge_inner) x where the second call\'s '
        'columns live (same column names in another dataframe / in another dataset; the same path overwritten in place, '
        'cleared and rewritten, replaced by a same-named new field; other names: control) x {same, other length} x {same, '
        'other content} (all 24 combinations for equal templates and pairs with get_index, 6 of 24 rotating for the others; '
        'thorough: all), key dtypes int32/int64/beyond 2^53/S8 (changing under the name in 1 pair of 5), payload dtypes '
        'equal in 3 pairs of 4 with other values; 200 (thorough 1500) random histories of 3-4 calls that return to the '
        'first column after it was overwritten / replaced; column lengths K-1, K, K+1 around every new small literal K.')
EXHAUSTIVE = {'quick': True, 'thorough': True}
TRUSTED = ['numba code generation; numpy fancy indexing / boolean masks; MemoryField write / write_part (modelled as append)',
           'key columns: the model joins the key SYMBOLS, the real call their image under a strictly increasing map into the key '
           'dtype (the kernels only compare keys); payload values are integers / IEEE bit patterns on both sides; with mixed '
           'key dtypes the two sides are images of ONE strictly increasing map into the integers, each stored in its own dtype',
           'the type form of a hint (numpy bool, integer ...) is modelled by Model/FlagForm.v (py_eq_False / py_is_False as '
           'Python and numpy define == and `is` on these objects); the model entry receives the form on the wire',
           'pandas.merge(how=left) = rows of the relational left join in order, pandas.merge(how=inner) = some permutation of '
           'the matching pairs — explicit premises of the merge_* theorems, exercised here on every generated key pair',
           'Python dict semantics in get_index (modelled as an association list, newest binding first)',
           'named HDF5 columns: a Field argument is a handle to dataset/dataframe/column read at call time (Model/SessionWorld.v: '
           'world = columns by full path, newest first); the harness writes every key column a call names before the call and '
           'sends the call with holes at those argument positions, the model fills them from its world by full path; named '
           'payload columns travel with the call; destination fields are fresh unnamed fields',
           'the chunk size of the streamed form is varied by wrapping the operations-module attributes; the production '
           'default 2^20 is run on the real code and compared with the model at a chunk size just beyond both inputs '
           '(equal by the chunking-independence theorems)']
ASSUMPTIONS = ['ordered_* forms: keys sorted ascending, uniqueness flags truthful, right key unique (the call rejects anything else)',
               'a sink has the dtype of its source, or is an integer sink wide enough for every value of an integer/bool source '
               '(conversions from/to floating point and narrowing are not modelled and not generated); ndarray sinks have the '
               'source dtype (numba cannot compile map_valid for two different array types: observation O-C19f)',
               'key columns of both sides have the same dtype, two different integer dtypes, or an integer and a floating-point '
               'dtype with values the float dtype represents exactly (halves below 2^24; what equality of an int64 and a float64 '
               'beyond 2^53 means is not stated, not generated); float keys are not NaN',
               'uniqueness hints are values that are == True or == False (bool, numpy bool, 0/1 integers, 0-d boolean array); '
               'None, strings and other objects are not generated',
               'ndarray destination arrays are zero-initialised by the caller',
               'streamed form: no run of equal left keys as long as the chunk size (2^20 in production) — otherwise the documented ValueError',
               'fewer than 2^62 rows (INVALID_INDEX is not a row number); payload columns have the length of their key column']
TECHNIQUE = ('Coq proof (faithful model of the kernels, Session plumbing and — reused from C03/C04 — the streamed generators '
             '= relational join + payload mapping) + exhaustive small-scope differential correspondence against the repository')
LEVEL_TEXT = ('4 theorems in coq/Props/C19_world.v about coq/Model/SessionWorld.v (histories of calls on one Session whose arguments '
              'are named HDF5 columns: the result of a call is the result of that call alone on the columns its handles point to '
              'at that moment = the last column written to each FULL path; a same-named column of another dataframe / dataset is '
              'another column; earlier steps that do not write to those paths leave the result as in a fresh Session: '
              'session_world_history_call_alone / _lookup_last_write / _same_name_other_frame / _history_call_frame); '
              '9 theorems in coq/Props/C19_flags.v about coq/Model/FlagForm.v (the type form of the uniqueness hints: a hint compared '
              'by value is its truth value in every form, so ordered_merge_left/right/inner with numpy-bool / integer hints ARE the '
              'calls with Python bools; the identity test `is False` is refuted — F-C19g, ordered_merge_inner as found); '
              '6 theorems in coq/Props/C19_typed.v about coq/Model/SessionMergeTyped.v (element types: every payload of a '
              'call is mapped on its own, in the dtype its argument form prescribes, whatever the other payloads, sinks and '
              'earlier calls: ordered_merge_left_typed_inmemory_correct / _streamed_correct / _payloads_independent, '
              'session_history_call_alone) and '
              '26 theorems in coq/Props/C19.v (all closed under the global context) about the Gallina model '
              'coq/Model/SessionMerge.v: the six non-streamed kernels equal the relational left/inner join for all sorted '
              'inputs; Session.ordered_merge_left/right return left_payload in every in-memory form and in the streamed form '
              'for every chunk size (both-unique: always; right-unique: or the documented long-run ValueError), all forms '
              'agree; ordered_merge_inner returns the inner-join payloads for all four flag combinations and forms; '
              'get_index, join; merge_left/right/inner relative to pandas.merge = relational join; the as-found streamed form '
              'is refuted (F-C19a/b/c). The model is tied to the repository by exhaustive small-scope differential runs of '
              'the real Session methods and kernels (~6.5e4 cases per quick run, 2 modes).')
LEVEL_NOTE = ('Trusted: Coq kernel, extraction, harness, numba/numpy/pandas. pandas.merge is a Section hypothesis. '
              'Session.ordered_merge_left is modelled as repaired by work/C19/fix-F-C19a.diff and fix-F-C19c.diff; the '
              'deprecated *_old helpers are modelled as found (defective, no longer called by Session). '
              'Session.ordered_merge_inner is modelled as repaired by work/TC19/fix-F-C19g.diff (hints compared by value).')
