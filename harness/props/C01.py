"""C01 — field storage round-trip (exetera/core/fields.py, data_writer.py, session/dataset/dataframe)
vs coq/Model/IdxWriter.v.

Case kinds
  idx    an indexed-string field (memory- or HDF5-backed) with a given chunksize receives a history of
         write_part / complete / write / clear calls; offsets, bytes, every slice 0<=a<=b<=n through the
         Writeable and the ReadOnly wrapper and every item are observed, in the session and (HDF5) after
         close + reopen 'r'.
  plain  a numeric / timestamp / fixed-string / categorical field receives a partition of a value
         sequence (write, or write_part* + complete); dtype, data, every slice, every item and the key are
         observed, in the session and after reopen.
"""
import itertools, os, struct

PROP, NUM = 'C01', 1
PROPS_FILES = ['Props/C01.v']
MODES = ['jit']              # plain Python / numpy / h5py code: the JIT switch does not reach it
MODES_THOROUGH = ['jit']     # (a nojit run of the thorough tier was done once: identical, 2x the HDF5 time)
LEVEL = 'proof'
TIMEOUT_S = 30.0

_np = _fld = _Session = None


def setup():
    global _np, _fld, _Session
    import numpy as np
    from exetera.core import fields as fld
    from exetera.core.session import Session
    _np, _fld, _Session = np, fld, Session


# ------------------------------------------------------------------------------- dtypes / value encoding
DTYPES = ['int8', 'int16', 'int32', 'int64', 'uint8', 'uint16', 'uint32', 'uint64', 'float32', 'float64', 'bool']
INT_RANGE = {'int8': (-128, 127), 'int16': (-2 ** 15, 2 ** 15 - 1), 'int32': (-2 ** 31, 2 ** 31 - 1),
             'int64': (-2 ** 63, 2 ** 63 - 1), 'uint8': (0, 255), 'uint16': (0, 2 ** 16 - 1),
             'uint32': (0, 2 ** 32 - 1), 'uint64': (0, 2 ** 64 - 1), 'bool': (0, 1)}


def dt_code(name):
    """dtype name -> integer code (fixed strings: 100 + length)."""
    name = str(name)
    if name in DTYPES:
        return DTYPES.index(name) + 1
    if name.startswith('|S') or name.startswith('S'):
        return 100 + int(name.lstrip('|S') or 0)
    return 99


def enc_value(dt, v):
    """canonical byte list of one value (v is the JSON form: int, float bit pattern, or byte list)."""
    if isinstance(v, list):
        return list(v)
    if dt in ('float32', 'float64'):
        n = 4 if dt == 'float32' else 8
        return list(int(v).to_bytes(n, 'little'))
    return list((int(v) & (2 ** 64 - 1)).to_bytes(8, 'little'))


def np_value_enc(x):
    """canonical byte list of one numpy scalar read back."""
    np = _np
    if isinstance(x, (bytes, np.bytes_)):
        return list(bytes(x))
    k = x.dtype.kind
    if k == 'f':
        return list(x.tobytes())
    if k in 'iub':
        return list((int(x) & (2 ** 64 - 1)).to_bytes(8, 'little'))
    raise TypeError('unexpected dtype %s' % x.dtype)


def make_array(dt, vals):
    np = _np
    if dt.startswith('S'):
        return np.array([bytes(v) for v in vals], dtype=dt)
    if dt == 'float32':
        return np.array(vals, dtype=np.uint32).view(np.float32)
    if dt == 'float64':
        return np.array(vals, dtype=np.uint64).view(np.float64)
    if dt == 'bool':
        return np.array([bool(v) for v in vals], dtype=bool)
    return np.array(vals, dtype=dt)


# ------------------------------------------------------------------------------- implementation runner
def _guard(fn):
    try:
        return fn()
    except Exception as e:  # noqa
        from harness.worker import exc_name
        return 'EXC:' + exc_name(e)


def _strs(r):
    if r is None:
        return None
    return [[-1] if s is None else list(s.encode()) for s in r]


def _observe_idx(f, ro, extra):
    ind = [int(x) for x in f.indices[:]]
    vals = [int(x) & 255 for x in f.values[:]]
    n = len(f.data)
    assert n == len(f)
    w = f.data
    pairs = [(a, b) for a in range(n + 1) for b in range(a, n + 1)]
    slw = [_guard(lambda: _strs(w[a:b])) for a, b in pairs]
    slr = [_guard(lambda: _strs(ro[a:b])) for a, b in pairs]
    # the full read data[:] must agree with data[0:n]
    full = _guard(lambda: _strs(w[:]))
    if pairs and full != slw[n]:
        slw[n] = ['FULL-READ-DIFFERS', full, slw[n]]
    fullr = _guard(lambda: _strs(ro[:]))
    if pairs and fullr != slr[n]:
        slr[n] = ['FULL-READ-DIFFERS', fullr, slr[n]]
    items = []
    for i in range(n):
        a = _guard(lambda: list(w[i].encode()))
        b = _guard(lambda: list(ro[i].encode()))
        items.append(a if a == b else ['RO-W-DIFFER', a, b])
    ex = []
    for kind, a, b in extra:
        if kind == 0:
            ex.append(_guard(lambda: _strs(w[a:b])))
        elif kind == 1:
            ex.append(_guard(lambda: _strs(ro[a:b])))
        else:
            ex.append(_guard(lambda: list(w[a].encode())))
    return [ind, vals, slw, slr, items, ex]


_counter = [0]


def _tmpfile():
    _counter[0] += 1
    return os.path.join(os.environ.get('TMPDIR', '/tmp'), 'c01_%d_%d.h5' % (os.getpid(), _counter[0]))


def _run_idx(case):
    fld, Session = _fld, _Session
    s = Session()
    path = None
    try:
        if case['h5']:
            path = _tmpfile()
            ds = s.open_dataset(path, 'w', 'd')
            df = ds.create_dataframe('df')
            f = df.create_indexed_string('f', chunksize=case['cs'])
        else:
            f = fld.IndexedStringMemField(s, chunksize=case['cs'])
        d = f.data
        assert type(d).__name__ == 'WriteableIndexedFieldArray'
        for op in case['ops']:
            if op[0] == 'p':
                d.write_part(op[1])
            elif op[0] == 'c':
                d.complete()
            elif op[0] == 'w':
                d.write(op[1])
            elif op[0] == 'x':
                d.clear()
            elif op[0] == 'r':
                # a new wrapper on the same datasets
                if case['h5']:
                    s.close_dataset('d')
                    ds = s.open_dataset(path, 'r+', 'd')
                    df = ds['df']
                    f = df['f']
                    d = f.data
                    assert type(d).__name__ == 'WriteableIndexedFieldArray'
                else:
                    d = fld.WriteableIndexedFieldArray(case['cs'], f.indices, f.values)
                    f._data_wrapper = d
            else:
                raise ValueError(op)
        if case['h5']:
            rof = fld.IndexedStringField(s, df._h5group['f'], None, write_enabled=False)
            ro = rof.data
            assert type(ro).__name__ == 'ReadOnlyIndexedFieldArray'
        else:
            ro = fld.ReadOnlyIndexedFieldArray(f, f.indices, f.values)
        sess = _observe_idx(f, ro, case.get('extra', []))
        if not case['h5']:
            return [sess]
        s.close_dataset('d')
        s.close()
        s = Session()
        ds = s.open_dataset(path, 'r', 'd')
        f = ds['df']['f']
        assert type(f).__name__ == 'IndexedStringField' and f.indexed
        assert int(f.chunksize) == case['cs']
        rof = fld.IndexedStringField(s, ds['df']._h5group['f'], None, write_enabled=False)
        re = _observe_idx(f, rof.data, case.get('extra', []))
        return [sess, re]
    finally:
        try:
            s.close()
        except Exception:
            pass
        if path and os.path.exists(path):
            os.unlink(path)


def _observe_plain(f, case):
    np = _np
    d = f.data
    arr = d[:]
    n = len(d)
    assert n == len(f) and len(arr) == n
    dt = dt_code(arr.dtype)
    data = [np_value_enc(x) for x in arr]
    pairs = [(a, b) for a in range(n + 1) for b in range(a, n + 1)]
    sl = []
    for a, b in pairs:
        r = d[a:b]
        if dt_code(r.dtype) != dt:
            sl.append(['SLICE-DTYPE', str(r.dtype)])
        else:
            sl.append([np_value_enc(x) for x in r])
    items = [_guard(lambda: np_value_enc(np.asarray(d[i])[()])) for i in range(n)]
    key = []
    if case['ft'] == 'categorical':
        ks = f.keys
        key = [[int(k), list(v.encode() if isinstance(v, str) else bytes(v))] for k, v in ks.items()]
    return [dt, data, sl, items, key]


def _run_plain(case):
    np, fld, Session = _np, _fld, _Session
    s = Session()
    path = None
    ft, dt = case['ft'], case['dt']
    try:
        if case['h5']:
            path = _tmpfile()
            ds = s.open_dataset(path, 'w', 'd')
            df = ds.create_dataframe('df')
            cs = case.get('cs')          # field chunksize (None = the session default 1 << 20)
            if ft == 'numeric':
                f = df.create_numeric('f', dt, chunksize=cs)
            elif ft == 'timestamp':
                f = df.create_timestamp('f', chunksize=cs)
            elif ft == 'fixed':
                f = df.create_fixed_string('f', int(dt[1:]), chunksize=cs)
            elif ft == 'categorical':
                f = df.create_categorical('f', dt, dict((k, v) for k, v in case['key']), chunksize=cs)
            else:
                raise ValueError(ft)
        else:
            if ft == 'numeric':
                f = fld.NumericMemField(s, dt)
            elif ft == 'timestamp':
                f = fld.TimestampMemField(s)
            elif ft == 'fixed':
                f = fld.FixedStringMemField(s, int(dt[1:]))
            elif ft == 'categorical':
                f = fld.CategoricalMemField(s, dt, dict((k, v) for k, v in case['key']))
            else:
                raise ValueError(ft)
        d = f.data
        parts = [make_array(pdt, vals) for pdt, vals in case['parts']]
        if case['how'] == 'write':
            assert len(parts) == 1
            d.write(parts[0])
        else:
            for p in parts:
                d.write_part(p)
            d.complete()
        sess = _observe_plain(f, case)
        if not case['h5']:
            return [sess]
        s.close_dataset('d')
        s.close()
        s = Session()
        ds = s.open_dataset(path, 'r', 'd')
        f = ds['df']['f']
        # Session.get re-wraps the group by its fieldtype attribute
        want = {'numeric': 'NumericField', 'timestamp': 'TimestampField', 'fixed': 'FixedStringField',
                'categorical': 'CategoricalField'}[ft]
        assert type(f).__name__ == want, (type(f).__name__, want)
        if ft == 'numeric':
            assert f._nformat == dt
        elif ft == 'fixed':
            assert int(f._length) == int(dt[1:])
        elif ft == 'categorical':
            assert f.nformat == dt
        return [sess, _observe_plain(f, case)]
    finally:
        try:
            s.close()
        except Exception:
            pass
        if path and os.path.exists(path):
            os.unlink(path)


def run(case):
    if case['k'] == 'idx':
        return _run_idx(case)
    return _run_plain(case)


# ------------------------------------------------------------------------------- model side
def _b(s):
    return list(s.encode())


def to_val(case):
    if case['k'] == 'idx':
        ops = []
        for op in case['ops']:
            if op[0] == 'p':
                ops.append([0, [_b(s) for s in op[1]]])
            elif op[0] == 'c':
                ops.append([1])
            elif op[0] == 'w':
                ops.append([2, [_b(s) for s in op[1]]])
            elif op[0] == 'x':
                ops.append([3])
            else:
                ops.append([4])
        return [1, case['h5'], case['cs'], ops, [list(e) for e in case.get('extra', [])]]
    dt = case['dt']
    parts = [[dt_code(pdt), [enc_value(pdt, v) for v in vals]] for pdt, vals in case['parts']]
    key = []
    if case['ft'] == 'categorical':
        lo, hi = INT_RANGE[dt]
        W = 2 ** 62 - 1                  # the wire carries 63-bit integers; generated key values stay inside
        key = [max(lo, -W), min(hi, W), [v for _, v in case['key']]]
    return [2, case['h5'], dt_code(dt), parts, key]


def _dec(v):
    """nested error triples -> the strings the implementation side uses."""
    if isinstance(v, list):
        if len(v) == 3 and v[0] == -999 and all(isinstance(x, int) for x in v):
            kind, arg = v[1], v[2]
            if kind == 1:
                return 'EXC:IndexError'
            if kind == 2:
                return 'EXC:' + {1: 'ValueError', 2: 'TypeError', 3: 'IndexError', 4: 'KeyError',
                                 5: 'OverflowError'}.get(arg, 'Other')
            return 'MODEL-ERR:%d' % kind
        return [_dec(x) for x in v]
    return v


def from_val(case, v):
    m, s = _dec(v[0]), _dec(v[1])
    if case['k'] == 'plain' and case['ft'] == 'categorical':
        names = [_b(k) for k, _ in case['key']]
        for r in (m, s):
            if isinstance(r, list):
                r[4] = [[kv, nm] for kv, nm in zip(r[4], names)]
    if case.get('noclaim'):
        s = m
    twice = lambda r: r if isinstance(r, str) else ([r, r] if case['h5'] else [r])
    return twice(m), twice(s)


# ------------------------------------------------------------------------------- features / findings
def _written(case):
    acc = []
    for op in case['ops']:
        if op[0] in 'pw':
            acc = acc + list(op[1])
        elif op[0] == 'x':
            acc = []
    return acc


def _idx_trace(case):
    """replay the staging counters of the writer to label the case (labels only, no verdict)."""
    cs = case['cs']
    vi = ii = 0
    nind = 0
    f = set()
    for op in case['ops']:
        if op[0] in 'pw':
            if not op[1]:
                f.add('empty-part')
            for s in op[1]:
                bs = s.encode()
                if not bs:
                    f.add('empty-string')
                if len(bs) > len(s):
                    f.add('multibyte')
                if len(bs) > cs:
                    f.add('string-longer-than-chunk')
                for k, _ in enumerate(bs):
                    vi += 1
                    if vi == cs:
                        f.add('value-flush-in-write_part')
                        if k + 1 < len(bs):
                            f.add('flush-inside-a-string')
                            # a flush that splits a multi-byte character
                            if (bs[k + 1] & 0xC0) == 0x80:
                                f.add('flush-splits-utf8-char')
                        else:
                            f.add('value-flush-exactly-at-string-end')
                        vi = 0
                ii += 1
                if ii == cs:
                    f.add('index-flush-in-write_part')
                    if nind == 0:
                        f.add('sentinel-in-write_part')
                    nind += ii + (1 if nind == 0 else 0)
                    ii = 0
        if op[0] in 'cw':
            if vi:
                f.add('value-flush-in-complete')
            elif any(s for s in _written(case)):
                f.add('complete-with-empty-value-buffer')
            if ii:
                f.add('index-flush-in-complete')
                if nind == 0:
                    f.add('sentinel-in-complete')
                nind += ii + (1 if nind == 0 else 0)
            vi = ii = 0
        if op[0] == 'x':
            f.add('clear-with-staged-data' if (vi or ii) else 'clear')
            nind = 0
        if op[0] == 'r':
            f.add('new-wrapper-with-staged-data' if (vi or ii) else 'new-wrapper(reopen r+)-then-append')
            vi = ii = 0
    return f


def features(case, model):
    f = set()
    if isinstance(model, str):
        f.add('err:' + model)
    if case['k'] == 'idx':
        f.add('idx-h5' if case['h5'] else 'idx-mem')
        f |= _idx_trace(case)
        w = _written(case)
        if not w:
            f.add('empty-sequence')
        elif not any(w):
            f.add('all-strings-empty')
        if len([o for o in case['ops'] if o[0] == 'p']) >= 2:
            f.add('several-write_part')
        if len([o for o in case['ops'] if o[0] in 'cw']) >= 2:
            f.add('several-complete')
        nbytes = sum(len(s.encode()) for s in w)
        if nbytes and nbytes % case['cs'] == 0:
            f.add('bytes-multiple-of-chunksize')
        if w and len(w) % case['cs'] == 0:
            f.add('entries-multiple-of-chunksize')
        if nbytes and nbytes % case['cs'] == 1:
            f.add('bytes-one-past-chunk')
        if case.get('extra'):
            f.add('out-of-range-read')
        if case['cs'] == 1 << 20:
            f.add('default-chunksize-1<<20')
    else:
        f.add(('%s-%s' % (case['ft'], 'h5' if case['h5'] else 'mem')))
        f.add('dtype:' + case['dt'])
        vals = [v for _, vs in case['parts'] for v in vs]
        if not vals:
            f.add('empty-sequence')
        if case['how'] == 'parts' and len(case['parts']) >= 2:
            f.add('several-write_part')
        if case['how'] == 'parts' and any(not vs for _, vs in case['parts']):
            f.add('empty-part')
        if case['how'] == 'parts' and len(case['parts']) >= 2 and not case['parts'][-1][1] \
                and any(vs for _, vs in case['parts'][:-1]) and not case['h5']:
            f.add('mem-empty-part-on-nonempty-field(F-C01a)')
        if any(pdt != case['dt'] for pdt, _ in case['parts']):
            f.add('cross-dtype-write')
        if case['dt'] in INT_RANGE and case['ft'] != 'categorical':
            lo, hi = INT_RANGE[case['dt']]
            if any(v in (lo, hi) for v in vals):
                f.add('extreme-integer')
        if case['dt'].startswith('float') and any(_is_special(case['dt'], v) for v in vals):
            f.add('float-special(nan/inf/-0/subnormal)')
        if case.get('cs'):
            f.add('plain-field-small-chunksize')
        if case['ft'] == 'categorical':
            lo, hi = INT_RANGE['int8']
            if any(not (lo <= v <= hi) for _, v in case['key']):
                f.add('key-value-outside-int8(F-C01c)')
    return sorted(f)


def _is_special(dt, bits):
    if dt == 'float32':
        e, m = (bits >> 23) & 0xFF, bits & 0x7FFFFF
        return e == 0xFF or (e == 0 and (m != 0 or bits >> 31))
    e, m = (bits >> 52) & 0x7FF, bits & ((1 << 52) - 1)
    return e == 0x7FF or (e == 0 and (m != 0 or bits >> 63))


def nontrivial(case, model):
    if case['k'] == 'idx':
        return len(_written(case)) >= 1 or len(case['ops']) >= 2
    return sum(len(vs) for _, vs in case['parts']) >= 1


def known(case, impl, model, spec, mode):
    """F-C01b: a memory-backed field keeps the dtype of the first array written, not its own.
       F-C01e: an indexed-string field that holds no entry stores offsets [] instead of [0]."""
    if impl != model:          # the model is faithful about both defects; anything else is new
        return None
    if case['k'] == 'plain' and not case['h5'] and case['parts'] and case['parts'][0][0] != case['dt']:
        # only the dtype may differ
        if isinstance(impl, list) and isinstance(spec, list) and \
                [r[1:] for r in impl] == [r[1:] for r in spec]:
            return 'F-C01b'
    if case['k'] == 'idx' and not _written(case):
        if isinstance(impl, list) and isinstance(spec, list) and \
                all(r[0] == [] and s[0] == [0] and r[1:] == s[1:] for r, s in zip(impl, spec)):
            return 'F-C01e'
    return None


# ------------------------------------------------------------------------------- generators
def compositions(n):
    """all ways to cut range(n) into consecutive non-empty blocks (as lists of block lengths)."""
    if n == 0:
        yield []
        return
    for first in range(1, n + 1):
        for rest in compositions(n - first):
            yield [first] + rest


def _split(seq, comp):
    out, i = [], 0
    for k in comp:
        out.append(list(seq[i:i + k]))
        i += k
    return out


ALPHA = ['', 'a', 'é', 'b€']        # 0, 1, 2 (one 2-byte char), 4 bytes (1 + a 3-byte char)


def _idx_histories(seq, with_empty_parts):
    """histories that write seq: write(seq); every composition as write_part* + complete;
    optionally empty parts interleaved."""
    seq = list(seq)
    yield [['w', seq]]
    for comp in compositions(len(seq)):
        parts = _split(seq, comp)
        yield [['p', p] for p in parts] + [['c']]
        if with_empty_parts and len(parts) <= 2:
            for pos in range(len(parts) + 1):
                ps = parts[:pos] + [[]] + parts[pos:]
                yield [['p', p] for p in ps] + [['c']]
    if not seq:
        yield [['c']]
        yield [['p', []], ['c']]


def gen_idx(tier, rng):
    big = tier == 'thorough'
    # 1. exhaustive, memory-backed: every sequence over ALPHA up to length nmax, every partition, chunk sizes 1..6
    nmax = 5 if big else 4
    for n in range(0, nmax + 1):
        for seq in itertools.product(ALPHA, repeat=n):
            for hist in _idx_histories(seq, with_empty_parts=(n <= 2)):
                for cs in range(1, 7):
                    yield {'k': 'idx', 'h5': 0, 'cs': cs, 'ops': hist, 'extra': []}
    # 2. exhaustive, HDF5-backed (each case creates, closes and reopens a file): up to length 3 (4 thorough)
    nh = 5 if big else 4
    for n in range(0, nh + 1):
        for seq in itertools.product(ALPHA, repeat=n):
            for hist in _idx_histories(seq, with_empty_parts=(n <= 1)):
                for cs in ((1, 2, 3, 4, 5, 6) if n <= (3 if big else 2) else (1, 2, 3, 5) if n < nh else (2, 3)):
                    yield {'k': 'idx', 'h5': 1, 'cs': cs, 'ops': hist, 'extra': []}
    # 3. several write/complete rounds on the same wrapper (the running byte total must carry over)
    for h5 in (0, 1):
        for a, b in itertools.product([[], ['a'], ['', 'é'], ['a', 'b€', '']], repeat=2):
            for cs in (1, 2, 3, 4):
                yield {'k': 'idx', 'h5': h5, 'cs': cs, 'ops': [['w', a], ['w', b]], 'extra': []}
                yield {'k': 'idx', 'h5': h5, 'cs': cs, 'ops': [['p', a], ['c'], ['c'], ['p', b], ['c']], 'extra': []}
                # clear after a completed write, then write again
                yield {'k': 'idx', 'h5': h5, 'cs': cs, 'ops': [['w', a], ['x'], ['w', b]], 'extra': []}
                # a new wrapper (HDF5: dataset closed and reopened 'r+') continues the column
                yield {'k': 'idx', 'h5': h5, 'cs': cs, 'ops': [['w', a], ['r'], ['w', b]], 'extra': []}
                yield {'k': 'idx', 'h5': h5, 'cs': cs, 'ops': [['p', a], ['c'], ['r'], ['p', b], ['p', a], ['c']], 'extra': []}
    # 4. structured random: longer sequences, chunk sizes around the byte / entry totals
    pool = ['', '', 'a', 'zz', 'é', '€', '\U0001F600', 'hello', 'x' * 7, 'ééé']
    for _ in range(1500 if big else 250):
        n = rng.randint(3, 12)
        seq = [rng.choice(pool) for _ in range(n)]
        nbytes = sum(len(s.encode()) for s in seq)
        cs = rng.choice([1, 2, 3, max(1, nbytes - 1), max(1, nbytes), nbytes + 1, max(1, n - 1), n, n + 1,
                         max(1, nbytes // 2), rng.randint(1, 16)])
        cuts = sorted(rng.sample(range(n + 1), rng.randint(0, min(4, n))))
        parts, i = [], 0
        for c in cuts + [n]:
            parts.append(seq[i:c]); i = c
        h5 = 1 if rng.random() < 0.25 else 0
        yield {'k': 'idx', 'h5': h5, 'cs': cs, 'ops': [['p', p] for p in parts] + [['c']], 'extra': []}
    # 4b. the production chunksize (1 << 20): nothing is flushed before complete()
    for h5 in (0, 1):
        for seq in ([], ['a'], ['', 'é', 'b€'], ['hello'] * 7 + ['']):
            yield {'k': 'idx', 'h5': h5, 'cs': 1 << 20, 'ops': [['w', seq]], 'extra': []}
            yield {'k': 'idx', 'h5': h5, 'cs': 1 << 20, 'ops': [['p', seq[:1]], ['p', seq[1:]], ['c']], 'extra': []}
    # 5. outside the property (no claim, model faithfulness only): reads beyond the range, clear with staged data
    for h5 in (0, 1):
        for seq in ([], ['a'], ['a', '', 'é']):
            n = len(seq)
            extra = [[0, 0, n + 1], [1, 0, n + 2], [0, n + 1, n + 1], [2, n, 0], [2, n + 3, 0], [0, 1, 0], [1, 1, 0]]
            yield {'k': 'idx', 'h5': h5, 'cs': 2, 'ops': [['w', seq]], 'extra': extra}
        for cs in (1, 2, 3):
            yield {'k': 'idx', 'h5': h5, 'cs': cs, 'ops': [['p', ['a']], ['x'], ['w', ['b']]], 'extra': [], 'noclaim': 1}
            yield {'k': 'idx', 'h5': h5, 'cs': cs, 'ops': [['p', ['ab', 'c']], ['x'], ['w', ['d', '']]], 'extra': [], 'noclaim': 1}


def _f32(x):
    return struct.unpack('<I', struct.pack('<f', x))[0]


def _f64(x):
    return struct.unpack('<Q', struct.pack('<d', x))[0]


FLOAT_POOL = {
    'float32': [_f32(0.0), 0x80000000, _f32(1.5), 0x7F800000, 0xFF800000, 0x7FC00000, 0x7FC00001, 0x00000001,
                0x7F7FFFFF, _f32(-3.25)],
    'float64': [_f64(0.0), 1 << 63, _f64(1.5), 0x7FF0000000000000, 0xFFF0000000000000, 0x7FF8000000000000,
                0x7FF8000000000001, 1, 0x7FEFFFFFFFFFFFFF, _f64(-3.25), _f64(1600000000.123456)],
}


def _pool(dt):
    if dt in FLOAT_POOL:
        return FLOAT_POOL[dt]
    lo, hi = INT_RANGE[dt]
    return sorted(set([lo, hi, 0, 1, max(lo, -1), hi - 1, lo + 1, min(hi, 100)]))


def _plain_histories(dt, seq, src=None):
    src = src or dt
    seq = list(seq)
    yield 'write', [[src, seq]]
    comps = [c for c in compositions(len(seq)) if c]      # at least one write_part call
    if len(seq) > 4:                     # long sequences: a spread of partitions, not all 2^(n-1)
        comps = comps[::max(1, len(comps) // 12)]
    for comp in comps:
        yield 'parts', [[src, p] for p in _split(seq, comp)]
    if len(seq) <= 2:
        for comp in compositions(len(seq)):
            parts = _split(seq, comp)
            for pos in range(len(parts) + 1):
                yield 'parts', [[src, p] for p in parts[:pos] + [[]] + parts[pos:]]


def gen_plain(tier, rng):
    big = tier == 'thorough'
    for dt in DTYPES:
        pool = _pool(dt)
        seqs = [[]] + [[v] for v in pool] + [list(p) for p in itertools.product(pool[:4], repeat=2)]
        seqs += [pool[:3], pool[-3:], pool[:4], pool]
        if big:
            seqs += [list(p) for p in itertools.product(pool[:3], repeat=3)]
        for seq in seqs:
            for how, parts in _plain_histories(dt, seq):
                for h5 in (0, 1):
                    if h5 and not big and len(seq) == 2 and seq[0] != pool[0] and how == 'parts' and len(parts) > 2:
                        continue
                    yield {'k': 'plain', 'h5': h5, 'ft': 'numeric', 'dt': dt, 'how': how, 'parts': parts, 'key': None}
    # timestamps
    for seq in ([], [FLOAT_POOL['float64'][-1]], FLOAT_POOL['float64'][:3], FLOAT_POOL['float64']):
        for how, parts in _plain_histories('float64', seq):
            for h5 in (0, 1):
                yield {'k': 'plain', 'h5': h5, 'ft': 'timestamp', 'dt': 'float64', 'how': how, 'parts': parts, 'key': None}
    # fixed strings (numpy 'S' strips trailing NULs: values do not end in NUL)
    for L, pool in ((1, [[], [97], [255]]), (3, [[], [97], [97, 98, 99], [195, 169], [97, 0, 98], [32, 32]])):
        dt = 'S%d' % L
        seqs = [[]] + [[v] for v in pool] + [list(p) for p in itertools.product(pool[:4], repeat=2)] + [pool]
        for seq in seqs:
            for how, parts in _plain_histories(dt, seq):
                for h5 in (0, 1):
                    yield {'k': 'plain', 'h5': h5, 'ft': 'fixed', 'dt': dt, 'how': how, 'parts': parts, 'key': None}
    # categorical, with keys whose values use the range of the field's nformat
    keys = {
        'int8': [[['a', 0], ['b', 1]], [['', 0], ['é', 2], ['zz', -1]], [['x', -128], ['y', 127]]],
        'int16': [[['a', 0], ['b', 1]], [['x', 300], ['y', -1]], [['lo', -32768], ['hi', 32767]], [['n', -129], ['m', 128]]],
        'int32': [[['a', 1], ['b', 2 ** 31 - 1]], [['a', 0], ['b', 70000]]],
        'uint8': [[['a', 0], ['b', 1]], [['k', 200], ['l', 255]]],
        'int64': [[['a', 0], ['big', 2 ** 40]]],
    }
    for dt, kl in keys.items():
        for key in kl:
            kv = [v for _, v in key]
            seqs = [[], [kv[0]], kv, kv + kv[::-1]]
            for seq in seqs:
                for how, parts in _plain_histories(dt, seq):
                    for h5 in (0, 1):
                        yield {'k': 'plain', 'h5': h5, 'ft': 'categorical', 'dt': dt, 'how': how, 'parts': parts, 'key': key}
    # cross-dtype writes (values representable in both): HDF5 casts to the field's dtype, memory fields should too
    for dt, src in (('int32', 'int64'), ('int8', 'int64'), ('int64', 'int32'), ('uint8', 'int64'), ('int16', 'int32')):
        for seq in ([], [1], [1, 2, 3], [0, 100]):
            for how, parts in _plain_histories(dt, seq, src):
                for h5 in (0, 1):
                    yield {'k': 'plain', 'h5': h5, 'ft': 'numeric', 'dt': dt, 'how': how, 'parts': parts, 'key': None}
        # first part in the field's dtype, the next in another: the stored dtype stays
        for h5 in (0, 1):
            yield {'k': 'plain', 'h5': h5, 'ft': 'numeric', 'dt': dt, 'how': 'parts',
                   'parts': [[dt, [1, 2]], [src, [3]]], 'key': None}


def gen_plain_chunksize(tier, rng):
    """HDF5-backed plain fields created with small chunk sizes (the writers ignore it: same result)."""
    for cs in (1, 2, 3):
        for ft, dt, seq, key in (('numeric', 'int32', [1, -2 ** 31, 2 ** 31 - 1, 0], None),
                                 ('numeric', 'float64', FLOAT_POOL['float64'][:4], None),
                                 ('timestamp', 'float64', FLOAT_POOL['float64'][-3:], None),
                                 ('fixed', 'S3', [[97], [], [97, 98, 99]], None),
                                 ('categorical', 'int8', [0, 1, 1, 0], [['a', 0], ['b', 1]])):
            for how, parts in _plain_histories(dt, seq):
                yield {'k': 'plain', 'h5': 1, 'ft': ft, 'dt': dt, 'how': how, 'parts': parts, 'key': key, 'cs': cs}


def gen(tier, rng):
    for c in gen_plain(tier, rng):
        yield c
    for c in gen_plain_chunksize(tier, rng):
        yield c
    for c in gen_idx(tier, rng):
        yield c


def shrink(case):
    if case['k'] == 'idx':
        ops = case['ops']
        for i in range(len(ops)):
            if ops[i][0] in 'pw' and ops[i][1]:
                for j in range(len(ops[i][1])):
                    c = dict(case)
                    c['ops'] = [list(o) for o in ops]
                    c['ops'][i] = [ops[i][0], ops[i][1][:j] + ops[i][1][j + 1:]]
                    yield c
            if len(ops) > 1:
                c = dict(case)
                c['ops'] = ops[:i] + ops[i + 1:]
                if c['ops'] and c['ops'][-1][0] in 'cw':
                    yield c
        if case['cs'] > 1:
            c = dict(case); c['cs'] = case['cs'] - 1; yield c
    else:
        parts = case['parts']
        for i in range(len(parts)):
            if len(parts) > 1 and case['how'] == 'parts':      # keep at least one write
                c = dict(case); c['parts'] = parts[:i] + parts[i + 1:]; yield c
            for j in range(len(parts[i][1])):
                c = dict(case)
                c['parts'] = [list(p) for p in parts]
                c['parts'][i] = [parts[i][0], parts[i][1][:j] + parts[i][1][j + 1:]]
                yield c


RULE = ('exhaustive small scope. Indexed strings, memory-backed: every sequence of length <= 4 (thorough 5) over '
        "{'', 'a', 'é', 'b€'} (0/1/2/4 bytes), every partition into write_part calls (plus write(), plus empty parts "
        'for length <= 2), every chunksize 1..6, so that every flush threshold is hit exactly and off by one; '
        'HDF5-backed (a file is created, closed and reopened per case, ~12 ms): the same up to length 4 (thorough 5) with '
        'chunk sizes 1..6 for short, {1,2,3,5} / {2,3} for the longest sequences. '
        'Observed per case: stored offsets and bytes, every slice 0<=a<=b<=n through both wrappers, every item, '
        'in-session and after reopen. Plus repeated write/complete rounds, clear, 250 (1500) random longer histories '
        'with chunk sizes around the byte/entry totals. Plain fields: every numeric dtype x extreme/special values x '
        'every partition of sequences up to length 2 (+ some longer) x both backings; timestamps; fixed strings; '
        'categoricals with keys spanning the nformat range; cross-dtype writes; HDF5 plain fields with chunksize 1..3. '
        'A new wrapper on the same datasets (HDF5: close + reopen r+) continuing the column. Non-trivial = at least one value written.')
EXHAUSTIVE = {'quick': True, 'thorough': True}
TRUSTED = ['numpy slicing / slice assignment / np.zeros and h5py dataset create/resize/slice are modelled as list '
           'operations (np_slice, np_assign in coq/Model/IdxWriter.v), exercised here, not verified',
           'str.encode()/bytes.decode() (UTF-8) stay in the harness: the model sees byte lists',
           'HDF5 persistence (close + reopen returns the bytes written) is observed by the correspondence only']
ASSUMPTIONS = ['values written are representable in the field dtype (no casting overflow is modelled)',
               'fixed-string values do not end in NUL (numpy S dtype strips trailing NULs)',
               'chunksize >= 1']
TECHNIQUE = ('Coq proof (state-machine model of WriteableIndexedFieldArray and of the memory/HDF5 field arrays = '
             'concat/prefix-sum spec, for every chunksize and partition) + exhaustive small-scope differential '
             'correspondence against /repo with real HDF5 files')
LEVEL_TEXT = ('Theorems in coq/Props/C01.v prove for every chunksize >= 1, both backings and every history of '
              'write_part/complete/write calls that the stored offsets are the prefix sums of the entry lengths and the '
              'stored bytes their concatenation, that every in-range slice/item read returns the entries written, and '
              'that appending through any partition yields the same array; the model is tied to /repo by running the '
              'extracted model and the real classes (memory and HDF5 files, with close/reopen) on the same cases.')
LEVEL_NOTE = ('Trusted: Coq kernel, extraction, harness. numpy/h5py are modelled as list operations; persistence across '
              'reopen, dtype and key fidelity are established by the correspondence only (partial).')
