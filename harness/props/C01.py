"""C01 — field storage round-trip (exetera/core/fields.py, data_writer.py, session/dataset/dataframe)
vs coq/Model/IdxWriter.v.

Case kinds
  idx    an indexed-string field (memory- or HDF5-backed) with a given chunksize receives a history of
         write_part / complete / write / clear calls; offsets, bytes, every slice 0<=a<=b<=n through the
         Writeable and the ReadOnly wrapper and every item are observed, in the session and (HDF5) after
         close + reopen 'r'.
  plain  a numeric / timestamp / fixed-string / categorical field receives a partition of a value
         sequence (write, or write_part* + complete); dtype, data, every slice, every item and the key are
         observed, in the session and after reopen.
  multi  SEVERAL fields (indexed strings with equal or different chunk sizes, plain numeric fields; memory- and
         HDF5-backed in one session / one dataframe) receive an INTERLEAVED history (a batch of column a, a batch
         of column b, ...; fields are created when first touched, reads in between); every field is observed as in
         idx / plain.  Model: a world of independent field states (coq/Model/FieldWorld.v part 1).
  alias  arrays as OBJECTS: the caller keeps, refills and edits the arrays it passes to write_part / write, passes
         the same array (or a view of it, or a view of a field's own storage) to several fields, edits a field
         through data[i] = v; every caller array and every field is observed.  Model: heap of arrays with
         identity (FieldWorld.v part 2) vs the value semantics (coq/Spec/FieldWorldSpec.v).
  names  NAMES are part of the case: one file holds several dataframes, every dataframe several fields of every type
         (numeric, fixed string, indexed string, categorical with its key, timestamp); the dataframe names, the field
         names, the category names and the session's name of the dataset rotate over a name alphabet built from the
         names the implementation reserves (equal / extended / embedded / truncated / re-cased) and from unusual but
         valid names (spaces, dots, control characters, non-ASCII, 255..1000 characters).  The listing of the dataset
         and of every dataframe and every field under its name are observed in the session and after close + reopen
         in a fresh Session.  Model: name-agnostic — the answers of the sub-cases (wire case 5).
"""
import itertools, os, struct
from harness import hot

PROP, NUM = 'C01', 1
PROPS_FILES = ['Props/C01.v']
MODES = ['jit']              # plain Python / numpy / h5py code: the JIT switch does not reach it
MODES_THOROUGH = ['jit']     # (a nojit run of the thorough tier was done once: identical, 2x the HDF5 time)
LEVEL = 'proof'
TIMEOUT_S = 30.0

_np = _fld = _Session = None


def setup():
    global _np, _fld, _Session
    import numpy as np
    from exetera.core import fields as fld
    from exetera.core.session import Session
    _np, _fld, _Session = np, fld, Session


# ------------------------------------------------------------------------------- dtypes / value encoding
DTYPES = ['int8', 'int16', 'int32', 'int64', 'uint8', 'uint16', 'uint32', 'uint64', 'float32', 'float64', 'bool']
INT_RANGE = {'int8': (-128, 127), 'int16': (-2 ** 15, 2 ** 15 - 1), 'int32': (-2 ** 31, 2 ** 31 - 1),
             'int64': (-2 ** 63, 2 ** 63 - 1), 'uint8': (0, 255), 'uint16': (0, 2 ** 16 - 1),
             'uint32': (0, 2 ** 32 - 1), 'uint64': (0, 2 ** 64 - 1), 'bool': (0, 1)}


def dt_code(name):
    """dtype name -> integer code (fixed strings: 100 + length)."""
    name = str(name)
    if name in DTYPES:
        return DTYPES.index(name) + 1
    if name.startswith('|S') or name.startswith('S'):
        return 100 + int(name.lstrip('|S') or 0)
    return 99


def enc_value(dt, v):
    """canonical byte list of one value (v is the JSON form: int, float bit pattern, or byte list)."""
    if isinstance(v, list):
        return list(v)
    if dt in ('float32', 'float64'):
        n = 4 if dt == 'float32' else 8
        return list(int(v).to_bytes(n, 'little'))
    return list((int(v) & (2 ** 64 - 1)).to_bytes(8, 'little'))


def np_value_enc(x):
    """canonical byte list of one numpy scalar read back."""
    np = _np
    if isinstance(x, (bytes, np.bytes_)):
        return list(bytes(x))
    k = x.dtype.kind
    if k == 'f':
        return list(x.tobytes())
    if k in 'iub':
        return list((int(x) & (2 ** 64 - 1)).to_bytes(8, 'little'))
    raise TypeError('unexpected dtype %s' % x.dtype)


def make_array(dt, vals):
    np = _np
    if dt.startswith('S'):
        return np.array([bytes(v) for v in vals], dtype=dt)
    if dt == 'float32':
        return np.array(vals, dtype=np.uint32).view(np.float32)
    if dt == 'float64':
        return np.array(vals, dtype=np.uint64).view(np.float64)
    if dt == 'bool':
        return np.array([bool(v) for v in vals], dtype=bool)
    return np.array(vals, dtype=dt)


# ------------------------------------------------------------------------------- implementation runner
def _scribble(arg):
    """the caller's argument object is overwritten right after the call that received it (a loader reusing its
    batch list / array does exactly that): a field must hold the values it was given, not the object."""
    if isinstance(arg, list):
        arg[:] = ['\x00scribbled'] * (len(arg) + 1)
    elif arg is not None and arg.size:
        arg.view(_np.uint8)[...] ^= 0xFF            # every byte of every element changes, in place


def _guard(fn):
    try:
        return fn()
    except Exception as e:  # noqa
        from harness.worker import exc_name
        return 'EXC:' + exc_name(e)


def _strs(r):
    if r is None:
        return None
    return [[-1] if s is None else list(s.encode()) for s in r]


def _observe_idx(f, ro, extra, lite=None, nw=0):
    ind = [int(x) for x in f.indices[:]]
    vals = [int(x) & 255 for x in f.values[:]]
    n = len(f.data)
    assert n == len(f)
    w = f.data
    if lite is None:
        pairs = [(a, b) for a in range(n + 1) for b in range(a, n + 1)]
    else:
        pairs = [(a, b) for a, b in lite]
    slw = [_guard(lambda: _strs(w[a:b])) for a, b in pairs]
    slr = [_guard(lambda: _strs(ro[a:b])) for a, b in pairs]
    # the full read data[:] must agree with data[0:n]
    if (0, n) in pairs:
        k = pairs.index((0, n))
        full = _guard(lambda: _strs(w[:]))
        if full != slw[k]:
            slw[k] = ['FULL-READ-DIFFERS', full, slw[k]]
        fullr = _guard(lambda: _strs(ro[:]))
        if fullr != slr[k]:
            slr[k] = ['FULL-READ-DIFFERS', fullr, slr[k]]
    items = []
    for i in (range(n) if lite is None else [a for a, _ in lite if a < nw]):
        a = _guard(lambda: list(w[i].encode()))
        b = _guard(lambda: list(ro[i].encode()))
        items.append(a if a == b else ['RO-W-DIFFER', a, b])
    ex = []
    for kind, a, b in extra:
        if kind == 0:
            ex.append(_guard(lambda: _strs(w[a:b])))
        elif kind == 1:
            ex.append(_guard(lambda: _strs(ro[a:b])))
        else:
            ex.append(_guard(lambda: list(w[a].encode())))
    return [ind, vals, slw, slr, items, ex]


_counter = [0]


def _tmpfile():
    _counter[0] += 1
    return os.path.join(os.environ.get('TMPDIR', '/tmp'), 'c01_%d_%d.h5' % (os.getpid(), _counter[0]))


def _run_idx(case):
    fld, Session = _fld, _Session
    s = Session()
    path = None
    try:
        if case['h5']:
            path = _tmpfile()
            ds = s.open_dataset(path, 'w', 'd')
            df = ds.create_dataframe('df')
            f = df.create_indexed_string('f', chunksize=case['cs'])
        else:
            f = fld.IndexedStringMemField(s, chunksize=case['cs'])
        d = f.data
        assert type(d).__name__ == 'WriteableIndexedFieldArray'
        for op in case['ops']:
            if op[0] == 'p':
                arg = list(op[1])
                d.write_part(arg)
                _scribble(arg)
            elif op[0] == 'c':
                d.complete()
            elif op[0] == 'w':
                arg = list(op[1])
                d.write(arg)
                _scribble(arg)
            elif op[0] == 'x':
                d.clear()
            elif op[0] == 'r':
                # a new wrapper on the same datasets
                if case['h5']:
                    s.close_dataset('d')
                    ds = s.open_dataset(path, 'r+', 'd')
                    df = ds['df']
                    f = df['f']
                    d = f.data
                    assert type(d).__name__ == 'WriteableIndexedFieldArray'
                else:
                    d = fld.WriteableIndexedFieldArray(case['cs'], f.indices, f.values)
                    f._data_wrapper = d
            else:
                raise ValueError(op)
        if case['h5']:
            rof = fld.IndexedStringField(s, df._h5group['f'], None, write_enabled=False)
            ro = rof.data
            assert type(ro).__name__ == 'ReadOnlyIndexedFieldArray'
        else:
            ro = fld.ReadOnlyIndexedFieldArray(f, f.indices, f.values)
        lite = case.get('lite')
        nw = len(_written(case)) if lite is not None else 0
        sess = _observe_idx(f, ro, case.get('extra', []), lite, nw)
        if not case['h5']:
            return [sess]
        s.close_dataset('d')
        s.close()
        s = Session()
        ds = s.open_dataset(path, 'r', 'd')
        f = ds['df']['f']
        assert type(f).__name__ == 'IndexedStringField' and f.indexed
        assert int(f.chunksize) == case['cs']
        rof = fld.IndexedStringField(s, ds['df']._h5group['f'], None, write_enabled=False)
        re = _observe_idx(f, rof.data, case.get('extra', []), lite, nw)
        return [sess, re]
    finally:
        try:
            s.close()
        except Exception:
            pass
        if path and os.path.exists(path):
            os.unlink(path)


def _observe_plain(f, case):
    np = _np
    d = f.data
    arr = d[:]
    n = len(d)
    assert n == len(f) and len(arr) == n
    dt = dt_code(arr.dtype)
    data = [np_value_enc(x) for x in arr]
    pairs = [(a, b) for a in range(n + 1) for b in range(a, n + 1)]
    sl = []
    for a, b in pairs:
        r = d[a:b]
        if dt_code(r.dtype) != dt:
            sl.append(['SLICE-DTYPE', str(r.dtype)])
        else:
            sl.append([np_value_enc(x) for x in r])
    items = [_guard(lambda: np_value_enc(np.asarray(d[i])[()])) for i in range(n)]
    key = []
    if case['ft'] == 'categorical':
        ks = f.keys
        key = [[int(k), list(v.encode() if isinstance(v, str) else bytes(v))] for k, v in ks.items()]
    return [dt, data, sl, items, key]


def _run_plain(case):
    np, fld, Session = _np, _fld, _Session
    s = Session()
    path = None
    ft, dt = case['ft'], case['dt']
    try:
        if case['h5']:
            path = _tmpfile()
            ds = s.open_dataset(path, 'w', 'd')
            df = ds.create_dataframe('df')
            cs = case.get('cs')          # field chunksize (None = the session default 1 << 20)
            if ft == 'numeric':
                f = df.create_numeric('f', dt, chunksize=cs)
            elif ft == 'timestamp':
                f = df.create_timestamp('f', chunksize=cs)
            elif ft == 'fixed':
                f = df.create_fixed_string('f', int(dt[1:]), chunksize=cs)
            elif ft == 'categorical':
                f = df.create_categorical('f', dt, dict((k, v) for k, v in case['key']), chunksize=cs)
            else:
                raise ValueError(ft)
        else:
            if ft == 'numeric':
                f = fld.NumericMemField(s, dt)
            elif ft == 'timestamp':
                f = fld.TimestampMemField(s)
            elif ft == 'fixed':
                f = fld.FixedStringMemField(s, int(dt[1:]))
            elif ft == 'categorical':
                f = fld.CategoricalMemField(s, dt, dict((k, v) for k, v in case['key']))
            else:
                raise ValueError(ft)
        d = f.data
        # the argument arrays alternate between the two forms a caller can pass: an array that owns its memory
        # (np.array(...)) and a view into a larger buffer (buffer[:n], what the library's own streaming code passes)
        nv = sum(len(vals) for _, vals in case['parts'])
        parts = [_own_array(pdt, vals, (nv + i) % 2) for i, (pdt, vals) in enumerate(case['parts'])]
        if case['how'] == 'write':
            assert len(parts) == 1
            d.write(parts[0])
            _scribble(parts[0])
        else:
            for p in parts:
                d.write_part(p)
                _scribble(p)
            d.complete()
        sess = _observe_plain(f, case)
        if not case['h5']:
            return [sess]
        s.close_dataset('d')
        s.close()
        s = Session()
        ds = s.open_dataset(path, 'r', 'd')
        f = ds['df']['f']
        # Session.get re-wraps the group by its fieldtype attribute
        want = {'numeric': 'NumericField', 'timestamp': 'TimestampField', 'fixed': 'FixedStringField',
                'categorical': 'CategoricalField'}[ft]
        assert type(f).__name__ == want, (type(f).__name__, want)
        if ft == 'numeric':
            assert f._nformat == dt
        elif ft == 'fixed':
            assert int(f._length) == int(dt[1:])
        elif ft == 'categorical':
            assert f.nformat == dt
        return [sess, _observe_plain(f, case)]
    finally:
        try:
            s.close()
        except Exception:
            pass
        if path and os.path.exists(path):
            os.unlink(path)


# ------------------------------------------------------------------------------- several fields, interleaved
def _mk_plain(s, df, name, h5, ft, dt, key=None):
    fld = _fld
    if h5:
        if ft == 'numeric':
            return df.create_numeric(name, dt)
        if ft == 'timestamp':
            return df.create_timestamp(name)
        if ft == 'fixed':
            return df.create_fixed_string(name, int(dt[1:]))
        return df.create_categorical(name, dt, dict((k, v) for k, v in key))
    if ft == 'numeric':
        return fld.NumericMemField(s, dt)
    if ft == 'timestamp':
        return fld.TimestampMemField(s)
    if ft == 'fixed':
        return fld.FixedStringMemField(s, int(dt[1:]))
    return fld.CategoricalMemField(s, dt, dict((k, v) for k, v in key))


def _observe_col(f, dt):
    arr = f.data[:]
    assert len(arr) == len(f.data) == len(f)
    if dt_code(arr.dtype) != dt_code(dt):
        return ['DTYPE', str(arr.dtype)]
    return [dt_code(dt), [np_value_enc(x) for x in arr]]


def _run_multi(case):
    fld, Session = _fld, _Session
    s = Session()
    path = None
    specs = case['fields']
    n = len(specs)
    try:
        df = None
        if any(sp[1] for sp in specs):
            path = _tmpfile()
            ds = s.open_dataset(path, 'w', 'd')
            df = ds.create_dataframe('df')
        F, D = [None] * n, [None] * n

        def touch(i):
            # a field (and its .data wrapper) is created when the history first touches it: constructors run
            # while other fields hold staged data
            if F[i] is None:
                sp = specs[i]
                if sp[0] == 'idx':
                    F[i] = (df.create_indexed_string('f%d' % i, chunksize=sp[2]) if sp[1]
                            else fld.IndexedStringMemField(s, chunksize=sp[2]))
                else:
                    F[i] = _mk_plain(s, df, 'f%d' % i, sp[1], 'numeric', sp[2])
                D[i] = F[i].data
            return F[i]

        for op in case['ops']:
            i, o = op[0], op[1]
            f = touch(i)
            d = D[i]
            isidx = specs[i][0] == 'idx'
            arg = None
            if o in 'pw':
                arg = list(op[2]) if isidx else make_array(specs[i][2], op[2])
            if o == 'p':
                d.write_part(arg)
                _scribble(arg)
            elif o == 'c':
                d.complete()
            elif o == 'w':
                d.write(arg)
                _scribble(arg)
            elif o == 'x':
                d.clear()
            elif o == 'o':
                len(d)
                d[:]
                if isidx:
                    f.indices[:]
                    f.values[:]
            elif o == 'r':
                if isidx and not specs[i][1]:
                    D[i] = fld.WriteableIndexedFieldArray(specs[i][2], f.indices, f.values)
                    f._data_wrapper = D[i]
                else:
                    D[i] = f.data
            else:
                raise ValueError(op)
        for i in range(n):
            touch(i)

        def observe(i, f, ro_group):
            sp = specs[i]
            if sp[0] == 'idx':
                if sp[1]:
                    ro = fld.IndexedStringField(s, ro_group['f%d' % i], None, write_enabled=False).data
                else:
                    ro = fld.ReadOnlyIndexedFieldArray(f, f.indices, f.values)
                return _observe_idx(f, ro, [])
            return _observe_col(f, sp[2])

        sess = [observe(i, F[i], df._h5group if df is not None else None) for i in range(n)]
        if path is None:
            return [sess]
        s.close_dataset('d')
        s.close()
        s = Session()
        ds = s.open_dataset(path, 'r', 'd')
        df = ds['df']
        re = [observe(i, df['f%d' % i], df._h5group) for i in range(n) if specs[i][1]]
        return [sess, re]
    finally:
        try:
            s.close()
        except Exception:
            pass
        if path and os.path.exists(path):
            os.unlink(path)


# ------------------------------------------------------------------------------- arrays as objects
def _own_array(dt, vals, form):
    """a caller array: form 0 = an array that owns its memory (base is None, writeable);
    form 1 = a view into a larger buffer (what buffer[:n] of a staging buffer is)."""
    np = _np
    a = make_array(dt, vals)
    if form == 1:
        big = np.zeros(len(a) + 3, dtype=a.dtype)
        big[2:2 + len(a)] = a
        return big[2:2 + len(a)]
    if a.base is not None:
        a = a.copy()
    assert a.base is None and a.flags.writeable and a.flags.owndata
    return a


def _scalar(dt, v):
    return make_array(dt, [v])[0]


def _run_alias(case):
    np, fld, Session = _np, _fld, _Session
    s = Session()
    path = None
    ft, dt = case['ft'], case['dt']
    backs = case['fields']
    try:
        df = None
        if any(backs):
            path = _tmpfile()
            ds = s.open_dataset(path, 'w', 'd')
            df = ds.create_dataframe('df')
        F = [_mk_plain(s, df, 'f%d' % i, h5, ft, dt, case.get('key')) for i, h5 in enumerate(backs)]
        A = []

        def argof(x):
            if x[0] == 'a':
                return A[x[1]]
            if x[0] == 'as':
                return A[x[1]][x[2]:x[3]]
            g = F[x[1]].data[x[2]:x[3]]
            assert isinstance(g, np.ndarray)
            return g

        for op in case['ops']:
            o = op[0]
            if o == 'new':
                A.append(_own_array(dt, op[1], op[2]))
            elif o == 'fill':
                A[op[1]][:] = make_array(dt, op[2])
            elif o == 'cset':
                A[op[1]][op[2]] = _scalar(dt, op[3])
            elif o == 'p':
                F[op[1]].data.write_part(argof(op[2]))
            elif o == 'w':
                F[op[1]].data.write(argof(op[2]))
            elif o == 'pm':
                F[op[1]].data.write_part(A[op[2]], move_mem=True)
            elif o == 'c':
                F[op[1]].data.complete()
            elif o == 'fset':
                F[op[1]].data[op[2]] = _scalar(dt, op[3])
            elif o == 'x':
                F[op[1]].data.clear()
            else:
                raise ValueError(op)
        callers = [[np_value_enc(x) for x in a] for a in A]
        for a in A:
            assert dt_code(a.dtype) == dt_code(dt)

        def col(f):
            r = _observe_col(f, dt)
            return r if r[0] == 'DTYPE' else r[1]

        fields = [col(f) for f in F]
        if path is None:
            return [callers, fields]
        s.close_dataset('d')
        s.close()
        s = Session()
        ds = s.open_dataset(path, 'r', 'd')
        re = [col(ds['df']['f%d' % i]) for i, h5 in enumerate(backs) if h5]
        return [callers, fields, re]
    finally:
        try:
            s.close()
        except Exception:
            pass
        if path and os.path.exists(path):
            os.unlink(path)


# ------------------------------------------------------------------------------- names as part of the case
def _nb(name):
    return list(name.encode())


_PLAIN_CLASS = {'numeric': 'NumericField', 'timestamp': 'TimestampField', 'fixed': 'FixedStringField',
                'categorical': 'CategoricalField'}


def _write_named(df, name, sub):
    """create the field of the sub-case under `name` in dataframe df and run the sub-case's history on it"""
    if sub['k'] == 'idx':
        d = df.create_indexed_string(name, chunksize=sub['cs']).data
        for op in sub['ops']:
            if op[0] == 'p':
                arg = list(op[1]); d.write_part(arg); _scribble(arg)
            elif op[0] == 'c':
                d.complete()
            elif op[0] == 'w':
                arg = list(op[1]); d.write(arg); _scribble(arg)
            elif op[0] == 'x':
                d.clear()
            else:
                raise ValueError(op)
        return
    ft, dt, cs = sub['ft'], sub['dt'], sub.get('cs')
    if ft == 'numeric':
        f = df.create_numeric(name, dt, chunksize=cs)
    elif ft == 'timestamp':
        f = df.create_timestamp(name, chunksize=cs)
    elif ft == 'fixed':
        f = df.create_fixed_string(name, int(dt[1:]), chunksize=cs)
    elif ft == 'categorical':
        f = df.create_categorical(name, dt, dict((k, v) for k, v in sub['key']), chunksize=cs)
    else:
        raise ValueError(ft)
    d = f.data
    parts = [_own_array(pdt, vals, i % 2) for i, (pdt, vals) in enumerate(sub['parts'])]
    if sub['how'] == 'write':
        d.write(parts[0]); _scribble(parts[0])
    else:
        for p in parts:
            d.write_part(p); _scribble(p)
        d.complete()


def _observe_named(s, df, name, sub):
    def go():
        f = df[name]
        if sub['k'] == 'idx':
            assert type(f).__name__ == 'IndexedStringField' and f.indexed
            assert int(f.chunksize) == sub['cs']
            ro = _fld.IndexedStringField(s, df._h5group[name], None, write_enabled=False).data
            return _observe_idx(f, ro, [])
        ft, dt = sub['ft'], sub['dt']
        assert type(f).__name__ == _PLAIN_CLASS[ft], type(f).__name__
        if ft == 'numeric':
            assert f._nformat == dt
        elif ft == 'fixed':
            assert int(f._length) == int(dt[1:])
        elif ft == 'categorical':
            assert f.nformat == dt
        return _observe_plain(f, sub)
    return _guard(go)


def _observe_file(s, ds, frames):
    """[listing, field, field, ...]: listing = the dataset's dataframe names and every dataframe's field names (sorted)"""
    listing = [sorted(_nb(k) for k in ds.keys())]
    obs = []
    for dfname, fields in frames:
        df = _guard(lambda: ds[dfname])
        if isinstance(df, str):
            listing.append(df)
            obs += [df] * len(fields)
            continue
        assert (dfname in ds) and df.name == dfname
        listing.append(sorted(_nb(k) for k in df.keys()))
        for name, sub in fields:
            obs.append(_observe_named(s, df, name, sub))
    return [listing] + obs


def _run_names(case):
    Session = _Session
    s = Session()
    path = _tmpfile()
    frames = case['frames']
    dsn = case.get('ds', 'd')
    try:
        ds = s.open_dataset(path, 'w', dsn)
        if case.get('order'):
            # every dataframe first, then the fields round-robin over the dataframes
            DF = [ds.create_dataframe(fr[0]) for fr in frames]
            for j in range(max(len(fr[1]) for fr in frames)):
                for df, fr in zip(DF, frames):
                    if j < len(fr[1]):
                        _write_named(df, fr[1][j][0], fr[1][j][1])
        else:
            for dfname, fields in frames:
                df = ds.create_dataframe(dfname)
                for name, sub in fields:
                    _write_named(df, name, sub)
        assert s.get_dataset(dsn) is ds
        sess = _observe_file(s, ds, frames)
        s.close_dataset(dsn)
        s.close()
        s = Session()                       # a fresh session: nothing but the file carries over
        ds = s.open_dataset(path, case.get('mode', 'r'), dsn)
        return [sess, _observe_file(s, ds, frames)]
    finally:
        try:
            s.close()
        except Exception:
            pass
        if os.path.exists(path):
            os.unlink(path)


def _names_subs(case):
    return [sub for _, fields in case['frames'] for _, sub in fields]


def _names_listing(case):
    return [sorted(_nb(fr[0]) for fr in case['frames'])] + [sorted(_nb(n) for n, _ in fr[1]) for fr in case['frames']]


def run(case):
    if case['k'] == 'names':
        return _run_names(case)
    if case['k'] == 'idx':
        return _run_idx(case)
    if case['k'] == 'multi':
        return _run_multi(case)
    if case['k'] == 'alias':
        return _run_alias(case)
    return _run_plain(case)


# ------------------------------------------------------------------------------- model side
def _b(s):
    return list(s.encode())


_OPC = {'p': 0, 'c': 1, 'w': 2, 'x': 3, 'r': 4, 'o': 5}


def _arg_val(x):
    return [0, x[1]] if x[0] == 'a' else [1 if x[0] == 'as' else 2, x[1], x[2], x[3]]


def to_val(case):
    if case['k'] == 'names':
        return [5, [to_val(sub) for sub in _names_subs(case)]]
    if case['k'] == 'multi':
        specs = [[0, sp[1], sp[2]] if sp[0] == 'idx' else [1, sp[1], dt_code(sp[2])] for sp in case['fields']]
        ops = []
        for op in case['ops']:
            i, o = op[0], op[1]
            sp = case['fields'][i]
            if o in 'pw':
                pl = [_b(x) for x in op[2]] if sp[0] == 'idx' else [enc_value(sp[2], x) for x in op[2]]
                ops.append([i, [_OPC[o], pl]])
            else:
                ops.append([i, [_OPC[o]]])
        return [3, specs, ops]
    if case['k'] == 'alias':
        dt = case['dt']
        ops = []
        for op in case['ops']:
            o = op[0]
            if o == 'new':
                ops.append([0, [enc_value(dt, x) for x in op[1]]])
            elif o == 'fill':
                ops.append([1, op[1], [enc_value(dt, x) for x in op[2]]])
            elif o == 'cset':
                ops.append([2, op[1], op[2], enc_value(dt, op[3])])
            elif o in 'pw':
                ops.append([3, op[1], _arg_val(op[2])])
            elif o == 'pm':
                ops.append([4, op[1], op[2], 1])
            elif o == 'c':
                ops.append([5, op[1]])
            elif o == 'fset':
                ops.append([6, op[1], op[2], enc_value(dt, op[3])])
            else:
                ops.append([7, op[1]])
        return [4, list(case['fields']), ops]
    if case['k'] == 'idx':
        ops = []
        for op in case['ops']:
            if op[0] == 'p':
                ops.append([0, [_b(s) for s in op[1]]])
            elif op[0] == 'c':
                ops.append([1])
            elif op[0] == 'w':
                ops.append([2, [_b(s) for s in op[1]]])
            elif op[0] == 'x':
                ops.append([3])
            else:
                ops.append([4])
        if case.get('lite') is not None:
            return [1, case['h5'], case['cs'], ops, [], [list(p) for p in case['lite']]]
        return [1, case['h5'], case['cs'], ops, [list(e) for e in case.get('extra', [])]]
    dt = case['dt']
    parts = [[dt_code(pdt), [enc_value(pdt, v) for v in vals]] for pdt, vals in case['parts']]
    key = []
    if case['ft'] == 'categorical':
        lo, hi = INT_RANGE[dt]
        W = 2 ** 62 - 1                  # the wire carries 63-bit integers; generated key values stay inside
        key = [max(lo, -W), min(hi, W), [v for _, v in case['key']]]
    return [2, case['h5'], dt_code(dt), parts, key]


def _dec(v):
    """nested error triples -> the strings the implementation side uses."""
    if isinstance(v, list):
        if len(v) == 3 and v[0] == -999 and all(isinstance(x, int) for x in v):
            kind, arg = v[1], v[2]
            if kind == 1:
                return 'EXC:IndexError'
            if kind == 2:
                return 'EXC:' + {1: 'ValueError', 2: 'TypeError', 3: 'IndexError', 4: 'KeyError',
                                 5: 'OverflowError'}.get(arg, 'Other')
            return 'MODEL-ERR:%d' % kind
        return [_dec(x) for x in v]
    return v


def from_val(case, v):
    if case['k'] == 'names':
        # the model is name-agnostic: the i-th answer is what must be found under the i-th name, in the session and
        # after reopen; the listing is the set of names created
        subs = _names_subs(case)
        ms = [from_val(sub, [v[0][i], v[1][i]]) for i, sub in enumerate(subs)]
        lst = _names_listing(case)
        at = lambda r, k: r if isinstance(r, str) else r[k]
        return tuple([[lst] + [at(x[c], k) for x in ms] for k in (0, 1)] for c in (0, 1))
    m, s = _dec(v[0]), _dec(v[1])
    if case['k'] == 'multi':
        h5 = [i for i, sp in enumerate(case['fields']) if sp[1]]
        shape = lambda r: r if isinstance(r, str) else ([r, [r[i] for i in h5]] if h5 else [r])
        return shape(m), shape(s)
    if case['k'] == 'alias':
        if s == -1:                       # the value semantics does not define this history: no claim
            s = m
        h5 = [i for i, b in enumerate(case['fields']) if b]
        shape = lambda r: r if isinstance(r, str) else ([r[0], r[1], [r[1][i] for i in h5]] if h5 else [r[0], r[1]])
        return shape(m), shape(s)
    if case['k'] == 'plain' and case['ft'] == 'categorical':
        names = [_b(k) for k, _ in case['key']]
        for r in (m, s):
            if isinstance(r, list):
                r[4] = [[kv, nm] for kv, nm in zip(r[4], names)]
    if case.get('noclaim'):
        s = m
    twice = lambda r: r if isinstance(r, str) else ([r, r] if case['h5'] else [r])
    return twice(m), twice(s)


# ------------------------------------------------------------------------------- features / findings
def _written(case):
    acc = []
    for op in case['ops']:
        if op[0] in 'pw':
            acc = acc + list(op[1])
        elif op[0] == 'x':
            acc = []
    return acc


def _idx_trace(case):
    """replay the staging counters of the writer to label the case (labels only, no verdict)."""
    cs = case['cs']
    vi = ii = 0
    nind = 0
    f = set()
    for op in case['ops']:
        if op[0] in 'pw':
            if not op[1]:
                f.add('empty-part')
            for s in op[1]:
                bs = s.encode()
                if not bs:
                    f.add('empty-string')
                if len(bs) > len(s):
                    f.add('multibyte')
                if len(bs) > cs:
                    f.add('string-longer-than-chunk')
                for k, _ in enumerate(bs):
                    vi += 1
                    if vi == cs:
                        f.add('value-flush-in-write_part')
                        if k + 1 < len(bs):
                            f.add('flush-inside-a-string')
                            # a flush that splits a multi-byte character
                            if (bs[k + 1] & 0xC0) == 0x80:
                                f.add('flush-splits-utf8-char')
                        else:
                            f.add('value-flush-exactly-at-string-end')
                        vi = 0
                ii += 1
                if ii == cs:
                    f.add('index-flush-in-write_part')
                    if nind == 0:
                        f.add('sentinel-in-write_part')
                    nind += ii + (1 if nind == 0 else 0)
                    ii = 0
        if op[0] in 'cw':
            if vi:
                f.add('value-flush-in-complete')
            elif any(s for s in _written(case)):
                f.add('complete-with-empty-value-buffer')
            if ii:
                f.add('index-flush-in-complete')
                if nind == 0:
                    f.add('sentinel-in-complete')
                nind += ii + (1 if nind == 0 else 0)
            vi = ii = 0
        if op[0] == 'x':
            f.add('clear-with-staged-data' if (vi or ii) else 'clear')
            nind = 0
        if op[0] == 'r':
            f.add('new-wrapper-with-staged-data' if (vi or ii) else 'new-wrapper(reopen r+)-then-append')
            vi = ii = 0
    return f


def _hist_ok(ops):
    """the histories of the property (coq hist_ok): nothing staged at the end, clear / new wrapper only when
    nothing is staged.  ops: [name, payload?] of ONE field."""
    pending = False
    for op in ops:
        if op[0] == 'p':
            pending = True
        elif op[0] in 'cw':
            pending = False
        elif op[0] in 'xr' and pending:
            return False
    return not pending


def _multi_proj(case, i):
    return [op[1:] for op in case['ops'] if op[0] == i]


def _multi_written(case, i):
    return _written({'ops': [o for o in _multi_proj(case, i) if o[0] != 'o']})


def _multi_features(case):
    f = set()
    specs = case['fields']
    kinds = set('h5' if sp[1] else 'mem' for sp in specs)
    f.add('multi-' + ('mixed-backings' if len(kinds) == 2 else kinds.pop()))
    css = [sp[2] for sp in specs if sp[0] == 'idx']
    if len(css) >= 2:
        f.add('multi-same-chunksize' if len(set(css)) < len(css) else 'multi-all-chunksizes-differ')
    if len(specs) >= 3:
        f.add('multi-3+fields')
    if len(set(sp[0] for sp in specs)) == 2:
        f.add('multi-plain+indexed')
    pending = [False] * len(specs)
    seen = set()
    for op in case['ops']:
        i, o = op[0], op[1]
        others = any(pending[j] for j in range(len(specs)) if j != i)
        if others:
            if i not in seen:
                f.add('multi-field-created-while-another-has-staged-data')
            if o in 'pw':
                f.add('multi-write-while-another-field-has-staged-data')
            if o == 'o':
                f.add('multi-read-while-another-field-has-staged-data')
            if o == 'c':
                f.add('multi-complete-while-another-field-has-staged-data')
            if o in 'xr':
                f.add('multi-clear/new-wrapper-while-another-field-has-staged-data')
        seen.add(i)
        if o == 'p' and op[2]:
            pending[i] = True
        elif o in 'cw':
            pending[i] = False
    return f


def _alias_features(case):
    f = set()
    backs = case['fields']
    f.add('alias-' + ('mixed-backings' if len(set(backs)) == 2 else 'h5' if backs[0] else 'mem'))
    f.add('alias-%s:%s' % (case['ft'], case['dt']))
    written = {}          # array k -> fields it was written to (whole or view) since its last change
    forms = {}
    nnew = 0
    empty = [True] * len(backs)
    for op in case['ops']:
        o = op[0]
        if o == 'new':
            forms[nnew] = op[2]
            nnew += 1
        elif o in ('fill', 'cset'):
            if written.get(op[1]):
                f.add('alias-caller-refills-array-after-writing-it' if o == 'fill'
                      else 'alias-caller-edits-array-after-writing-it')
        elif o in 'pw':
            x = op[2]
            if x[0] in ('a', 'as'):
                if empty[op[1]] and x[0] == 'a' and forms.get(x[1]) == 0:
                    f.add('alias-first-write-is-an-array-owning-its-memory')
                if x[0] == 'as' or forms.get(x[1]) == 1:
                    f.add('alias-argument-is-a-view')
                fs = written.setdefault(x[1], set())
                if fs and op[1] not in fs:
                    f.add('alias-same-array-written-to-two-fields')
                if op[1] in fs:
                    f.add('alias-same-array-object-written-twice-to-one-field')
                fs.add(op[1])
            else:
                f.add('alias-argument-is-own-storage' if x[1] == op[1] else 'alias-argument-is-another-fields-storage')
            empty[op[1]] = False
        elif o == 'pm':
            f.add('alias-move_mem(no-claim)')
            empty[op[1]] = False
        elif o == 'fset':
            f.add('alias-field-edited-through-setitem')
            if any(op[1] in fs and len(fs) > 1 for fs in written.values()):
                f.add('alias-field-edited-after-sharing-an-argument-with-another-field')
        elif o == 'x':
            f.add('alias-clear-then-write-again')
            empty[op[1]] = True
    return f


def features(case, model):
    f = set()
    if isinstance(model, str):
        f.add('err:' + model)
    if case['k'] == 'multi':
        return sorted(f | _multi_features(case))
    if case['k'] == 'alias':
        return sorted(f | _alias_features(case))
    if case['k'] == 'names':
        return sorted(f | _names_features(case))
    if case['k'] == 'idx':
        f.add('idx-h5' if case['h5'] else 'idx-mem')
        f |= _idx_trace(case)
        w = _written(case)
        if not w:
            f.add('empty-sequence')
        elif not any(w):
            f.add('all-strings-empty')
        if len([o for o in case['ops'] if o[0] == 'p']) >= 2:
            f.add('several-write_part')
        if len([o for o in case['ops'] if o[0] in 'cw']) >= 2:
            f.add('several-complete')
        nbytes = sum(len(s.encode()) for s in w)
        if nbytes and nbytes % case['cs'] == 0:
            f.add('bytes-multiple-of-chunksize')
        if w and len(w) % case['cs'] == 0:
            f.add('entries-multiple-of-chunksize')
        if nbytes and nbytes % case['cs'] == 1:
            f.add('bytes-one-past-chunk')
        if case.get('extra'):
            f.add('out-of-range-read')
        if case['cs'] == 1 << 20:
            f.add('default-chunksize-1<<20')
        if case.get('lite') is not None:
            f.add('long-column(sampled-reads)')
        if any(len(x.encode()) >= 256 for x in w):
            f.add('string-of-256+-bytes')
        if case.get('hot'):
            f.add('planted-around-new-literal')
    else:
        f.add(('%s-%s' % (case['ft'], 'h5' if case['h5'] else 'mem')))
        f.add('dtype:' + case['dt'])
        vals = [v for _, vs in case['parts'] for v in vs]
        if not vals:
            f.add('empty-sequence')
        if case['how'] == 'parts' and len(case['parts']) >= 2:
            f.add('several-write_part')
        if case['how'] == 'parts' and any(not vs for _, vs in case['parts']):
            f.add('empty-part')
        if case['how'] == 'parts' and len(case['parts']) >= 2 and not case['parts'][-1][1] \
                and any(vs for _, vs in case['parts'][:-1]) and not case['h5']:
            f.add('mem-empty-part-on-nonempty-field(F-C01a)')
        if any(pdt != case['dt'] for pdt, _ in case['parts']):
            f.add('cross-dtype-write')
        if case['dt'] in INT_RANGE and case['ft'] != 'categorical':
            lo, hi = INT_RANGE[case['dt']]
            if any(v in (lo, hi) for v in vals):
                f.add('extreme-integer')
        if case['dt'].startswith('float') and any(_is_special(case['dt'], v) for v in vals):
            f.add('float-special(nan/inf/-0/subnormal)')
        if case.get('cs'):
            f.add('plain-field-small-chunksize')
        if case['ft'] == 'categorical':
            lo, hi = INT_RANGE['int8']
            if any(not (lo <= v <= hi) for _, v in case['key']):
                f.add('key-value-outside-int8(F-C01c)')
    return sorted(f)


def _is_special(dt, bits):
    if dt == 'float32':
        e, m = (bits >> 23) & 0xFF, bits & 0x7FFFFF
        return e == 0xFF or (e == 0 and (m != 0 or bits >> 31))
    e, m = (bits >> 52) & 0x7FF, bits & ((1 << 52) - 1)
    return e == 0x7FF or (e == 0 and (m != 0 or bits >> 63))


def nontrivial(case, model):
    if case['k'] == 'names':
        return any(nontrivial(sub, None) for sub in _names_subs(case))
    if case['k'] == 'multi':
        return sum(1 for i in range(len(case['fields'])) if _multi_written(case, i)) >= 2
    if case['k'] == 'alias':
        return any(op[0] in ('p', 'w') for op in case['ops'])
    if case['k'] == 'idx':
        return len(_written(case)) >= 1 or len(case['ops']) >= 2
    return sum(len(vs) for _, vs in case['parts']) >= 1


def known(case, impl, model, spec, mode):
    """F-C01b: a memory-backed field keeps the dtype of the first array written, not its own.
       F-C01e: an indexed-string field that holds no entry stores offsets [] instead of [0]."""
    if impl != model:          # the model is faithful about both defects; anything else is new
        return None
    if case['k'] == 'multi':
        # F-C01e per field: an indexed field that holds no entry stores offsets [] where the spec says [0]
        if not (isinstance(impl, list) and isinstance(spec, list)):
            return None
        hit = False
        h5 = [i for i, sp in enumerate(case['fields']) if sp[1]]
        for blk, (ri, rs) in enumerate(zip(impl, spec)):
            idxs = list(range(len(case['fields']))) if blk == 0 else h5
            for i, a, b in zip(idxs, ri, rs):
                if a == b:
                    continue
                if case['fields'][i][0] == 'idx' and not _multi_written(case, i) \
                        and a[0] == [] and b[0] == [0] and a[1:] == b[1:]:
                    hit = True
                else:
                    return None
        return 'F-C01e' if hit else None
    if case['k'] in ('alias', 'names'):
        return None
    if case['k'] == 'plain' and not case['h5'] and case['parts'] and case['parts'][0][0] != case['dt']:
        # only the dtype may differ
        if isinstance(impl, list) and isinstance(spec, list) and \
                [r[1:] for r in impl] == [r[1:] for r in spec]:
            return 'F-C01b'
    if case['k'] == 'idx' and not _written(case):
        if isinstance(impl, list) and isinstance(spec, list) and \
                all(r[0] == [] and s[0] == [0] and r[1:] == s[1:] for r, s in zip(impl, spec)):
            return 'F-C01e'
    return None


# ------------------------------------------------------------------------------- generators
def compositions(n):
    """all ways to cut range(n) into consecutive non-empty blocks (as lists of block lengths)."""
    if n == 0:
        yield []
        return
    for first in range(1, n + 1):
        for rest in compositions(n - first):
            yield [first] + rest


def _split(seq, comp):
    out, i = [], 0
    for k in comp:
        out.append(list(seq[i:i + k]))
        i += k
    return out


ALPHA = ['', 'a', 'é', 'b€']        # 0, 1, 2 (one 2-byte char), 4 bytes (1 + a 3-byte char)


def _idx_histories(seq, with_empty_parts):
    """histories that write seq: write(seq); every composition as write_part* + complete;
    optionally empty parts interleaved."""
    seq = list(seq)
    yield [['w', seq]]
    for comp in compositions(len(seq)):
        parts = _split(seq, comp)
        yield [['p', p] for p in parts] + [['c']]
        if with_empty_parts and len(parts) <= 2:
            for pos in range(len(parts) + 1):
                ps = parts[:pos] + [[]] + parts[pos:]
                yield [['p', p] for p in ps] + [['c']]
    if not seq:
        yield [['c']]
        yield [['p', []], ['c']]


def gen_idx(tier, rng):
    big = tier == 'thorough'
    # 1. exhaustive, memory-backed: every sequence over ALPHA up to length nmax, every partition, chunk sizes 1..6
    nmax = 5 if big else 4
    for n in range(0, nmax + 1):
        for seq in itertools.product(ALPHA, repeat=n):
            for hist in _idx_histories(seq, with_empty_parts=(n <= 2)):
                for cs in range(1, 7):
                    yield {'k': 'idx', 'h5': 0, 'cs': cs, 'ops': hist, 'extra': []}
    # 2. exhaustive, HDF5-backed (each case creates, closes and reopens a file): up to length 3 (4 thorough)
    nh = 5 if big else 4
    for n in range(0, nh + 1):
        for seq in itertools.product(ALPHA, repeat=n):
            for hist in _idx_histories(seq, with_empty_parts=(n <= 1)):
                for cs in ((1, 2, 3, 4, 5, 6) if n <= (3 if big else 2) else (1, 2, 3, 5) if n < nh else (2, 3)):
                    yield {'k': 'idx', 'h5': 1, 'cs': cs, 'ops': hist, 'extra': []}
    # 3. several write/complete rounds on the same wrapper (the running byte total must carry over)
    for h5 in (0, 1):
        for a, b in itertools.product([[], ['a'], ['', 'é'], ['a', 'b€', '']], repeat=2):
            for cs in (1, 2, 3, 4):
                yield {'k': 'idx', 'h5': h5, 'cs': cs, 'ops': [['w', a], ['w', b]], 'extra': []}
                yield {'k': 'idx', 'h5': h5, 'cs': cs, 'ops': [['p', a], ['c'], ['c'], ['p', b], ['c']], 'extra': []}
                # clear after a completed write, then write again
                yield {'k': 'idx', 'h5': h5, 'cs': cs, 'ops': [['w', a], ['x'], ['w', b]], 'extra': []}
                # a new wrapper (HDF5: dataset closed and reopened 'r+') continues the column
                yield {'k': 'idx', 'h5': h5, 'cs': cs, 'ops': [['w', a], ['r'], ['w', b]], 'extra': []}
                yield {'k': 'idx', 'h5': h5, 'cs': cs, 'ops': [['p', a], ['c'], ['r'], ['p', b], ['p', a], ['c']], 'extra': []}
    # 4. structured random: longer sequences, chunk sizes around the byte / entry totals
    pool = ['', '', 'a', 'zz', 'é', '€', '\U0001F600', 'hello', 'x' * 7, 'ééé']
    for _ in range(1500 if big else 250):
        n = rng.randint(3, 12)
        seq = [rng.choice(pool) for _ in range(n)]
        nbytes = sum(len(s.encode()) for s in seq)
        cs = rng.choice([1, 2, 3, max(1, nbytes - 1), max(1, nbytes), nbytes + 1, max(1, n - 1), n, n + 1,
                         max(1, nbytes // 2), rng.randint(1, 16)])
        cuts = sorted(rng.sample(range(n + 1), rng.randint(0, min(4, n))))
        parts, i = [], 0
        for c in cuts + [n]:
            parts.append(seq[i:c]); i = c
        h5 = 1 if rng.random() < 0.25 else 0
        yield {'k': 'idx', 'h5': h5, 'cs': cs, 'ops': [['p', p] for p in parts] + [['c']], 'extra': []}
    # 4b. the production chunksize (1 << 20): nothing is flushed before complete()
    for h5 in (0, 1):
        for seq in ([], ['a'], ['', 'é', 'b€'], ['hello'] * 7 + ['']):
            yield {'k': 'idx', 'h5': h5, 'cs': 1 << 20, 'ops': [['w', seq]], 'extra': []}
            yield {'k': 'idx', 'h5': h5, 'cs': 1 << 20, 'ops': [['p', seq[:1]], ['p', seq[1:]], ['c']], 'extra': []}
    # 5. outside the property (no claim, model faithfulness only): reads beyond the range, clear with staged data
    for h5 in (0, 1):
        for seq in ([], ['a'], ['a', '', 'é']):
            n = len(seq)
            extra = [[0, 0, n + 1], [1, 0, n + 2], [0, n + 1, n + 1], [2, n, 0], [2, n + 3, 0], [0, 1, 0], [1, 1, 0]]
            yield {'k': 'idx', 'h5': h5, 'cs': 2, 'ops': [['w', seq]], 'extra': extra}
        for cs in (1, 2, 3):
            yield {'k': 'idx', 'h5': h5, 'cs': cs, 'ops': [['p', ['a']], ['x'], ['w', ['b']]], 'extra': [], 'noclaim': 1}
            yield {'k': 'idx', 'h5': h5, 'cs': cs, 'ops': [['p', ['ab', 'c']], ['x'], ['w', ['d', '']]], 'extra': [], 'noclaim': 1}


def _f32(x):
    return struct.unpack('<I', struct.pack('<f', x))[0]


def _f64(x):
    return struct.unpack('<Q', struct.pack('<d', x))[0]


FLOAT_POOL = {
    'float32': [_f32(0.0), 0x80000000, _f32(1.5), 0x7F800000, 0xFF800000, 0x7FC00000, 0x7FC00001, 0x00000001,
                0x7F7FFFFF, _f32(-3.25)],
    'float64': [_f64(0.0), 1 << 63, _f64(1.5), 0x7FF0000000000000, 0xFFF0000000000000, 0x7FF8000000000000,
                0x7FF8000000000001, 1, 0x7FEFFFFFFFFFFFFF, _f64(-3.25), _f64(1600000000.123456)],
}


def _pool(dt):
    if dt in FLOAT_POOL:
        return FLOAT_POOL[dt]
    lo, hi = INT_RANGE[dt]
    return sorted(set([lo, hi, 0, 1, max(lo, -1), hi - 1, lo + 1, min(hi, 100)]))


def _plain_histories(dt, seq, src=None):
    src = src or dt
    seq = list(seq)
    yield 'write', [[src, seq]]
    comps = [c for c in compositions(len(seq)) if c]      # at least one write_part call
    if len(seq) > 4:                     # long sequences: a spread of partitions, not all 2^(n-1)
        comps = comps[::max(1, len(comps) // 12)]
    for comp in comps:
        yield 'parts', [[src, p] for p in _split(seq, comp)]
    if len(seq) <= 2:
        for comp in compositions(len(seq)):
            parts = _split(seq, comp)
            for pos in range(len(parts) + 1):
                yield 'parts', [[src, p] for p in parts[:pos] + [[]] + parts[pos:]]


def gen_plain(tier, rng):
    big = tier == 'thorough'
    for dt in DTYPES:
        pool = _pool(dt)
        seqs = [[]] + [[v] for v in pool] + [list(p) for p in itertools.product(pool[:4], repeat=2)]
        seqs += [pool[:3], pool[-3:], pool[:4], pool]
        if big:
            seqs += [list(p) for p in itertools.product(pool[:3], repeat=3)]
        for seq in seqs:
            for how, parts in _plain_histories(dt, seq):
                for h5 in (0, 1):
                    if h5 and not big and len(seq) == 2 and seq[0] != pool[0] and how == 'parts' and len(parts) > 2:
                        continue
                    yield {'k': 'plain', 'h5': h5, 'ft': 'numeric', 'dt': dt, 'how': how, 'parts': parts, 'key': None}
    # timestamps
    for seq in ([], [FLOAT_POOL['float64'][-1]], FLOAT_POOL['float64'][:3], FLOAT_POOL['float64']):
        for how, parts in _plain_histories('float64', seq):
            for h5 in (0, 1):
                yield {'k': 'plain', 'h5': h5, 'ft': 'timestamp', 'dt': 'float64', 'how': how, 'parts': parts, 'key': None}
    # fixed strings (numpy 'S' strips trailing NULs: values do not end in NUL)
    for L, pool in ((1, [[], [97], [255]]), (3, [[], [97], [97, 98, 99], [195, 169], [97, 0, 98], [32, 32]])):
        dt = 'S%d' % L
        seqs = [[]] + [[v] for v in pool] + [list(p) for p in itertools.product(pool[:4], repeat=2)] + [pool]
        for seq in seqs:
            for how, parts in _plain_histories(dt, seq):
                for h5 in (0, 1):
                    yield {'k': 'plain', 'h5': h5, 'ft': 'fixed', 'dt': dt, 'how': how, 'parts': parts, 'key': None}
    # categorical, with keys whose values use the range of the field's nformat
    keys = {
        'int8': [[['a', 0], ['b', 1]], [['', 0], ['é', 2], ['zz', -1]], [['x', -128], ['y', 127]]],
        'int16': [[['a', 0], ['b', 1]], [['x', 300], ['y', -1]], [['lo', -32768], ['hi', 32767]], [['n', -129], ['m', 128]]],
        'int32': [[['a', 1], ['b', 2 ** 31 - 1]], [['a', 0], ['b', 70000]]],
        'uint8': [[['a', 0], ['b', 1]], [['k', 200], ['l', 255]]],
        'int64': [[['a', 0], ['big', 2 ** 40]]],
    }
    for dt, kl in keys.items():
        for key in kl:
            kv = [v for _, v in key]
            seqs = [[], [kv[0]], kv, kv + kv[::-1]]
            for seq in seqs:
                for how, parts in _plain_histories(dt, seq):
                    for h5 in (0, 1):
                        yield {'k': 'plain', 'h5': h5, 'ft': 'categorical', 'dt': dt, 'how': how, 'parts': parts, 'key': key}
    # cross-dtype writes (values representable in both): HDF5 casts to the field's dtype, memory fields should too
    for dt, src in (('int32', 'int64'), ('int8', 'int64'), ('int64', 'int32'), ('uint8', 'int64'), ('int16', 'int32')):
        for seq in ([], [1], [1, 2, 3], [0, 100]):
            for how, parts in _plain_histories(dt, seq, src):
                for h5 in (0, 1):
                    yield {'k': 'plain', 'h5': h5, 'ft': 'numeric', 'dt': dt, 'how': how, 'parts': parts, 'key': None}
        # first part in the field's dtype, the next in another: the stored dtype stays
        for h5 in (0, 1):
            yield {'k': 'plain', 'h5': h5, 'ft': 'numeric', 'dt': dt, 'how': 'parts',
                   'parts': [[dt, [1, 2]], [src, [3]]], 'key': None}


def gen_plain_chunksize(tier, rng):
    """HDF5-backed plain fields created with small chunk sizes (the writers ignore it: same result)."""
    for cs in (1, 2, 3):
        for ft, dt, seq, key in (('numeric', 'int32', [1, -2 ** 31, 2 ** 31 - 1, 0], None),
                                 ('numeric', 'float64', FLOAT_POOL['float64'][:4], None),
                                 ('timestamp', 'float64', FLOAT_POOL['float64'][-3:], None),
                                 ('fixed', 'S3', [[97], [], [97, 98, 99]], None),
                                 ('categorical', 'int8', [0, 1, 1, 0], [['a', 0], ['b', 1]])):
            for how, parts in _plain_histories(dt, seq):
                yield {'k': 'plain', 'h5': 1, 'ft': ft, 'dt': dt, 'how': how, 'parts': parts, 'key': key, 'cs': cs}


# ------------------------------------------------------------------------------- several fields: generators
def _merges(a, b):
    """all interleavings of the sequences a and b (order inside each kept)."""
    if not a:
        yield list(b)
        return
    if not b:
        yield list(a)
        return
    for m in _merges(a[1:], b):
        yield [a[0]] + m
    for m in _merges(a, b[1:]):
        yield [b[0]] + m


ALPHA_A = ['', 'a', 'é€']            # 0, 1, 5 bytes
B_HISTORIES = [[['w', ['X']]],
               [['p', ['X', 'YZ']], ['c']],
               [['p', ['Ω']], ['p', ['', 'W']], ['c']],
               [['o'], ['p', ['']], ['c'], ['o']]]


def _two_field_cases(nmax, specs_of):
    for n in range(0, nmax + 1):
        for seq in itertools.product(ALPHA_A, repeat=n):
            for ha in _idx_histories(seq, with_empty_parts=(n <= 1)):
                ta = [[0] + list(o) for o in ha]
                for hb in B_HISTORIES:
                    tb = [[1] + list(o) for o in hb]
                    for m in _merges(ta, tb):
                        for specs in specs_of:
                            yield {'k': 'multi', 'fields': specs, 'ops': m}


def _field_strings(rng, i, n):
    tag = 'ABCDEFG'[i]
    pool = ['', tag, tag + 'z', tag + 'é', tag + '€€', tag * 7, tag + '\U0001F600', '']
    return [rng.choice(pool) for _ in range(n)]


def _random_multi(rng):
    k = rng.choice([2, 2, 3, 3, 4])
    r = rng.random()
    backs = [0] * k if r < 0.6 else [1] * k if r < 0.75 else [rng.randint(0, 1) for _ in range(k)]
    same = rng.random() < 0.7
    big_cs = (1 << 20) if rng.random() < 0.05 else 64
    cs0 = rng.choice([1, 2, 3, 4, 5, 8, 16, big_cs])
    specs, hists = [], []
    for i in range(k):
        if rng.random() < 0.75:
            cs = cs0 if same else rng.choice([1, 2, 3, 4, 5, 8, 16, big_cs])
            specs.append(['idx', backs[i], cs])
            h = [['o']] if rng.random() < 0.1 else []      # reads only while the field itself has nothing staged
            for rnd in range(2 if rng.random() < 0.25 else 1):
                seq = _field_strings(rng, i, rng.randint(1, 6))
                if rng.random() < 0.3:
                    h.append(['w', seq])
                else:
                    nb = rng.randint(1, 3)
                    cuts = sorted(rng.randint(0, len(seq)) for _ in range(nb - 1))
                    j = 0
                    for c in cuts + [len(seq)]:
                        h.append(['p', seq[j:c]])
                        j = c
                    h.append(['c'])
                if rng.random() < 0.3:
                    h.append(['o'])
                if rnd == 0 and rng.random() < 0.1:
                    h.append(['x'])
                elif rnd == 0 and not backs[i] and rng.random() < 0.2:
                    h.append(['r'])
            hists.append(h)
        else:
            dt = rng.choice(['int32', 'int64', 'float64', 'uint8'])
            specs.append(['plain', backs[i], dt])
            pool = _pool(dt)
            seq = [rng.choice(pool) for _ in range(rng.randint(1, 6))]
            nb = rng.randint(1, 3)
            cuts = sorted(rng.randint(0, len(seq)) for _ in range(nb - 1))
            h, j = [], 0
            for c in cuts + [len(seq)]:
                h.append(['p', seq[j:c]])
                j = c
            h.append(['c'])
            hists.append(h)
    # round-robin (a column-wise loader) or a random merge
    ops = []
    if rng.random() < 0.4:
        pos = [0] * k
        while any(pos[i] < len(hists[i]) for i in range(k)):
            for i in range(k):
                if pos[i] < len(hists[i]):
                    ops.append([i] + hists[i][pos[i]])
                    pos[i] += 1
    else:
        pos = [0] * k
        live = [i for i in range(k) if hists[i]]
        while live:
            i = rng.choice(live)
            ops.append([i] + hists[i][pos[i]])
            pos[i] += 1
            if pos[i] == len(hists[i]):
                live.remove(i)
    return {'k': 'multi', 'fields': specs, 'ops': ops}


def gen_multi(tier, rng):
    big = tier == 'thorough'
    boost = 4 if hot.changed() else 1
    # 1. exhaustive small: two indexed fields with the SAME chunk size, every interleaving of their histories
    #    (64 = nothing is flushed before complete(), as with the production default 1 << 20, whose model run costs
    #    0.4 s per field: the default itself is taken for every 320th case)
    mem_same = [[['idx', 0, cs], ['idx', 0, cs]] for cs in (1, 2, 3, 64)]
    k = 0
    for c in _two_field_cases(3 if big else 2, mem_same):
        yield c
        k += 1
        if c['fields'][0][2] == 64 and k % (160 if big else 320) == 0:
            yield {'k': 'multi', 'fields': [['idx', 0, 1 << 20], ['idx', 0, 1 << 20]], 'ops': c['ops']}
    # 2. different chunk sizes
    for c in _two_field_cases(2 if big else 1, [[['idx', 0, 2], ['idx', 0, 3]], [['idx', 0, 3], ['idx', 0, 1]]]):
        yield c
    # 3. HDF5-backed in one dataframe, and mixed backings in one session
    h5specs = [[['idx', 1, 2], ['idx', 1, 2]], [['idx', 1, 64], ['idx', 1, 64]],
               [['idx', 1, 2], ['idx', 0, 2]]]
    for c in _two_field_cases(2 if big else 1, h5specs):
        yield c
        k += 1
        if c['fields'][0][2] == 64 and k % (80 if big else 160) == 0:
            yield {'k': 'multi', 'fields': [['idx', 1, 1 << 20], ['idx', 1, 1 << 20]], 'ops': c['ops']}
    # 4. two plain fields / a plain and an indexed field
    ta = [[0, 'p', [1, 2]], [0, 'p', [3]], [0, 'c']]
    for tb, spb in (([[1, 'p', [7]], [1, 'o'], [1, 'p', [8, 9]], [1, 'c']], ['plain', 0, 'int32']),
                    ([[1, 'p', ['x', '']], [1, 'p', ['yz']], [1, 'c']], ['idx', 0, 2])):
        for m in _merges(ta, tb):
            for h5 in (0, 1):
                yield {'k': 'multi', 'fields': [['plain', h5, 'int32'], [spb[0], h5, spb[2]]], 'ops': m}
    # 5. structured random: 2..4 fields, batches, round-robin or random merges, reads, second rounds
    for _ in range((1500 if big else 220) * boost):
        yield _random_multi(rng)


# ------------------------------------------------------------------------------- arrays as objects: generators
def _vstep(st, op):
    """value semantics of one op on st = (arrays, fields) (lists of lists); False when the op is outside the
    histories the specification defines (generator-side only: never a verdict)."""
    A, F = st
    o = op[0]

    def arg(x):
        src = A if x[0] in ('a', 'as') else F
        if not (0 <= x[1] < len(src)):
            return None
        l = src[x[1]]
        if x[0] == 'a':
            return list(l)
        if not (0 <= x[2] <= x[3] <= len(l)):
            return None
        return list(l[x[2]:x[3]])

    if o == 'new':
        A.append(list(op[1]))
    elif o == 'fill':
        if not (0 <= op[1] < len(A)) or len(op[2]) != len(A[op[1]]):
            return False
        A[op[1]] = list(op[2])
    elif o == 'cset':
        if not (0 <= op[1] < len(A)) or not (0 <= op[2] < len(A[op[1]])):
            return False
        A[op[1]][op[2]] = op[3]
    elif o in 'pw':
        v = arg(op[2])
        if v is None or not (0 <= op[1] < len(F)):
            return False
        F[op[1]] = F[op[1]] + v
    elif o == 'c':
        return 0 <= op[1] < len(F)
    elif o == 'fset':
        if not (0 <= op[1] < len(F)) or not (0 <= op[2] < len(F[op[1]])):
            return False
        F[op[1]][op[2]] = op[3]
    elif o == 'x':
        if not (0 <= op[1] < len(F)):
            return False
        F[op[1]] = []
    else:
        return False
    return True


def _valid_alias(ops, nfields):
    st = ([], [[] for _ in range(nfields)])
    return all(_vstep(st, op) for op in ops)


ALIAS_TYPES = [
    ('numeric', 'int32', None), ('numeric', 'int64', None), ('numeric', 'float64', None), ('numeric', 'uint8', None),
    ('numeric', 'float32', None), ('timestamp', 'float64', None), ('fixed', 'S3', None),
    ('categorical', 'int8', [['no', 0], ['yes', 1], ['maybe', 2]]),
]


def _tvals(ft, dt):
    """distinct values of the type, cyclic."""
    if ft == 'fixed':
        return [[97], [98, 99], [100, 101, 102], [195, 169], [103], [104, 105], [106], [107, 108, 109]]
    if ft == 'categorical':
        return [0, 1, 2, 1, 0, 2, 2, 0]
    if dt in FLOAT_POOL:
        f = _f32 if dt == 'float32' else _f64
        return [f(1.5), f(-3.25), f(0.0), FLOAT_POOL[dt][3], f(7.0), FLOAT_POOL[dt][5], f(1e10), f(-2.0)]
    lo, hi = INT_RANGE[dt]
    return [1, hi, lo, 2, hi - 1, 3, lo + 1, 100]


def _acase(t, backs, ops):
    ft, dt, key = t
    return {'k': 'alias', 'ft': ft, 'dt': dt, 'key': key, 'fields': list(backs), 'ops': ops}


def _alias_templates(t, n=2):
    """the shapes of use that make storage sharing visible; n = batch length."""
    V = _tvals(t[0], t[1])
    b = lambda k: [V[(k * n + j) % len(V)] for j in range(n)]
    for form in (0, 1):
        for whole in (['a', 0], ['as', 0, 0, n]):
            for first in 'pw':
                # one preallocated batch array refilled for every batch
                yield 1, [['new', b(0), form], [first, 0, whole], ['fill', 0, b(1)], ['p', 0, whole],
                          ['fill', 0, b(2)], ['p', 0, whole], ['c', 0]]
                # the caller edits / refills its array after the write
                yield 1, [['new', b(0), form], [first, 0, whole], ['cset', 0, n - 1, V[5]], ['c', 0]]
                yield 1, [['new', b(0), form], [first, 0, whole], ['c', 0], ['fill', 0, b(2)]]
            # the same array written to two fields, one of them edited; then the caller's array edited
            yield 2, [['new', b(0), form], ['w', 0, whole], ['w', 1, whole], ['fset', 0, 0, V[6]],
                      ['cset', 0, n - 1, V[7]]]
            yield 2, [['new', b(0), form], ['p', 1, whole], ['p', 0, whole], ['fset', 1, n - 1, V[6]], ['c', 0], ['c', 1]]
            # clear, then the first write again
            yield 1, [['new', b(0), form], ['w', 0, whole], ['x', 0], ['w', 0, whole], ['cset', 0, 0, V[5]],
                      ['p', 0, whole], ['c', 0]]
        # a field's own storage / another field's storage as the argument; then edits on either side
        yield 2, [['new', b(0), form], ['p', 0, ['a', 0]], ['p', 0, ['f', 0, 0, n]], ['p', 1, ['f', 0, 1, n + 1]],
                  ['fset', 0, 1, V[6]], ['fset', 1, 0, V[7]], ['p', 1, ['f', 1, 0, 1]], ['c', 0], ['c', 1]]
        # two arrays, alternating
        yield 1, [['new', b(0), form], ['new', b(1), 1 - form], ['p', 0, ['a', 0]], ['p', 0, ['a', 1]],
                  ['fill', 0, b(2)], ['cset', 1, 0, V[6]], ['p', 0, ['a', 0]], ['c', 0]]


def _alias_alphabet(t, pos):
    V = _tvals(t[0], t[1])
    v = lambda j: V[(2 * pos + j + 2) % len(V)]
    return [['fill', 0, [v(0), v(1)]], ['cset', 0, 0, v(0)], ['p', 0, ['a', 0]], ['p', 1, ['a', 0]],
            ['p', 0, ['as', 0, 0, 2]], ['p', 1, ['as', 0, 1, 2]], ['fset', 0, 0, v(1)], ['p', 0, ['f', 0, 0, 1]],
            ['p', 1, ['f', 0, 0, 1]], ['x', 0]]


def _alias_exhaustive(t, backs, maxlen):
    V = _tvals(t[0], t[1])
    for form in (0, 1):
        start = [['new', [V[0], V[1]], form]]
        for L in range(1, maxlen + 1):
            for idxs in itertools.product(range(10), repeat=L):
                ops = start + [_alias_alphabet(t, pos)[i] for pos, i in enumerate(idxs)]
                if any(o[0] in 'pw' for o in ops) and _valid_alias(ops, 2):
                    yield _acase(t, backs, ops)


def _random_alias(rng):
    t = rng.choice(ALIAS_TYPES)
    V = _tvals(t[0], t[1])
    nf = rng.randint(1, 3)
    r = rng.random()
    backs = [0] * nf if r < 0.65 else [1] * nf if r < 0.8 else [rng.randint(0, 1) for _ in range(nf)]
    st = ([], [[] for _ in range(nf)])
    ops = []

    def push(op):
        if _vstep(st, op):
            ops.append(op)

    n0 = rng.randint(1, 4)
    push(['new', [rng.choice(V) for _ in range(n0)], rng.randint(0, 1)])
    for _ in range(rng.randint(3, 10)):
        A, F = st
        k = rng.randrange(len(A))
        f = rng.randrange(nf)
        c = rng.random()
        if c < 0.08 and len(A) < 3:
            push(['new', [rng.choice(V) for _ in range(rng.randint(1, 4))], rng.randint(0, 1)])
        elif c < 0.25:
            push(['fill', k, [rng.choice(V) for _ in A[k]]])
        elif c < 0.37:
            push(['cset', k, rng.randrange(len(A[k])), rng.choice(V)])
        elif c < 0.62:
            push([rng.choice('pw'), f, ['a', k]])
        elif c < 0.72:
            a = rng.randint(0, len(A[k]))
            push([rng.choice('pw'), f, ['as', k, a, rng.randint(a, len(A[k]))]])
        elif c < 0.82:
            g = rng.randrange(nf)
            a = rng.randint(0, len(F[g]))
            push(['p', f, ['f', g, a, rng.randint(a, len(F[g]))]])
        elif c < 0.93:
            if F[f]:
                push(['fset', f, rng.randrange(len(F[f])), rng.choice(V)])
        elif c < 0.97:
            push(['x', f])
        else:
            push(['c', f])
    return _acase(t, backs, ops)


def gen_alias(tier, rng):
    big = tier == 'thorough'
    boost = 4 if hot.changed() else 1
    # 1. the shapes of use, every field type, both backings
    for t in ALIAS_TYPES:
        for nf, ops in _alias_templates(t):
            for h5 in (0, 1):
                yield _acase(t, [h5] * nf, ops)
            if nf == 2:
                yield _acase(t, [0, 1], ops)
    # 2. exhaustive small: one caller array, two fields, every sequence of <= 3 (thorough 4) statements out of 10
    t64 = ALIAS_TYPES[1]
    for c in _alias_exhaustive(t64, [0, 0], 4 if big else 3):
        yield c
    for backs in ([0, 1], [1, 0], [1, 1]):
        for c in _alias_exhaustive(t64, backs, 3 if big else 2):
            yield c
    # 3. write_part(a, move_mem=True): the array is handed over (no claim; model fidelity only)
    for t in (ALIAS_TYPES[0], ALIAS_TYPES[2]):
        V = _tvals(t[0], t[1])
        yield _acase(t, [0], [['new', [V[0], V[1]], 0], ['pm', 0, 0], ['cset', 0, 0, V[2]], ['c', 0]])
        yield _acase(t, [0], [['new', [V[0], V[1]], 0], ['p', 0, ['a', 0]], ['pm', 0, 0], ['cset', 0, 0, V[2]], ['c', 0]])
    # 4. structured random
    for _ in range((1500 if big else 200) * boost):
        yield _random_alias(rng)


# ------------------------------------------------------------------------------- long columns / planted sizes
def _lite_pairs(n):
    ps = [(0, n), (0, 0), (n, n), (1, n - 1), (n // 2, n // 2 + 1), (255, 257), (n - 1, n), (0, 1)]
    out = []
    for a, b in ps:
        if 0 <= a <= b <= n and (a, b) not in out:
            out.append((a, b))
    return [list(p) for p in out]


def _lite_case(h5, cs, parts, hotflag=0):
    n = sum(len(p) for p in parts)
    c = {'k': 'idx', 'h5': h5, 'cs': cs, 'ops': [['p', p] for p in parts] + [['c']], 'extra': [],
         'lite': _lite_pairs(n)}
    if hotflag:
        c['hot'] = 1
    return c


def gen_long(tier, rng):
    """beyond the exhaustive scope: strings of >= 256 bytes, columns of >= 256 entries, chunk sizes around 256;
    reads are sampled (first/last/middle/whole) — offsets and bytes are compared in full."""
    for L in (255, 256, 257, 300):
        for cs in (100, 255, 256, 257, 1 << 20):
            s1 = 'x' * L
            s2 = 'é' * (L // 2) + 'y' * (L % 2)           # L bytes, L/2 characters
            for h5 in ((0, 1) if cs in (256, 1 << 20) and L in (256, 300) else (0,)):
                yield _lite_case(h5, cs, [['a', s1], ['', s2, 'b']])
    for n in (255, 256, 257, 1000):
        pool = ['', 'a', 'bc', 'é', '€']
        for cs in ((7, 255, 256, 257, 1000) if n < 1000 else (7, 256)):
            seq = [pool[(i * 7 + i // 5) % 5] for i in range(n)]
            cut = min(n, cs)
            yield _lite_case(0, cs, [seq[:cut], seq[cut:cut + 1], seq[cut + 1:]])
        yield _lite_case(1, 256, [[pool[i % 5] for i in range(n)]])


def gen_hot(tier, rng):
    """change-directed: lengths, chunk sizes, byte widths and batch lengths around every small integer literal that
    is new in the tree under test."""
    for K in hot.hot_sizes():
        if K < 2:
            continue
        # indexed strings: chunk sizes K-1, K, K+1 (and the default) x entry counts / byte counts around K, 2K, K*cs
        for cs in sorted(set([max(1, K - 1), K, K + 1])):
            if cs * 2 * K > 6000000:
                continue
            for n in sorted(set([max(1, K - 1), K, K + 1, 2 * K, 2 * K + 1])):
                if n > 20000:
                    continue
                seq = ['a' if i % 3 else '' for i in range(n)]
                yield _lite_case(0, cs, [seq[:K], seq[K:]], 1)
                seq = ['b'] * n
                yield _lite_case(0, cs, [seq[:max(0, K - 1)], seq[max(0, K - 1):K + 1], seq[K + 1:]], 1)
        for L in sorted(set([max(1, K - 1), K, K + 1, 2 * K])):
            if L > 20000:
                continue
            for cs in ([K, 1 << 20] if K * L <= 6000000 else [1 << 20]):
                if cs == 1 << 20 and L > 3000:
                    continue
                yield _lite_case(0, cs, [['x' * L, 'q'], ['é' * (L // 2)]], 1)
                yield _lite_case(1, cs, [['x' * L], ['', 'q']], 1)
        # several fields with chunk size K, K+1 entries each in two batches (full observation: small K only)
        if K <= 24:
            for h5 in (0, 1):
                specs = [['idx', h5, K], ['idx', h5, K]]
                a = ['a'] * (K + 1)
                b = ['B'] * (K + 1)
                ops = [[0, 'p', a[:K - 1]], [1, 'p', b[:K]], [0, 'p', a[K - 1:]], [1, 'p', b[K:]], [0, 'c'], [1, 'c']]
                yield {'k': 'multi', 'fields': specs, 'ops': ops, 'hot': 1}
        # plain columns of K-1, K, K+1, 2K values in batches of K (one plain field, data compared in full)
        if K <= 20000:
            for n in sorted(set([max(1, K - 1), K, K + 1, 2 * K])):
                vals = [(i * 37) % 251 - 100 for i in range(n)]
                for h5 in (0, 1):
                    ops = [[0, 'p', vals[j:j + K]] for j in range(0, n, K)] + [[0, 'c']]
                    yield {'k': 'multi', 'fields': [['plain', h5, 'int32']], 'ops': ops, 'hot': 1}
            # a batch buffer of K values refilled
            t = ALIAS_TYPES[0]
            for nf, ops in _alias_templates(t, n=K):
                if nf == 1:
                    c = _acase(t, [0], ops)
                    c['hot'] = 1
                    yield c
                    break


# ------------------------------------------------------------------------------- names: alphabet, generators
# names the implementation gives a meaning of its own: the dataset-level group it skips, the HDF5 datasets inside a
# field's group, the attributes of a field's group
RESERVED = ['trash', 'values', 'index', 'key_names', 'key_values', 'chunksize', 'fieldtype', 'timestamp']
DF_RESERVED = ('trash',)          # a dataframe cannot be called like the group the dataset loader skips

_REL = [('equal', lambda r: r), ('suffixed', lambda r: r + '_collections'), ('prefixed', lambda r: 'x_' + r),
        ('embedded', lambda r: 'un' + r + 'ed'), ('doubled', lambda r: r + r), ('truncated-right', lambda r: r[:-1]),
        ('truncated-left', lambda r: r[1:]), ('upper', lambda r: r.upper()), ('capitalised', lambda r: r.capitalize()),
        ('space-after', lambda r: r + ' '), ('space-before', lambda r: ' ' + r), ('dotted', lambda r: r + '.1'),
        ('numbered', lambda r: r + '2')]

UNUSUAL = ['a b', ' ', 'a.b', '.hidden', '...', 'é€', '\U0001F600', 'a\tb', 'a\nb', 'q\'"', 'a\\b', '%s', '{}', '*', '?',
           '0', '-1', 'None', 'attrs', 'name', 'data', 'keys', 'd', 'df', '_columns', 'x' * 255, 'x' * 256, 'y' * 1000,
           'é' * 128, 'n' * 63 + 'é']


def _valid_name(n):
    return bool(n) and '/' not in n and n != '.' and '\x00' not in n


def _harvest_reserved():
    """change-directed: when a loader source of the tree under test differs from the recorded tree, the string literals
    it compares names with / passes to str predicates are names it may treat specially: they join RESERVED"""
    if not hot.changed():
        return []
    import ast, warnings
    repo = os.environ.get('VERIF_REPO', '/repo')
    out = []
    for rel in ('dataset.py', 'dataframe.py', 'session.py', 'fields.py', 'data_writer.py'):
        try:
            with warnings.catch_warnings():
                warnings.simplefilter('ignore')
                tree = ast.parse(open(os.path.join(repo, 'exetera', 'core', rel)).read())
        except Exception:
            continue
        for n in ast.walk(tree):
            cs = []
            if isinstance(n, ast.Compare):
                for x in [n.left] + list(n.comparators):
                    cs += list(x.elts) if isinstance(x, (ast.Tuple, ast.List, ast.Set)) else [x]
            elif isinstance(n, ast.Call) and isinstance(n.func, ast.Attribute) and n.func.attr in (
                    'startswith', 'endswith', 'find', 'rfind', 'count', 'split', 'partition', 'strip', 'lstrip', 'rstrip',
                    'replace', 'get', 'pop'):
                cs = list(n.args)
            for c in cs:
                if isinstance(c, ast.Constant) and isinstance(c.value, str) and 1 <= len(c.value) <= 16 \
                        and _valid_name(c.value) and c.value.isprintable() and c.value not in RESERVED + out:
                    out.append(c.value)
    return out


_alpha_cache = []


def _name_alphabet():
    """[(name, relation label)]: related names are adjacent (generators put neighbours into one file)"""
    if _alpha_cache:
        return _alpha_cache
    seen = set()
    extra = _harvest_reserved()
    # harvested literals: every relation for at most 6 of them (identifier-like first), 'equal' + 2 for the rest
    extra.sort(key=lambda x: (not x.isidentifier(), len(x)))
    for k, r in enumerate(RESERVED + extra[:24]):
        rels = _REL if k < len(RESERVED) + 6 else _REL[:3]
        for lab, fn in rels:
            n = fn(r)
            if _valid_name(n) and n not in seen:
                seen.add(n)
                _alpha_cache.append((n, 'reserved-' + lab))
    for n in UNUSUAL:
        if n not in seen:
            seen.add(n)
            _alpha_cache.append((n, 'unusual'))
    return _alpha_cache


def _kit(rng=None):
    """one sub-case of every field type (HDF5-backed), with values that exercise the type"""
    f64 = FLOAT_POOL['float64']
    kit = [
        {'k': 'plain', 'h5': 1, 'ft': 'numeric', 'dt': 'int64', 'how': 'write',
         'parts': [['int64', [-2 ** 63, 0, 7, 2 ** 63 - 1]]], 'key': None},
        {'k': 'plain', 'h5': 1, 'ft': 'numeric', 'dt': 'float64', 'how': 'parts',
         'parts': [['float64', f64[:3]], ['float64', f64[3:7]]], 'key': None},
        {'k': 'plain', 'h5': 1, 'ft': 'fixed', 'dt': 'S3', 'how': 'parts',
         'parts': [['S3', [[97, 98], []]], ['S3', [[120, 121, 122], [195, 169]]]], 'key': None},
        {'k': 'plain', 'h5': 1, 'ft': 'timestamp', 'dt': 'float64', 'how': 'write',
         'parts': [['float64', [f64[-1], f64[0], f64[2]]]], 'key': None},
        {'k': 'plain', 'h5': 1, 'ft': 'categorical', 'dt': 'int8', 'how': 'write',
         'parts': [['int8', [2, 0, 1, 1, -1]]], 'key': [['unknown', 0], ['é', 1], ['depot', 2], ['', -1]]},
        {'k': 'idx', 'h5': 1, 'cs': 3, 'ops': [['p', ['bin', '']], ['p', ['déchets', 'b€']], ['c']], 'extra': []},
    ]
    if rng is not None:
        # values, partitions and chunk sizes vary
        pool = _pool('int32')
        seq = [rng.choice(pool) for _ in range(rng.randint(1, 5))]
        cut = rng.randint(0, len(seq))
        kit[0] = {'k': 'plain', 'h5': 1, 'ft': 'numeric', 'dt': 'int32', 'how': 'parts',
                  'parts': [['int32', seq[:cut]], ['int32', seq[cut:]]], 'key': None, 'cs': rng.choice([None, 1, 2])}
        strs = [rng.choice(['', 'a', 'é', 'b€', 'hello', '\U0001F600']) for _ in range(rng.randint(1, 5))]
        cut = rng.randint(0, len(strs))
        kit[5] = {'k': 'idx', 'h5': 1, 'cs': rng.choice([1, 2, 3, 5, 1 << 20]),
                  'ops': [['p', strs[:cut]], ['p', strs[cut:]], ['c']], 'extra': []}
        names = [n for n, _ in _name_alphabet()]
        kn = rng.sample(names, 3)
        kit[4] = {'k': 'plain', 'h5': 1, 'ft': 'categorical', 'dt': 'int16', 'how': 'write',
                  'parts': [['int16', [300, -1, 0, 300]]], 'key': [[kn[0], 0], [kn[1], 300], [kn[2], -1]]}
    return kit


_KIT_NAMES = ['num', 'flt', 'fix', 'ts', 'cat', 'txt']


def _distinct(names):
    return len(set(names)) == len(names)


def gen_names(tier, rng):
    big = tier == 'thorough'
    A = _name_alphabet()
    N = [n for n, _ in A]
    n = len(N)
    D = [x for x in N if x not in DF_RESERVED]          # dataframe names
    kit = _kit()
    # 1. every name as a FIELD name, under two field types (all six in the thorough tier), next to its neighbour in the
    #    alphabet (a related name) in a dataframe with an ordinary name
    for i, x in enumerate(N):
        y = N[(i + 1) % n]
        for t in (range(6) if big else (i % 6, (i + 3) % 6)):
            yield {'k': 'names', 'ds': 'd', 'mode': 'r', 'order': 0,
                   'frames': [['df', [[x, kit[t]], [y, kit[(t + 1) % 6]]]]]}
    # 2. every name as a DATAFRAME name holding one field of every type; the field names are ordinary in one case and
    #    rotate over the alphabet (the dataframe's own name among them) in the other; the category names of the
    #    categorical field rotate too
    for i, x in enumerate(D):
        yield {'k': 'names', 'ds': 'd', 'mode': 'r', 'order': 0,
               'frames': [[x, [[_KIT_NAMES[t], kit[t]] for t in range(6)]]]}
        fn = [x] + [N[(i * 5 + 7 * t + 1) % n] for t in range(1, 6)]
        if _distinct(fn):
            k2 = list(kit)
            k2[4] = dict(kit[4], key=[[N[i % n], 0], [N[(i + 1) % n], 1], [N[(i + 2) % n], 2], [N[(i + n // 2) % n], -1]])
            yield {'k': 'names', 'ds': N[(i + 3) % n], 'mode': 'r+' if i % 2 else 'r', 'order': 0,
                   'frames': [[x, [[fn[t], k2[(t + i) % 6]] for t in range(6)]]]}
    # 3. several dataframes in one file: a name, its neighbours in the alphabet (names containing / contained in it),
    #    an ordinary name and a distant name; the same field names in every dataframe; both creation orders
    m = len(D)
    for i, x in enumerate(D):
        dfn = [x, D[(i + 1) % m], 'households', D[(i + m // 2) % m]] + ([D[(i + 2) % m]] if i % 3 == 0 else [])
        if not _distinct(dfn):
            continue
        frames = [[d, [[_KIT_NAMES[(i + j) % 6], kit[(i + j) % 6]], [N[(i + 2 * j) % n], kit[(i + j + 1 + j % 4) % 6]]]]
                  for j, d in enumerate(dfn)]
        if all(_distinct([f[0] for f in fr[1]]) for fr in frames):
            yield {'k': 'names', 'ds': 'd', 'mode': 'r', 'order': i % 2, 'frames': frames}
    # 4. structured random: 1..5 dataframes x 1..6 fields, names drawn from the alphabet (a third of the draws take a
    #    neighbour of a name already used), random values / partitions / chunk sizes
    for _ in range((1500 if big else 150) * (4 if hot.changed() else 1)):
        used = []

        def draw(pool):
            for _ in range(20):
                if used and rng.random() < 0.34:
                    k = N.index(rng.choice(used))
                    c = N[(k + rng.choice([-2, -1, 1, 2])) % n]
                else:
                    c = rng.choice(pool)
                if c in pool:
                    used.append(c)
                    return c
            return rng.choice(pool)
        k = _kit(rng)
        frames = []
        for d in range(rng.randint(1, 5)):
            dn = draw(D)
            if dn in [fr[0] for fr in frames]:
                continue
            fields = []
            for j in range(rng.randint(1, 6)):
                fnm = draw(N)
                if fnm not in [f[0] for f in fields]:
                    fields.append([fnm, rng.choice(k)])
            frames.append([dn, fields])
        yield {'k': 'names', 'ds': rng.choice(N), 'mode': rng.choice(['r', 'r+']), 'order': rng.randint(0, 1),
               'frames': frames}


def _name_labels(name):
    labs = set()
    lab = dict(_name_alphabet()).get(name)
    if lab:
        labs.add(lab)
    for r in RESERVED:
        if name != r and r in name:
            labs.add('contains-a-reserved-name')
        if name != r and name in r:
            labs.add('contained-in-a-reserved-name')
    if len(name.encode()) > len(name):
        labs.add('non-ascii')
    if any(c.isspace() for c in name):
        labs.add('whitespace')
    if len(name.encode()) >= 255:
        labs.add('255+bytes')
    return labs


def _names_features(case):
    f = set()
    frames = case['frames']
    f.add('names-%d-dataframe%s' % (min(len(frames), 3), 's' if len(frames) > 1 else '') + ('+' if len(frames) > 3 else ''))
    f.add('names-reopen-' + case.get('mode', 'r'))
    if case.get('order'):
        f.add('names-fields-created-round-robin-over-dataframes')
    for dfn, fields in frames:
        f |= set('names-df:' + l for l in _name_labels(dfn))
        for fn, sub in fields:
            typ = 'indexed' if sub['k'] == 'idx' else sub['ft']
            f.add('names-type:' + typ)
            f |= set('names-field:' + l for l in _name_labels(fn))
            if fn == dfn:
                f.add('names-field-called-like-its-dataframe')
            if fn in RESERVED:
                f.add('names-%s-field-called-like-a-reserved-name' % typ)
            if sub['k'] == 'plain' and sub['ft'] == 'categorical' and any(k in RESERVED for k, _ in sub['key']):
                f.add('names-category-called-like-a-reserved-name')
    dfns = [fr[0] for fr in frames]
    if any(a != b and a in b for a in dfns for b in dfns):
        f.add('names-one-dataframe-name-contains-another')
    if len(frames) > 1 and set(n for n, _ in frames[0][1]) & set(n for n, _ in frames[1][1]):
        f.add('names-same-field-name-in-two-dataframes')
    if case.get('ds', 'd') in RESERVED:
        f.add('names-dataset-opened-under-a-reserved-name')
    return f


def _shrink_names(case):
    frames = case['frames']
    for i in range(len(frames)):
        if len(frames) > 1:
            c = dict(case); c['frames'] = frames[:i] + frames[i + 1:]; yield c
    for i, (dfn, fields) in enumerate(frames):
        for j in range(len(fields)):
            if len(fields) > 1:
                c = dict(case)
                c['frames'] = frames[:i] + [[dfn, fields[:j] + fields[j + 1:]]] + frames[i + 1:]
                yield c
    taken = set(fr[0] for fr in frames)
    for i, (dfn, fields) in enumerate(frames):
        plain = 'df%d' % i
        if dfn != plain and plain not in taken:
            c = dict(case); c['frames'] = frames[:i] + [[plain, fields]] + frames[i + 1:]; yield c
        ft = set(n for n, _ in fields)
        for j, (fn, sub) in enumerate(fields):
            plain = 'f%d' % j
            if fn != plain and plain not in ft:
                c = dict(case)
                c['frames'] = frames[:i] + [[dfn, fields[:j] + [[plain, sub]] + fields[j + 1:]]] + frames[i + 1:]
                yield c
    for key, plain in (('ds', 'd'), ('mode', 'r'), ('order', 0)):
        if case.get(key, plain) != plain:
            c = dict(case); c[key] = plain; yield c
    # a simpler field under the same name
    simple = {'k': 'plain', 'h5': 1, 'ft': 'numeric', 'dt': 'int32', 'how': 'write', 'parts': [['int32', [1]]], 'key': None}
    for i, (dfn, fields) in enumerate(frames):
        for j, (fn, sub) in enumerate(fields):
            if sub != simple:
                c = dict(case)
                c['frames'] = frames[:i] + [[dfn, fields[:j] + [[fn, simple]] + fields[j + 1:]]] + frames[i + 1:]
                yield c


def gen(tier, rng):
    for c in gen_plain(tier, rng):
        yield c
    for c in gen_plain_chunksize(tier, rng):
        yield c
    for c in gen_idx(tier, rng):
        yield c
    for c in gen_hot(tier, rng):
        yield c
    for c in gen_long(tier, rng):
        yield c
    for c in gen_multi(tier, rng):
        yield c
    for c in gen_alias(tier, rng):
        yield c
    for c in gen_names(tier, rng):
        yield c


def shrink(case):
    for c in _shrink(case):
        if c.get('lite') is not None:
            c['lite'] = _lite_pairs(len(_written(c)))
        yield c


def _shrink(case):
    if case['k'] == 'names':
        for c in _shrink_names(case):
            yield c
        return
    if case['k'] == 'multi':
        ops = case['ops']
        n = len(case['fields'])

        def ok(c):
            return all(_hist_ok([o for o in _multi_proj(c, i) if o[0] != 'o']) for i in range(n))
        for i in range(len(ops)):
            c = dict(case)
            c['ops'] = ops[:i] + ops[i + 1:]
            if ok(c):
                yield c
            if ops[i][1] in 'pw' and ops[i][2]:
                for j in range(len(ops[i][2])):
                    c = dict(case)
                    c['ops'] = [list(o) for o in ops]
                    c['ops'][i] = ops[i][:2] + [ops[i][2][:j] + ops[i][2][j + 1:]]
                    yield c
        # drop the last field when the history does not touch it
        if n > 1 and not any(o[0] == n - 1 for o in ops):
            c = dict(case)
            c['fields'] = case['fields'][:-1]
            yield c
        return
    if case['k'] == 'alias':
        ops = case['ops']
        for i in range(len(ops)):
            if ops[i][0] == 'new':
                continue
            c = dict(case)
            c['ops'] = ops[:i] + ops[i + 1:]
            if _valid_alias([o for o in c['ops'] if o[0] != 'pm'], len(case['fields'])):
                yield c
        return
    if case['k'] == 'idx':
        ops = case['ops']
        for i in range(len(ops)):
            if ops[i][0] in 'pw' and ops[i][1]:
                for j in range(len(ops[i][1])):
                    c = dict(case)
                    c['ops'] = [list(o) for o in ops]
                    c['ops'][i] = [ops[i][0], ops[i][1][:j] + ops[i][1][j + 1:]]
                    yield c
            if len(ops) > 1:
                c = dict(case)
                c['ops'] = ops[:i] + ops[i + 1:]
                if c['ops'] and c['ops'][-1][0] in 'cw':
                    yield c
        if case['cs'] > 1:
            c = dict(case); c['cs'] = case['cs'] - 1; yield c
    else:
        parts = case['parts']
        for i in range(len(parts)):
            if len(parts) > 1 and case['how'] == 'parts':      # keep at least one write
                c = dict(case); c['parts'] = parts[:i] + parts[i + 1:]; yield c
            for j in range(len(parts[i][1])):
                c = dict(case)
                c['parts'] = [list(p) for p in parts]
                c['parts'][i] = [parts[i][0], parts[i][1][:j] + parts[i][1][j + 1:]]
                yield c


RULE = ('exhaustive small scope. Indexed strings, memory-backed: every sequence of length <= 4 (thorough 5) over '
        "{'', 'a', 'é', 'b€'} (0/1/2/4 bytes), every partition into write_part calls (plus write(), plus empty parts "
        'for length <= 2), every chunksize 1..6, so that every flush threshold is hit exactly and off by one; '
        'HDF5-backed (a file is created, closed and reopened per case, ~12 ms): the same up to length 4 (thorough 5) with '
        'chunk sizes 1..6 for short, {1,2,3,5} / {2,3} for the longest sequences. '
        'Observed per case: stored offsets and bytes, every slice 0<=a<=b<=n through both wrappers, every item, '
        'in-session and after reopen. Plus repeated write/complete rounds, clear, 250 (1500) random longer histories '
        'with chunk sizes around the byte/entry totals. Plain fields: every numeric dtype x extreme/special values x '
        'every partition of sequences up to length 2 (+ some longer) x both backings; timestamps; fixed strings; '
        'categoricals with keys spanning the nformat range; cross-dtype writes; HDF5 plain fields with chunksize 1..3. '
        'A new wrapper on the same datasets (HDF5: close + reopen r+) continuing the column. '
        'EVERY argument object (list / ndarray; arrays alternately owning their memory and views into a larger '
        'buffer) is overwritten right after the call that received it. '
        'Several fields (kind multi): two indexed fields with the same chunk size in {1,2,3,64} (+ a sample at the '
        'production default 1<<20), every history of field A (sequences of length <= 2 (3) over 3 strings, every '
        'partition) x 4 histories of field B x EVERY interleaving; different chunk sizes; HDF5 fields of one dataframe; '
        'mixed backings; plain + indexed; fields are created when first touched; reads in between; 220 (1500) random '
        'worlds of 2..4 fields (round-robin batches or random merges, second rounds, clear, new wrapper). '
        'Arrays as objects (kind alias): one caller array and two fields, every sequence of <= 3 (4) statements out of '
        '10 (refill, edit, write whole / view / own storage / other field\'s storage, data[i] = v, clear) memory-backed, '
        '<= 2 (3) with HDF5 fields; 16 shapes of use (refilled batch buffer, edit after write, one array to two fields, '
        'clear then write) x 8 field types x both backings x owner / view; 200 (1500) random histories. '
        'Long columns: strings of 255/256/257/300 bytes and 255/256/257/1000 entries with chunk sizes around 256 '
        '(offsets and bytes compared in full, reads sampled). Change-directed: for every small integer literal K new in '
        'the tree, chunk sizes K-1, K, K+1 x entry / byte counts K-1, K, K+1, 2K, 2K+1, fields sharing chunk size K, '
        'plain columns and batch buffers of K values; 4x the random budget when any library source changed. '
        'Names (kind names): an alphabet of ~134 names = 8 names the implementation reserves (trash, values, index, '
        'key_names, key_values, chunksize, fieldtype, timestamp; plus, when a loader source changed, the string literals '
        'it compares names with) x 13 relations (equal, suffixed, prefixed, embedded, doubled, truncated left / right, '
        'upper, capitalised, space before / after, dotted, numbered) + 30 unusual valid names (space, dots, tab, newline, '
        'quotes, backslash, format directives, non-ASCII, 255 / 256 / 1000 characters, attribute-like words); EVERY name '
        'as a field name under 2 (6) field types next to a related name, EVERY name (but the reserved group trash) as a '
        'dataframe name holding a numeric, float, fixed-string, timestamp, categorical (category names from the alphabet) '
        'and indexed-string field, 4-5 dataframes with related names in one file in both creation orders, the dataset '
        'opened under alphabet names, reopen r / r+, 150 (1500) random files; the listing of the dataset and of every '
        'dataframe and every field under its name are compared in the session and after close + reopen in a fresh Session. '
        'Non-trivial = at least one value written (multi: to at least two fields).')
EXHAUSTIVE = {'quick': True, 'thorough': True}
TRUSTED = ['numpy slicing / slice assignment / np.zeros and h5py dataset create/resize/slice are modelled as list '
           'operations (np_slice, np_assign in coq/Model/IdxWriter.v), exercised here, not verified',
           'str.encode()/bytes.decode() (UTF-8) stay in the harness: the model sees byte lists',
           'HDF5 persistence (close + reopen returns the bytes written) is observed by the correspondence only',
           'names (of dataframes, fields, categories) never reach the model: a file is a collection of independent '
           'fields (wire case 5 = the list of the sub-cases\' answers); that the names created are the names listed is '
           'stated by the harness (from_val)']
ASSUMPTIONS = ['values written are representable in the field dtype (no casting overflow is modelled)',
               'a field is read only while it has nothing staged itself (other fields may have); write_part(a, '
               'move_mem=True) hands the array over and is outside the property (model fidelity only)',
               'fixed-string values do not end in NUL (numpy S dtype strips trailing NULs)',
               'chunksize >= 1',
               'names are valid HDF5 link names (non-empty, no "/", not "."); a dataframe is not called trash (the group '
               'HDF5Dataset reserves)']
TECHNIQUE = ('Coq proof (state-machine model of WriteableIndexedFieldArray and of the memory/HDF5 field arrays = '
             'concat/prefix-sum spec, for every chunksize and partition; a world of several fields: every interleaving '
             '= the per-field histories; a heap of arrays with identity = the value semantics) + exhaustive small-scope '
             'differential correspondence against /repo with real HDF5 files')
LEVEL_TEXT = ('Theorems in coq/Props/C01.v prove for every chunksize >= 1, both backings and every history of '
              'write_part/complete/write calls that the stored offsets are the prefix sums of the entry lengths and the '
              'stored bytes their concatenation, that every in-range slice/item read returns the entries written, and '
              'that appending through any partition yields the same array, that any interleaving of the histories of '
              'several fields leaves each field with what its own history writes, and that (arrays modelled as objects '
              'with identity) a field holds the values its argument had at the call whatever the caller or another '
              'field does to the array afterwards; the model is tied to /repo by running the '
              'extracted model and the real classes (memory and HDF5 files, with close/reopen) on the same cases.')
LEVEL_NOTE = ('Trusted: Coq kernel, extraction, harness. numpy/h5py are modelled as list operations; persistence across '
              'reopen, dtype and key fidelity are established by the correspondence only (partial).')
