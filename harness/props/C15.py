"""C15 — catalogue consistency under structural edits.
exetera/core/dataframe.py, dataset.py, fields.py  vs  coq/Model/Catalogue.v (+ coq/Spec/CatalogueSpec.v).

A case is a history of operations on two datasets (two in-memory HDF5 files).  The real code and the
extracted model run the same history; after every step both sides record the outcome, what the live
objects report (ds.keys(), df.name, df.keys(), df.h5group.keys()), what h5py sees in the same file, and the
status of every field handle ever seen (invalid / unlinked / (file, frame, name, type, data)), and evaluate the
property's checkers on those observations (Coq: CatalogueSpec.verdicts; Python: _verdicts below, a line-for-line
mirror).  At the end the files are closed and reopened with a fresh Session and compared with the live view.
"""
import itertools, os

PROP, NUM = 'C15', 15
PROPS_FILES = ['Props/C15.v']
MODES = ['jit']                 # pure Python / h5py code: the JIT switch does not reach it
MODES_THOROUGH = ['jit']
LEVEL = 'proof'
TIMEOUT_S = 30.0

FNAMES = ['a', 'a_', 'a__', 'b', 'x']        # field names: prefixes / '_'-suffixed variants of one another
RNAMES = ['a', 'a_', 'a__', 'b', 'b_']       # rename alphabet of generator (A2): two families of '_' variants
DNAMES = ['d', 'd_', 'e']                    # dataframe names
# (N) names RELATIVE to names the implementation reserves or uses internally.  RESERVED is the only top-level group name
# the recorded tree reserves (HDF5Dataset.__init__ does not load it: a frame of that name is live but is not found again
# by a reopen - by design, so the name itself is outside the property's domain and never generated as a frame name).
# INTERNAL are the names ExeTera gives to the HDF5 objects / attributes INSIDE a field group.
RESERVED = 'trash'
INTERNAL = ['values', 'index', 'key_names', 'key_values', 'fieldtype']
# string literals the recorded tree compares names with (Compare / str-method contexts of dataset.py, dataframe.py,
# session.py, see _scan_literals); a literal of the tree under test that is not listed here is NEW (change-directed
# escalation for names, the analogue of hot.hot_sizes() for sizes) and gets the full set of relatives
KNOWN_LITERALS = ['trash', '_a_map', '_left_map', '_right_map', 'all', 'inner', 'iu', 'left', 'right', 'stable', 'terminal',
                  'S1', 'dest', 'field', 'fields', 'fieldtype']
TYPES = {0: 'numeric,int32', 1: 'indexedstring', 2: 'fixedstring,4', 3: 'categorical,int8', 4: 'timestamp'}
TAGS = {'create': 1, 'setitem': 2, 'add': 3, 'delitem': 4, 'drop': 5, 'delete_field': 6, 'rename': 7, 'fcopy': 8,
        'fmove': 9, 'create_df': 10, 'create_df_from': 11, 'require_df': 12, 'ds_copy': 13, 'ds_move': 14,
        'ds_setitem': 15, 'ds_delitem': 16, 'ds_drop': 17, 'ds_delete_df': 18}
EXC_CODE = {'ValueError': 1, 'TypeError': 2, 'IndexError': 3, 'KeyError': 4, 'OverflowError': 5}

RULE = ('exhaustive small scope on real (in-memory) HDF5 files: (N) names relative to reserved / internal names: every '
        'dataframe name that is a substring, superstring, case variant or same-length variant of the reserved group name '
        '"trash" (23 names), the names used inside a field group (values, index, key_names, key_values, fieldtype) and their '
        'prefixes / suffixes / extensions, and every string literal the tree under test compares names with (a literal that is '
        'new in the tree gets all its relatives) x 7 dataset-level history shapes (create, ds[n] = df, copy, move across files, '
        'create_dataframe(dataframe=), require_dataframe, delete), all ordered pairs of "trash"-relatives in one file, the '
        'internal names as field names x 5 field types (rename / copy / move), random multi-frame histories with every prefix; '
        'EVERY history of every generator ends with close + reopen in a fresh Session whose names, types and data are compared '
        'with the live catalogue; (A) every rename mapping (each column kept or sent to one '
        'of {a,a_,a__,b,x}, plus unknown keys) on column sets of size 2..4 drawn from {a,a_,a__,b} in several orders; '
        '(A2) creation order x mapping: every ordered choice of 3 columns from {a,a_,a__,b,b_} (60 creation orders) x every '
        'mapping of all three onto distinct names of that alphabet (60: permutations, cycles, chains, identities), dict order '
        'rotated; 4 columns x 4 entries sampled (1200; 4000 when the tree under test differs from the recorded one; all 14400 '
        'in the thorough tier); 4-5 columns with >= 3 entries followed by the inverse mapping, sampled; '
        '(F) dataframe object identity: 5 frame states (never had a field / one field / emptied again / made by '
        'require_dataframe / copied then emptied) x 16 dataset-level operations that look a frame up or hand one back x 5 '
        'field-level continuations, run through the dataframe handle the caller kept and through ds[name] alternately, and '
        'all pairs of those 16 operations per state; '
        '(B) every single operation with every name combination (5 field names x 5 frame references over two datasets) '
        'from two prepared states; (C) every pair of operations over a medium alphabet; (D) every triple over a small '
        'alphabet; then seeded random histories of length 4..9.  HDF5-backed cases cost ~5-10 ms each, which sizes '
        'the bounds.  Every prefix of a history is itself checked (verdicts after every step, the identity verdict - a name '
        'served before and after a step is served by the same object, and create/require_dataframe return the served object - '
        'included; the harness keeps the first handle it obtained for every live dataframe).  Non-trivial = the '
        'history reaches a planted feature other than a plain lookup failure.')
EXHAUSTIVE = {'quick': True, 'thorough': True}
TRUSTED = ['h5py/HDF5 link semantics as modelled in Catalogue.v (create_group / move / del on a group; path of an open '
           'object follows H5Lmove, is None once unlinked) - exercised by this correspondence, not proved',
           'Python dict / OrderedDict insertion-order semantics (d_set / d_del in Catalogue.v)',
           'field payload I/O (data.write / data[:]) is the identity on the small integer payloads used']
ASSUMPTIONS = ['one Session, each file opened once; operations address frames by ds[name] or by the first handle obtained for '
               'a frame that is still served (handles of dropped frames are not operated on) and fields by name; names do not '
               'contain "/"; no DATAFRAME is named exactly "trash" (the one top-level group name HDF5Dataset.__init__ does not '
               'load, by design: c15_loader_hides_reserved) - its substrings / superstrings are generated, and fields may be named '
               '"trash"',
               'field handles observed are those ever present in a catalogue']
TECHNIQUE = ('Coq proof (state-machine invariant over a Gallina model of the dual Python/HDF5 catalogue) + exhaustive '
             'short-history differential correspondence against the real code on real HDF5 files')
LEVEL_TEXT = ('Theorems in coq/Props/C15.v prove, for all histories (any length, any names, failing operations '
              'included) of the 18 modelled operations, that the model of the repaired code keeps the in-memory '
              'catalogue equal to the HDF5 link tables at both levels (state invariant Inv; verdict chk_inv true in every '
              'reachable state), that a reopen finds the same types and data, that no operation changes the type or data '
              'of an existing field, that rename is simultaneous substitution or no change at all (the two passes of h5 '
              'moves cannot fail after the clash check; get_unique_name terminates), that handles follow a rename and '
              'that a moved handle is invalid, that rename returns exactly when its keys are distinct columns and the resulting '
              'names are distinct - whatever the creation order of the columns (every permutation mapping is carried out) - and '
              'that no operation re-binds a dataframe name that stays bound to another object (require_dataframe and lookups '
              'never change a binding and hand back the catalogued object, empty frames included), and that a reopen through the '
              'loader that skips the reserved group name finds every frame of any other name - names are arbitrary byte lists, so '
              'substrings and superstrings of the reserved name included - with the live fields, types and data; the model is tied to the code '
              'by running both on the same generated '
              'histories on real HDF5 files and comparing every intermediate observation.')
LEVEL_NOTE = ('Trusted: Coq kernel, extraction, harness, the h5py link semantics written into the model. The code as '
              'found is refuted by vm_compute witnesses (F-C15a, F-C15b) replayed on the real code. The observation-level '
              'forms of the rename / move / reopen verdicts are checked by the correspondence run, their state-level '
              'content is proved (c15_trace_inv_data_partial says what is lifted).')

_ex = None


def setup():
    global _ex
    import io
    import numpy as np
    import h5py
    from exetera.core.session import Session
    from exetera.core import dataframe as edf, dataset as eds
    from exetera.core import data_writer
    _ex = (io, np, h5py, Session, edf, eds)

    class _SyncThread:
        """DataWriter starts a thread per write and joins it at once; run the target in place instead
        (same order of effects; like threading, an exception in the target is printed, not raised)."""
        def __init__(self, target=None, args=()):
            self._t, self._a = target, args

        def start(self):
            try:
                self._t(*self._a)
            except Exception:  # noqa
                import traceback
                traceback.print_exc()

        def join(self):
            pass
    data_writer.Thread = _SyncThread


# ----------------------------------------------------------------------------------------- wire
def _nm(s):
    return [ord(ch) for ch in s]


def _st(l):
    return ''.join(chr(x) for x in l)


def op_to_val(op):
    k = op[0]
    t = TAGS[k]
    if k == 'create':
        _, i, d, n, ty, dat = op
        return [t, i, _nm(d), _nm(n), ty, list(dat)]
    if k in ('setitem', 'fcopy', 'fmove'):
        _, i, d, n, j, d2, n2 = op
        return [t, i, _nm(d), _nm(n), j, _nm(d2), _nm(n2)]
    if k in ('add', 'delete_field'):
        _, i, d, j, d2, n2 = op
        return [t, i, _nm(d), j, _nm(d2), _nm(n2)]
    if k in ('delitem', 'drop'):
        _, i, d, n = op
        return [t, i, _nm(d), _nm(n)]
    if k == 'rename':
        _, i, d, m = op[:4]
        return [t, i, _nm(d), [[_nm(a), _nm(b)] for a, b in m]]
    if k in ('create_df', 'require_df', 'ds_delitem', 'ds_drop', 'ds_delete_df'):
        _, i, d = op
        return [t, i, _nm(d)]
    if k in ('create_df_from', 'ds_copy', 'ds_move', 'ds_setitem'):
        _, i, d, j, d2 = op[:5]
        return [t, i, _nm(d), j, _nm(d2)]
    raise ValueError(k)


_fix_c = None


def repo_has_fix_c():
    """Does IndexedStringField.__init__ of the tree under test still overwrite self._dataframe with None
    (F-C15c, outside the property text: it makes moves of indexed-string fields fail, consistently)?  The model
    covers both variants; which one is compared is read off the source."""
    global _fix_c
    if _fix_c is None:
        v = os.environ.get('VERIF_C15_FIXC')
        if v is not None:
            _fix_c = int(v)
        else:
            import ast
            repo = os.environ.get('VERIF_REPO', '/repo')
            tree = ast.parse(open(os.path.join(repo, 'exetera', 'core', 'fields.py')).read())
            found = False
            for node in tree.body:
                if isinstance(node, ast.ClassDef) and node.name == 'IndexedStringField':
                    for fn in node.body:
                        if isinstance(fn, ast.FunctionDef) and fn.name == '__init__':
                            for st in ast.walk(fn):
                                if (isinstance(st, ast.Assign) and isinstance(st.value, ast.Constant)
                                        and st.value.value is None
                                        and any(isinstance(t, ast.Attribute) and t.attr == '_dataframe' for t in st.targets)):
                                    found = True
            _fix_c = 0 if found else 1
    return _fix_c


def to_val(case):
    fa, fb = case.get('legacy', [1, 1])
    init = case.get('init', [])
    return [fa, fb, repo_has_fix_c(), len(init), [op_to_val(o) for o in init + case['ops']]]


def _dec_h(h):
    if h[0] == 2:
        return [2, h[1], _st(h[2]), _st(h[3]), h[4], h[5]]
    return [h[0]]


def _dec_obs(o):
    dss, hs = o
    out = []
    for dfs, file in dss:
        out.append([[[_st(k), _st(na), [_st(c) for c in cols], sorted(_st(c) for c in h5)] for k, na, cols, h5 in dfs],
                    sorted([_st(n), sorted(_st(c) for c in l)] for n, l in file)])
    return [out, [_dec_h(h) for h in hs]]


def _dec_view(v):
    return sorted([_st(n), sorted([_st(fn), t, dat] for fn, t, dat in l)] for n, l in v)


def _dec_ident(io):
    return [[[_st(k), ([pl[0], _st(pl[1])] if pl else [])] for k, pl in l] for l in io]


def from_val(case, v):
    steps, final, start = v
    res = {'start': _dec_obs(start),
           'steps': [[code, _dec_obs(o), [bool(b) for b in fl], _dec_ident(io)] for code, o, fl, io in steps],
           'final': [[_dec_view(a), _dec_view(b), bool(ok)] for a, b, ok in final]}
    return res, 'SPEC'


def _held_by_property(r):
    return (isinstance(r, dict) and 'steps' in r and all(all(st[2]) for st in r['steps'])
            and all(ok for _, _, ok in r['final']))


def equal(case, impl, expected, mode):
    if expected == 'SPEC':
        return _held_by_property(impl)
    return impl == expected


# ----------------------------------------------------------------------------------------- the property's checkers
def _same_names(a, b):
    return len(set(a)) == len(a) and len(set(b)) == len(b) and set(a) == set(b)


def chk_inv(o):
    for dfs, file in o[0]:
        fd = dict((n, l) for n, l in file)
        if not _same_names([d[0] for d in dfs], [n for n, _ in file]):
            return False
        for key, nameattr, cols, h5 in dfs:
            if key != nameattr or not _same_names(cols, h5):
                return False
            if key not in fd or not _same_names(fd[key], h5):
                return False
    return True


def chk_data(o, o2):
    for h, h2 in zip(o[1], o2[1]):
        if h[0] == 2 and h2[0] == 2 and (h[4] != h2[4] or h[5] != h2[5]):
            return False
    return True


def _as_rename(op):
    if op[0] == 'rename':
        return op[1], op[2], [tuple(p) for p in op[3]], True
    if op[0] == 'fmove' and op[1] == op[4] and op[2] == op[5]:
        return op[1], op[2], [(op[3], op[6])], False
    return None


def _subst(m, k):
    for a, b in m:
        if a == k:
            return b
    return k


def chk_rename(op, ok, o, o2):
    r = _as_rename(op)
    if r is None:
        return True
    i, d, m, strict = r
    if not ok:
        return (not strict) or o == o2
    if len(o[0]) != len(o2[0]) or len(o[1]) != len(o2[1]):
        return False
    for idx, (ds, ds2) in enumerate(zip(o[0], o2[0])):
        if len(ds[0]) != len(ds2[0]):
            return False
        for x, y in zip(ds[0], ds2[0]):
            hit = idx == i and x[0] == d
            if x[0] != y[0] or x[1] != y[1] or ([_subst(m, c) for c in x[2]] if hit else x[2]) != y[2]:
                return False
    for h, h2 in zip(o[1], o2[1]):
        e = h
        if h[0] == 2 and h[1] == i and h[2] == d:
            e = [2, h[1], h[2], _subst(m, h[3]), h[4], h[5]]
        if e != h2:
            return False
    return True


def _live_at(h, i, d, n):
    return h[0] == 2 and h[1] == i and h[2] == d and h[3] == n


def chk_move(op, ok, o, o2):
    if op[0] != 'fmove':
        return True
    _, i, d, n, j, d2, n2 = op
    if not ok or (i == j and d == d2):
        return True
    if len(o[1]) > len(o2[1]):
        return False
    for h, h2 in zip(o[1], o2[1]):
        if _live_at(h, i, d, n):
            if h2 != [0]:
                return False
        elif h != h2:
            return False
    moved = [h for h in o[1] if _live_at(h, i, d, n)]
    if not moved:
        return False
    for h in moved:
        if not any(_live_at(h2, j, d2, n2) and h2[4] == h[4] and h2[5] == h[5] for h2 in o2[1]):
            return False
    return True


def _verdicts(op, code, o, o2):
    ok = code == 0
    return [chk_inv(o2), chk_data(o, o2), chk_rename(op, ok, o, o2), chk_move(op, ok, o, o2)]


def chk_ident(before, io):
    """Spec/CatalogueIdentSpec.v chk_ident: a name a dataset served before the step and serves after it is served by
    the SAME object (io: per dataset [[name, place]], place = where that object was served before the step)."""
    if len(before) != len(io):
        return False
    for i, (bk, l) in enumerate(zip(before, io)):
        for k, pl in l:
            if k in bk and pl != [i, k]:
                return False
    return True


# ----------------------------------------------------------------------------------------- the real code
def _type_code(ft):
    for k, v in TYPES.items():
        if ft == v:
            return k
    return -1


def _read(f):
    """type and data through the field API"""
    t = _type_code(f._field.attrs['fieldtype'])
    raw = f.data[:]
    if t == 2:
        dat = [int(x.decode() if isinstance(x, bytes) else x) for x in raw]
    else:
        dat = [int(x) for x in raw]
    return t, dat


def _read_raw(g):
    """type and data of a field group straight from h5py (what is in the file)"""
    t = _type_code(g.attrs['fieldtype'])
    if t == 1:
        idx = g['index'][:]
        val = g['values'][:].tobytes().decode()
        dat = [int(val[idx[k]:idx[k + 1]]) for k in range(len(idx) - 1)]
    elif t == 2:
        dat = [int(x.decode()) for x in g['values'][:]]
    else:
        dat = [int(x) for x in g['values'][:]]
    return t, dat


def _create(df, n, t, dat):
    if t == 0:
        f = df.create_numeric(n, 'int32'); f.data.write(list(dat))
    elif t == 1:
        f = df.create_indexed_string(n); f.data.write([str(x) for x in dat])
    elif t == 2:
        f = df.create_fixed_string(n, 4); f.data.write([str(x).encode() for x in dat])
    elif t == 3:
        f = df.create_categorical(n, 'int8', {'n': 0, 'y': 1}); f.data.write(list(dat))
    elif t == 4:
        f = df.create_timestamp(n); f.data.write([float(x) for x in dat])
    # t >= 5: a create call whose remaining arguments are invalid (Model/Catalogue.v: df_create_invalid) — it must raise
    # and leave nothing behind (F-C15d)
    elif t == 5:
        f = df.create_numeric(n, 'int33')                     # unknown nformat: TypeError
    elif t == 6:
        f = df.create_categorical(n, 'int8', {})              # empty key: ValueError
    elif t == 7:
        f = df.create_fixed_string(n, 0)                      # zero length: ValueError
    else:
        raise ValueError(t)
    return f


class _Frames:
    """dss[i][d] as the caller of the library writes it: either a fresh lookup ds[name] or the handle the caller kept
    from the first time it obtained that dataframe (return value of create_dataframe / require_dataframe, or ds[name])"""
    def __init__(self, dss, handles=None):
        self.dss, self.handles = dss, handles

    def __getitem__(self, i):
        return _FramesOf(self.dss[i], i, self.handles)


class _FramesOf:
    def __init__(self, ds, i, handles):
        self.ds, self.i, self.handles = ds, i, handles

    def __getitem__(self, d):
        if self.handles is not None:
            for (j, k0), obj in self.handles:
                if j == self.i and k0 == d:
                    return obj
        return self.ds[d]


def _apply(op, rdss, frames=None):
    """run one operation; dataframes are addressed through `frames` (default: ds[name]).  Returns (i, name, object) when
    the operation hands a dataframe object back to its caller."""
    io, np, h5py, Session, edf, eds = _ex
    dss = frames if frames is not None else rdss
    k = op[0]
    if k in ('create_df', 'create_df_from', 'require_df'):
        i, d = op[1], op[2]
        if k == 'create_df':
            r = rdss[i].create_dataframe(d)
        elif k == 'require_df':
            r = rdss[i].require_dataframe(d)
        else:
            r = rdss[i].create_dataframe(d, dataframe=dss[op[3]][op[4]])
        return (i, d, r)
    if k in ('ds_copy', 'ds_move', 'ds_setitem', 'ds_delitem', 'ds_drop', 'ds_delete_df'):
        _apply_ds(op, rdss, dss)
        return None
    if k == 'create':
        _, i, d, n, t, dat = op
        _create(dss[i][d], n, t, dat)
    elif k == 'setitem':
        _, i, d, n, j, d2, n2 = op
        dss[i][d][n] = dss[j][d2][n2]
    elif k == 'add':
        _, i, d, j, d2, n2 = op
        dss[i][d].add(dss[j][d2][n2])
    elif k == 'delitem':
        _, i, d, n = op
        del dss[i][d][n]
    elif k == 'drop':
        _, i, d, n = op
        dss[i][d].drop(n)
    elif k == 'delete_field':
        _, i, d, j, d2, n2 = op
        dss[i][d].delete_field(dss[j][d2][n2])
    elif k == 'rename':
        _, i, d, m = op[:4]
        style = op[4] if len(op) > 4 else 'dict'
        if style == 'single' and len(m) == 1:
            dss[i][d].rename(m[0][0], m[0][1])
        else:
            dss[i][d].rename(dict((a, b) for a, b in m))
    elif k == 'fcopy':
        _, i, d, n, j, d2, n2 = op
        edf.copy(dss[i][d][n], dss[j][d2], n2)
    elif k == 'fmove':
        _, i, d, n, j, d2, n2 = op
        edf.move(dss[i][d][n], dss[j][d2], n2)
    else:
        raise ValueError(k)
    return None


def _apply_ds(op, rdss, dss):
    """dataset-level operations: the dataset is rdss[i], a dataframe argument is dss[i][d]"""
    io, np, h5py, Session, edf, eds = _ex
    k = op[0]
    if k == 'ds_copy':
        _, i, d, j, d2 = op[:5]
        style = op[5] if len(op) > 5 else 'fn'
        if style == 'method':
            rdss[j].copy(dss[i][d], d2)
        else:
            eds.copy(dss[i][d], rdss[j], d2)
    elif k == 'ds_move':
        _, i, d, j, d2 = op
        eds.move(dss[i][d], rdss[j], d2)
    elif k == 'ds_setitem':
        _, j, d2, i, d = op
        rdss[j][d2] = dss[i][d]
    elif k == 'ds_delitem':
        _, i, d = op
        del rdss[i][d]
    elif k == 'ds_drop':
        _, i, d = op
        rdss[i].drop(d)
    elif k == 'ds_delete_df':
        _, i, d = op
        rdss[i].delete_dataframe(dss[i][d])
    else:
        raise ValueError(k)


def _ident_obs(dss, handles, ret):
    """Spec/CatalogueIdentSpec.v ident_obs on the real objects.  handles = [((j, name), object)] in the order the datasets
    listed them before the step: the FIRST handle the caller obtained for every dataframe that was live then.  For every
    name served now: the place whose kept handle IS (Python `is`) the object served now ([] = no kept handle is).
    Returns (identobs, new handles, ok) — ok is False when an operation handed back an object that is not the one the
    dataset serves under that name, or when the first handle handed out for a live frame lists other fields than the
    file holds under that name."""
    io_, new, ok = [], [], True
    for i, ds in enumerate(dss):
        l = []
        for key in ds.keys():
            df = ds[key]
            pl, h = [], None
            for (j, k0), obj in handles:
                if obj is df:
                    pl, h = [j, k0], obj
                    break
            if h is None:
                h = df
                if ret is not None and ret[0] == i and ret[1] == key:
                    h = ret[2]                       # the first handle a caller gets is the returned object
            if ret is not None and ret[0] == i and ret[1] == key and ret[2] is not df:
                ok = False
            if h is not df and (not _same_names(list(h.keys()), list(ds._file[key].keys())) or h.name != key):
                ok = False                           # a kept handle of a live frame that no longer mirrors the file
            l.append([key, pl])
            new.append(((i, key), h))
        io_.append(l)
    return io_, new, ok


def _register(dss, held, seen):
    # register the field objects that are new in some catalogue
    for ds in dss:
        for dn, df in ds.items():
            for fn, f in df.items():
                if id(f) not in seen:
                    seen.add(id(f))
                    held.append(f)


def _observe(dss, held, seen):
    _register(dss, held, seen)
    out = []
    for ds in dss:
        dfs = []
        for key, df in ds.items():
            dfs.append([key, df.name, list(df.keys()), sorted(df.h5group.keys())])
        file = sorted([n, sorted(ds._file[n].keys())] for n in ds._file.keys())
        out.append([dfs, file])
    hs = []
    for f in held:
        if not f.valid:
            hs.append([0])
            continue
        try:
            nm = f.name
        except AttributeError:
            hs.append([1])
            continue
        path = f._field.name
        parts = path.split('/')
        assert len(parts) == 3 and parts[2] == nm, path
        fi = [k for k, ds in enumerate(dss) if f._field.file == ds._file]
        assert len(fi) == 1
        t, dat = _read_raw(f._field)
        hs.append([2, fi[0], parts[1], nm, t, dat])
    return [out, hs]


def _view(ds):
    v = []
    for dn, df in ds.items():
        v.append([dn, sorted([fn] + list(_read(f)) for fn, f in df.items())])
    return sorted(v)


def run(case):
    io, np, h5py, Session, edf, eds = _ex
    bios = [io.BytesIO(), io.BytesIO()]
    s = Session()
    dss = [s.open_dataset(bios[0], 'w', 'ds0'), s.open_dataset(bios[1], 'w', 'ds1')]
    held, seen = [], set()
    handles = []                 # first handle obtained for every live dataframe: [((dataset index, name), object)]
    via = case.get('via', 'name')
    steps = []
    for op in case.get('init', []):
        ret = _apply(op, dss)    # the fixed preamble (checked as a history of its own); not reported
        _register(dss, held, seen)
        _, handles, _ = _ident_obs(dss, handles, ret)
    o = _observe(dss, held, seen)
    start = o
    for n_op, op in enumerate(case['ops']):
        code = 0
        ret = None
        # the dataframe-level calls go through ds[name], or through the handle the caller kept
        through_handle = via == 'handle' or (via == 'alt' and n_op % 2 == 0)
        try:
            ret = _apply(op, dss, _Frames(dss, handles) if through_handle else None)
        except Exception as e:  # noqa
            code = 9
            for cls in type(e).__mro__:
                if cls.__name__ in EXC_CODE:
                    code = EXC_CODE[cls.__name__]
                    break
        o2 = _observe(dss, held, seen)
        idobs, handles2, ret_ok = _ident_obs(dss, handles, ret)
        fl = _verdicts(op, code, o, o2) + [chk_ident([[d[0] for d in dfs] for dfs, _ in o[0]], idobs) and ret_ok]
        steps.append([code, o2, fl, idobs])
        o, handles = o2, handles2
        if not all(fl):
            break
    live = [_view(ds) for ds in dss]
    s.close()
    final = []
    s2 = Session()
    for k in range(2):
        ds = s2.open_dataset(bios[k], 'r', 'r%d' % k)
        fv = _view(ds)
        final.append([live[k], fv, live[k] == fv])
    s2.close()
    return {'start': start, 'steps': steps, 'final': final}


# ----------------------------------------------------------------------------------------- features
def _legacy_tmp_collision(cols, m):
    """would the code as found pick the same temporary name twice (region of F-C15a)?"""
    md = dict(m)
    chosen = []
    for k in cols:
        if k in md:
            u = md[k]
            while u in cols:
                u += '_'
            chosen.append(u)
    return len(set(chosen)) != len(chosen)


def features(case, model):
    f = set()
    if isinstance(model, str):
        return ['err:' + model]
    ops = case['ops']
    steps = model['steps']
    f.add('len:%d' % min(len(ops), 9))
    if len(steps) < len(ops):
        f.add('stopped-at-first-broken-verdict')
    prev = model['start']
    if case.get('via', 'name') != 'name':
        f.add('via:' + case['via'] + '(kept dataframe handles)')
    for op, st in zip(ops, steps):
        code, o, fl = st[:3]
        k = op[0]
        f.add('op:' + k + (':raises' if code else ''))
        if len(st) > 3 and prev is not None:
            for i, l in enumerate(st[3]):
                for key, pl in l:
                    if pl and pl != [i, key]:
                        f.add('ident:same-object-under-new-name')
            if k == 'require_df' and not code:
                for key, na, cs, h5 in prev[0][op[1]][0]:
                    if key == op[2]:
                        f.add('ident:require-existing-' + ('nonempty' if cs else 'EMPTY(falsy)') + '-frame')
            if k in ('create_df', 'create_df_from', 'require_df', 'ds_copy', 'ds_move', 'ds_setitem') and not code:
                if any(not cs for ds_ in prev[0] for key, na, cs, h5 in ds_[0]):
                    f.add('ident:frame-op-while-an-empty-frame-is-live')
        if k == 'create' and op[4] >= 5:
            f.add('create:invalid-arguments(F-C15d)')
        if code:
            f.add('exc:%d' % code)
        if not all(fl):
            f.add('verdict-false:' + ','.join(n for n, b in zip(('inv', 'data', 'rename', 'move', 'ident'), fl) if not b))
        involved = [x for x in op[1:] if isinstance(x, int) and not isinstance(x, bool)]
        if k not in ('create',) and len(set(x for x in involved[:2])) > 1:
            f.add('cross-dataset')
        if k == 'rename' and prev is not None:
            i, d, m = op[1], op[2], [tuple(p) for p in op[3]]
            cols = None
            for key, na, cs, h5 in prev[0][i][0]:
                if key == d:
                    cols = cs
            if cols is not None:
                md = dict(m)
                if len(m) >= 2: f.add('rename:multi')
                if not code:
                    if any(a == b for a, b in m): f.add('rename:identity')
                    if any(b in cols and b != a for a, b in m): f.add('rename:onto-existing(two-phase)')
                    if any(md.get(b) == a and a != b for a, b in m): f.add('rename:swap')
                    if any(b in md and md.get(b) != a and a != b for a, b in m): f.add('rename:chain')
                    if any(b.rstrip('_') in [c.rstrip('_') for c in cols] for a, b in m): f.add('rename:underscore-variant-target')
                    if _legacy_tmp_collision(cols, m): f.add('rename:temp-name-collision-region(F-C15a)')
                    moved = [(a, b) for a, b in m if a != b]
                    if len(moved) >= 3: f.add('rename:>=3-columns-change-name')
                    if len(moved) >= 3 and all(b in cols for a, b in moved): f.add('rename:permutation>=3')
                    if len(moved) >= 3 and cols != sorted(cols): f.add('rename:>=3,creation-order-not-sorted')
                    if len(moved) >= 3 and any(a == b + '_' or b == a + '_' or a + '_' in cols for a, b in moved):
                        f.add('rename:>=3,underscore-variants')
                else:
                    if all(a in cols for a, b in m): f.add('rename:clash')
                    else: f.add('rename:unknown-key')
        if k == 'fmove' and not code:
            f.add('move:within-frame' if (op[1] == op[4] and op[2] == op[5]) else 'move:across-frames')
        if k == 'ds_setitem' and prev is not None:
            keys = [x[0] for x in prev[0][op[1]][0]]
            if op[1] == op[3] and op[2] in keys:
                f.add('ds_setitem:target-exists(F-C15b)' if op[2] != op[4] else 'ds_setitem:identity')
            elif op[1] == op[3] and not code:
                f.add('ds_setitem:rename')
            elif not code:
                f.add('ds_setitem:copy-from-other-dataset')
        hs = o[1]
        if any(h == [0] for h in hs): f.add('handle:invalid')
        if any(h == [1] for h in hs): f.add('handle:unlinked')
        if len(hs) >= 4: f.add('handles>=4')
        for ds in o[0]:
            for key, na, cs, h5 in ds[0]:
                if any(c + '_' in cs for c in cs): f.add('frame-has-name-and-underscore-variant')
                if len(cs) >= 3: f.add('frame>=3cols')
        types = set(h[4] for h in hs if h[0] == 2)
        if len(types) >= 2: f.add('several-field-types')
        prev = o
    # names, relative to reserved / internal names, of what the final reopen has to find again
    for fin in model.get('final', []):
        for dn_, flds in fin[0]:
            low = dn_.lower()
            if dn_ != RESERVED and dn_ in RESERVED: f.add('names:reopened-frame-is-substring-of-reserved-name')
            elif RESERVED in low or low == RESERVED: f.add('names:reopened-frame-is-superstring/case-variant-of-reserved-name')
            if dn_ in INTERNAL: f.add('names:reopened-frame-has-internal-name')
            elif any(dn_ in r or r in dn_ for r in INTERNAL if len(dn_) > 2): f.add('names:reopened-frame-relative-of-internal-name')
            if dn_ in KNOWN_LITERALS and dn_ != RESERVED: f.add('names:reopened-frame-named-like-a-literal-of-the-code')
            for fl in flds:
                if fl[0] in INTERNAL: f.add('names:reopened-field-has-internal-name')
                if fl[0] == RESERVED: f.add('names:reopened-field-has-reserved-name')
                if fl[0] == dn_: f.add('names:reopened-field-named-like-its-frame')
        names = [x[0] for x in fin[0]]
        if any(a != b and a in b for a in names for b in names): f.add('names:reopened-frames-one-name-inside-another')
    return sorted(f)


def nontrivial(case, model):
    fs = features(case, model)
    return any(not (x.startswith('len:') or x.startswith('exc:') or x.endswith(':raises')) for x in fs)


def known(case, impl, model, spec, mode):
    return None


# ----------------------------------------------------------------------------------------- generators
def _relatives(r, full=True):
    """names that are substrings / prefixes / suffixes / superstrings / same-length variants of r, never r itself"""
    if full:
        subs = set(r[i:j] for i in range(len(r)) for j in range(i + 1, len(r) + 1))
    else:
        subs = set([r[:k] for k in range(1, len(r))] + [r[k:] for k in range(1, len(r))] + [r[0], r[-1]])
    sup = [r + '_', r + '2', 'x' + r, '_' + r, r + r, r[:-1] + ('x' if r[-1] != 'x' else 'y'), r.upper(), r.capitalize(),
           r[::-1]]
    out = sorted(subs, key=lambda x: (len(x), x)) + sup
    res = []
    for n in out:
        if n and n != r and n not in res and '/' not in n and n != RESERVED:
            res.append(n)
    return res


_IDENT = None
_lits = None


def _scan_literals():
    """identifier-like string literals the tree under test compares something with (operands of ==, !=, in, not in;
    arguments of startswith / endswith / find / ...; module-level string / tuple-of-string constants) in the modules that
    load and catalogue dataframes and fields.  Directs the name alphabet only; decides nothing."""
    global _lits, _IDENT
    if _lits is not None:
        return _lits
    import ast, re, warnings
    _IDENT = re.compile(r'^[A-Za-z_][A-Za-z0-9_]{0,11}$')
    repo = os.environ.get('VERIF_REPO', '/repo')
    found = []

    def strs(node):
        for c in ast.walk(node):
            if isinstance(c, ast.Constant) and isinstance(c.value, str) and _IDENT.match(c.value) and c.value not in found:
                found.append(c.value)
    for fn in ('dataset.py', 'dataframe.py', 'session.py'):
        try:
            with warnings.catch_warnings():
                warnings.simplefilter('ignore')
                tree = ast.parse(open(os.path.join(repo, 'exetera', 'core', fn)).read())
        except Exception:  # noqa
            continue
        for st in tree.body:
            if isinstance(st, (ast.Assign, ast.AnnAssign)) and st.value is not None and \
                    isinstance(st.value, (ast.Constant, ast.Tuple, ast.List, ast.Set)):
                strs(st.value)
        for n in ast.walk(tree):
            if isinstance(n, ast.Compare):
                strs(n)
            elif isinstance(n, ast.Call) and isinstance(n.func, ast.Attribute) and n.func.attr in (
                    'startswith', 'endswith', 'find', 'rfind', 'index', 'count', 'replace', 'split', 'rsplit', 'strip',
                    'lstrip', 'rstrip', 'partition', 'rpartition', 'removeprefix', 'removesuffix'):
                strs(n)
    _lits = found
    return found


def _name_alphabets():
    """(frame names relative to RESERVED, all frame names of generator (N), field names of generator (N))"""
    lits = _scan_literals()
    new = [x for x in lits if x not in KNOWN_LITERALS]
    core = _relatives(RESERVED)
    dn = list(core)
    fn = list(INTERNAL) + [RESERVED]
    for r in INTERNAL:
        for n in (r[:-1], r + '_', 'x' + r, r[1:]):
            dn.append(n); fn.append(n)
        dn.append(r)
    for r in new[:6]:                                  # a name somebody introduced: all its relatives, and itself
        for n in [r] + _relatives(r, len(r) <= 6):
            dn.append(n); fn.append(n)
    for r in lits[:24]:                                # the names the code compares with, themselves
        dn.append(r); fn.append(r)
    fn += ['t', 'tr', 'sh', 'ash', 'tras', 'trash_', 'xtrash', 'attrs', 'name']
    fn = [n for n in fn if n not in ('d', 'e')]        # the fixed frame names of the field-name histories

    def uniq(l):
        o = []
        for n in l:
            if n and '/' not in n and n not in o:
                o.append(n)
        return o
    return core, [n for n in uniq(dn) if n != RESERVED], uniq(fn)


def _gen_names(tier, rng, changed):
    """(N) dependence on NAMES.  Every history ends with close + fresh reopen (run()), so each of these compares the
    names, types and data a fresh Session finds with the live catalogue for frames / fields whose names are substrings,
    prefixes, suffixes, superstrings or case variants of a reserved / internal name."""
    big = tier == 'thorough'
    core, dn, fn = _name_alphabets()
    dfr = _mk_frame(0, 'd', ['a', 'b'])
    k = 0
    for n in dn:
        m = core[k % len(core)]
        if m == n:
            m = core[(k + 1) % len(core)]
        t = k % 5
        hs = [
            # a frame of that name, a field named like the frame, a field named like the reserved name
            ([], [['create_df', 0, n], ['create', 0, n, 'a', t, [1, 2]], ['create', 0, n, n, (t + 1) % 5, [3]],
                  ['create', 0, n, RESERVED, (t + 2) % 5, [4, 5]]]),
            # rename a frame to that name through ds[n] = ds['d']; the old name is used again
            (dfr, [['ds_setitem', 0, n, 0, 'd'], ['create_df', 0, 'd'], ['create', 0, 'd', 'x', t, [6]]]),
            # copy to that name, delete the source
            (dfr, [['ds_copy', 0, 'd', 0, n, 'fn'], ['ds_delitem', 0, 'd']]),
            # rename that name away to a relative of the reserved name, create it again
            ([], [['create_df', 0, n], ['create', 0, n, 'a', t, [7, 8]], ['ds_setitem', 0, m, 0, n], ['create_df', 0, n],
                  ['create', 0, n, 'b', (t + 3) % 5, [9]]]),
            # move into the other file under that name, look it up there
            (dfr, [['ds_move', 0, 'd', 1, n], ['require_df', 1, n], ['create', 1, n, 'x', t, [10]]]),
            # duplicate from a frame, copy across files under the same name, delete_dataframe
            (dfr, [['create_df_from', 0, n, 0, 'd'], ['ds_copy', 0, n, 1, n, 'method'], ['ds_delete_df', 0, n],
                   ['require_df', 0, m]]),
            # require_dataframe creates it; fields arrive by move / copy / rename under internal names
            (dfr, [['require_df', 0, n], ['fmove', 0, 'd', 'a', 0, n, 'values'], ['fcopy', 0, 'd', 'b', 0, n, 'index'],
                   ['rename', 0, n, [['values', 'index'], ['index', 'values']], 'dict']]),
        ]
        for j, (init, ops) in enumerate(hs):
            yield {'init': init, 'ops': ops, 'via': ('name', 'alt', 'handle')[(k + j) % 3]}
        k += 1
    # all ordered pairs of relatives of the reserved name in one file (one is a substring / superstring of the other)
    for n1 in core:
        for n2 in core:
            yield {'init': _mk_frame(0, n1, ['a']),
                   'ops': [['create_df', 0, n2], ['create', 0, n2, 'b', 1, [2, 3]], ['ds_delitem', 0, n1]]}
    # field names: every internal / reserved-relative name x every field type; renamed, copied, moved across files
    for i, f in enumerate(fn):
        g = fn[(i + 1) % len(fn)]
        fr = f if f != RESERVED else RESERVED[:2]      # a second frame, named like the field where that is allowed
        for t in range(5):
            init = [['create_df', 0, 'd'], ['create', 0, 'd', f, t, [11 + t, t]], ['create_df', 0, fr],
                    ['create', 0, fr, f, (t + 1) % 5, [5]]]
            yield {'init': init, 'ops': [['rename', 0, 'd', [[f, g]], 'single'], ['fcopy', 0, 'd', g, 0, fr, g]]}
            if t in (1, 3) or big or changed:
                yield {'init': init, 'ops': [['fmove', 0, 'd', f, 1, fr, g], ['create', 0, 'd', g, t, [1]]]}
                yield {'init': init, 'ops': [['ds_copy', 0, 'd', 1, fr, 'fn'], ['delitem', 0, 'd', f], ['ds_drop', 0, fr]]}
    # several such frames in one file, then dataset-level edits among them (every prefix is a history of its own: each
    # is reopened)
    for _ in range(4000 if big else (900 if changed else 300)):
        names = rng.sample(dn, rng.randint(2, 5))
        init = []
        for q, n in enumerate(names[:-1]):
            init += _mk_frame(0, n, rng.sample(fn, rng.randint(0, 2)), q)
        ops = []
        for _q in range(rng.randint(1, 4)):
            a, b = rng.choice(names), rng.choice(names + [rng.choice(dn)])
            r = rng.random()
            if r < 0.3: ops.append(['ds_setitem', 0, b, 0, a])
            elif r < 0.5: ops.append(['ds_copy', 0, a, rng.choice([0, 0, 1]), b, rng.choice(['fn', 'method'])])
            elif r < 0.65: ops.append([rng.choice(['ds_delitem', 'ds_drop', 'ds_delete_df']), 0, a])
            elif r < 0.8: ops.append(['ds_move', 0, a, rng.choice([0, 1]), b])
            elif r < 0.9: ops.append([rng.choice(['create_df', 'require_df']), 0, b])
            else: ops.append(['create', 0, a, rng.choice(fn), rng.randint(0, 4), [rng.randint(0, 99)]])
        for cut in range(1, len(ops) + 1):
            yield {'init': init, 'ops': ops[:cut], 'via': rng.choice(['name', 'alt'])}


def _ty(n, i=0):
    return (FNAMES.index(n) + i) % 5 if n in FNAMES else 0


def _mk_frame(i, d, cols, k0=0):
    ops = [['create_df', i, d]]
    for k, n in enumerate(cols):
        ops.append(['create', i, d, n, _ty(n, i), [10 * (k0 + k) + 1 + i, k0 + k]])
    return ops


INIT1 = _mk_frame(0, 'd', ['a', 'a_', 'b']) + _mk_frame(0, 'e', ['a'], 3)
INIT2 = _mk_frame(0, 'd', ['b', 'a', 'x']) + _mk_frame(0, 'd_', [], 3) + _mk_frame(1, 'e', ['a_'], 4)


def _renames(cols, targets, rng=None, cap=None):
    opts = [[None] + list(targets) for _ in cols]
    allm = list(itertools.product(*opts))
    if cap is not None and len(allm) > cap:
        allm = rng.sample(allm, cap)
    for choice in allm:
        m = [[c, t] for c, t in zip(cols, choice) if t is not None]
        yield m


def _alphabet(frames, fields, dnames, dsidx, targets=None, with_types=False):
    """all single operations over the given frame references / field names / dataframe names"""
    targets = targets or fields
    ops = []
    k = 50
    for (i, d) in frames:
        for n in fields:
            ops.append(['create', i, d, n, _ty(n, i + 1), [k, 7]]); k += 1
            ops.append(['delitem', i, d, n])
            ops.append(['drop', i, d, n])
            for v in targets:
                ops.append(['rename', i, d, [[n, v]], 'single'])
        for a, b in itertools.combinations(fields, 2):
            ops.append(['rename', i, d, [[a, b], [b, a]], 'dict'])
        for (j, d2) in frames:
            for n2 in fields:
                ops.append(['add', i, d, j, d2, n2])
                ops.append(['delete_field', i, d, j, d2, n2])
                for n in fields:
                    ops.append(['setitem', i, d, n, j, d2, n2])
                    ops.append(['fcopy', j, d2, n2, i, d, n])
                    ops.append(['fmove', j, d2, n2, i, d, n])
    for i in dsidx:
        for d in dnames:
            ops.append(['create_df', i, d])
            ops.append(['require_df', i, d])
            ops.append(['ds_delitem', i, d])
            ops.append(['ds_drop', i, d])
            ops.append(['ds_delete_df', i, d])
            for j in dsidx:
                for d2 in dnames:
                    ops.append(['create_df_from', i, d, j, d2])
                    ops.append(['ds_copy', j, d2, i, d, 'fn'])
                    ops.append(['ds_move', j, d2, i, d])
                    ops.append(['ds_setitem', i, d, j, d2])
    return ops


def _legacy(case):
    if os.environ.get('VERIF_C15_LEGACY'):
        a, b = os.environ['VERIF_C15_LEGACY'].split(',')
        case = dict(case, legacy=[int(a), int(b)])
    return case


def gen(tier, rng):
    for c in _gen(tier, rng):
        yield _legacy(c)


def _gen(tier, rng):
    big = tier == 'thorough'
    # the preambles are histories of their own
    yield {'ops': INIT1}
    yield {'ops': INIT2}
    from harness import hot
    for c in _gen_names(tier, rng, hot.changed()):
        yield c
    # (A) rename mappings, exhaustively
    colsets = [['a', 'b'], ['b', 'a'], ['a', 'a_', 'b'], ['b', 'a_', 'a'], ['a_', 'a', 'a__'], ['a', 'a_', 'a__', 'b']]
    sampled = [['b', 'a__', 'a', 'a_']]
    if big:
        colsets += sampled + [['x', 'a', 'b', 'a_']]
        sampled = [['a', 'b', 'x', 'a_', 'a__']]
    for cols in colsets + sampled:
        init = _mk_frame(0, 'd', cols) + _mk_frame(0, 'e', ['a'], 5)
        yield {'ops': init}
        cap = None if cols in colsets else (4000 if big else 300)
        for m in _renames(cols, FNAMES, rng, cap):
            yield {'init': init, 'ops': [['rename', 0, 'd', m, 'dict']]}
        for m in _renames(cols[:2], FNAMES):
            yield {'init': init, 'ops': [['rename', 0, 'd', m + [['zz', 'a']], 'dict']]}
    # (A2) creation order x mapping.  The order in which the columns were created is the order of the two passes of
    # rename, i.e. it decides which temporary names are chosen and which names are (still) taken when a column is moved:
    # every ordered choice of 3 columns from {a,a_,a__,b,b_} x every mapping that renames all three onto distinct names of
    # that alphabet (permutations, cycles, chains, identities among them), exhaustively; 4 and 5 columns sampled (quick)
    # / 4 exhaustively (thorough).  The dict lists its entries in a rotated order (dict order != column order).
    from harness import hot
    changed = hot.changed()
    n3 = 0
    for cols in itertools.permutations(RNAMES, 3):
        init = _mk_frame(0, 'd', list(cols))
        for tg in itertools.permutations(RNAMES, 3):
            m = [[c, t] for c, t in zip(cols, tg)]
            r = n3 % 3
            n3 += 1
            yield {'init': init, 'ops': [['rename', 0, 'd', m[r:] + m[:r], 'dict']]}
    all4 = [(c, t) for c in itertools.permutations(RNAMES, 4) for t in itertools.permutations(RNAMES, 4)]
    for cols, tg in (all4 if big else rng.sample(all4, 4000 if changed else 1200)):
        m = [[c, t] for c, t in zip(cols, tg)]
        rng.shuffle(m)
        yield {'init': _mk_frame(0, 'd', list(cols)), 'ops': [['rename', 0, 'd', m, 'dict']]}
    # 4-5 columns, 3.. entries, the other columns keep their names; then the inverse mapping (second use of the frame)
    for _ in range(6000 if big else (1500 if changed else 500)):
        k = rng.choice([4, 5, 5])
        cols = rng.sample(RNAMES + ['x'], k)
        ren = rng.sample(cols, rng.randint(3, k))
        free = [n for n in RNAMES + ['x'] if n not in cols or n in ren]
        tg = rng.sample(free, len(ren))
        m = [[c, t] for c, t in zip(ren, tg)]
        ops = [['rename', 0, 'd', m, 'dict']]
        if rng.random() < 0.5:
            back = [[t, c] for c, t in m]
            rng.shuffle(back)
            ops.append(['rename', 0, 'd', back, 'dict'])
        yield {'init': _mk_frame(0, 'd', cols), 'ops': ops, 'via': rng.choice(['name', 'handle'])}
    # (F) object identity of dataframes.  A caller keeps the object it got from create_dataframe / require_dataframe /
    # ds[name]; the dataset must go on serving THAT object (verdict `ident` after every step), whatever the frame holds -
    # in particular nothing (an empty HDF5DataFrame is falsy: it defines __len__).  Frame states: never had a field /
    # one field / emptied again; every dataset-level operation that looks a frame up or hands one back; then field-level
    # work through the kept handle and through ds[name] alternately ('alt'), or all through the handle.
    states = [[['create_df', 0, 'd']],
              [['create_df', 0, 'd'], ['create', 0, 'd', 'a', 0, [5, 6]]],
              [['create_df', 0, 'd'], ['create', 0, 'd', 'a', 1, [5, 6]], ['delitem', 0, 'd', 'a']],
              [['require_df', 0, 'd']],
              [['create_df', 0, 'e'], ['create', 0, 'e', 'b', 3, [1]], ['create_df_from', 0, 'd', 0, 'e'], ['drop', 0, 'd', 'b']]]
    lookups = [['require_df', 0, 'd'], ['require_df', 0, 'd_'], ['create_df', 0, 'd'], ['create_df', 0, 'd_'],
               ['create_df_from', 0, 'd_', 0, 'd'], ['create_df_from', 0, 'd', 0, 'd'], ['ds_copy', 0, 'd', 0, 'd_', 'fn'],
               ['ds_copy', 0, 'd', 1, 'd', 'method'], ['ds_copy', 0, 'd', 0, 'd', 'fn'], ['ds_setitem', 0, 'd_', 0, 'd'],
               ['ds_setitem', 0, 'd', 0, 'd'], ['ds_setitem', 1, 'd', 0, 'd'], ['ds_move', 0, 'd', 0, 'd_'],
               ['ds_move', 0, 'd', 1, 'd'], ['ds_delete_df', 0, 'd'], ['ds_drop', 0, 'd_']]
    work = [[['create', 0, 'd', 'a_', 0, [1, 2]], ['create', 0, 'd', 'b', 2, [3]]],
            [['create', 0, 'd', 'x', 4, [7]], ['rename', 0, 'd', [['x', 'a__']], 'single']],
            [['create', 0, 'd', 'b', 0, [1]], ['delitem', 0, 'd', 'b']],
            [['create', 0, 'd_', 'a', 0, [1]], ['fmove', 0, 'd_', 'a', 0, 'd', 'a__']],
            [['require_df', 0, 'd'], ['create', 0, 'd', 'b', 1, [4]]]]
    for st in states:
        for lk in lookups:
            for w in work:
                for via in (('alt', 'handle', 'name') if big else ('alt', 'handle')):
                    yield {'init': st, 'ops': [lk] + w + [['require_df', 0, 'd'], ['create', 0, 'd', 'a', 0, [9]]], 'via': via}
    for st in states:
        for l1, l2 in itertools.product(lookups, repeat=2):
            yield {'init': st, 'ops': [l1, l2, ['create', 0, 'd', 'x', 0, [1]], ['create', 0, 'd_', 'x', 0, [2]]], 'via': 'alt'}
    # rename followed by rename (chains of renames through temporary-looking names)
    cols = ['a', 'a_', 'b']
    init = _mk_frame(0, 'd', cols)
    ms = list(_renames(cols, ['a', 'a_', 'a__', 'b']))
    pairs = list(itertools.product(ms, ms))
    for m1, m2 in rng.sample(pairs, 6000 if big else 500):
        yield {'init': init, 'ops': [['rename', 0, 'd', m1, 'dict'], ['rename', 0, 'd', m2, 'dict']]}
    # (B) every single operation, full name alphabet, from two prepared states
    frames = [(0, 'd'), (0, 'd_'), (0, 'e'), (1, 'e'), (1, 'd')]
    full = _alphabet(frames, FNAMES, DNAMES, [0, 1])
    for init in (INIT1, INIT2):
        for op in full:
            yield {'init': init, 'ops': [op]}
    # (C) every pair over a medium alphabet
    if big:
        med = _alphabet([(0, 'd'), (0, 'e')], ['a', 'a_'], ['d', 'e', 'd_'], [0, 1], targets=['a', 'a_', 'b'])
        med = [o for o in med if o[0] not in ('add', 'delete_field', 'require_df', 'ds_drop', 'ds_delete_df')
               and not (o[0] in ('create_df_from', 'ds_copy', 'ds_move', 'ds_setitem') and o[1] == 1 and o[3] == 1)]
    else:
        med = _alphabet([(0, 'd'), (0, 'e')], ['a', 'a_'], ['d', 'e'], [0], targets=['a', 'a_', 'b'])
        med = [o for o in med if o[0] not in ('add', 'delete_field', 'drop', 'ds_drop', 'ds_delete_df', 'require_df')
               and not (o[0] in ('setitem', 'fcopy') and o[3] != 'a_')]
        med += [['ds_move', 0, 'd', 1, 'd'], ['ds_setitem', 0, 'd_', 0, 'd'], ['ds_copy', 0, 'e', 0, 'd_', 'method']]
    for a, b in itertools.product(med, repeat=2):
        yield {'init': INIT1, 'ops': [a, b]}
    # (D) every triple over a small alphabet
    small = [['create', 0, 'd', 'x', 0, [90, 7]], ['create', 0, 'd', 'x', 5, [1]], ['create', 0, 'd', 'a', 6, [1]],
             ['delitem', 0, 'd', 'a'],
             ['rename', 0, 'd', [['a', 'a_'], ['a_', 'a']], 'dict'], ['rename', 0, 'd', [['b', 'a']], 'single'],
             ['rename', 0, 'd', [['a', 'x']], 'single'], ['rename', 0, 'e', [['a', 'a_']], 'single'],
             ['fmove', 0, 'd', 'a', 0, 'e', 'a_'], ['fmove', 0, 'e', 'a', 0, 'd', 'x'], ['fmove', 0, 'd', 'b', 0, 'd', 'a'],
             ['fcopy', 0, 'd', 'b', 0, 'e', 'b'], ['setitem', 0, 'e', 'a', 0, 'd', 'a'],
             ['ds_setitem', 0, 'd_', 0, 'd'], ['ds_setitem', 0, 'e', 0, 'd'], ['ds_move', 0, 'd', 0, 'd_'],
             ['ds_move', 0, 'e', 1, 'e'], ['ds_delitem', 0, 'e']]
    if big:
        small += [['rename', 0, 'd_', [['a', 'b'], ['b', 'a_']], 'dict'], ['fmove', 1, 'e', 'a', 0, 'd', 'a'],
                  ['ds_setitem', 0, 'd', 1, 'e'], ['delete_field', 0, 'd', 0, 'd', 'a'], ['ds_drop', 0, 'd'],
                  ['drop', 0, 'e', 'a'], ['add', 0, 'e', 0, 'd', 'a_'], ['ds_copy', 0, 'd', 1, 'd', 'method'],
                  ['require_df', 0, 'd_'], ['create_df_from', 0, 'd_', 0, 'd']]
    for t in itertools.product(small, repeat=3):
        yield {'init': INIT1, 'ops': list(t)}
    # (E) seeded random longer histories over the full alphabet, biased towards existing names
    for _ in range(12000 if big else 1000):
        n = rng.randint(4, 9)
        init = rng.choice([INIT1, INIT2, []])
        ops = []
        for k in range(n):
            if rng.random() < 0.25:
                cols = rng.sample(FNAMES, rng.randint(1, 3))
                m = [[c, rng.choice(FNAMES)] for c in cols]
                ops.append(['rename', rng.choice([0, 0, 1]), rng.choice(DNAMES), m, 'dict'])
            else:
                o = list(rng.choice(full))
                if o[0] == 'create':
                    o = ['create', o[1], o[2], o[3], rng.choice([0, 1, 2, 3, 4, 0, 1, 2, 3, 4, 5, 6, 7]), [100 + k, k]]
                ops.append(o)
        yield {'init': init, 'ops': ops, 'via': rng.choice(['name', 'name', 'handle', 'alt'])}


def shrink(case):
    ops = case['ops']
    for i in range(len(ops)):
        c = dict(case); c['ops'] = ops[:i] + ops[i + 1:]
        yield c
    for i, o in enumerate(ops):
        if o[0] == 'rename' and len(o[3]) > 1:
            for j in range(len(o[3])):
                c = dict(case)
                c['ops'] = ops[:i] + [[o[0], o[1], o[2], o[3][:j] + o[3][j + 1:]] + o[4:]] + ops[i + 1:]
                yield c
