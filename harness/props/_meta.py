"""Shared machinery of the three cross-cutting properties (C10 memory safety, C11 JIT/interpreted
equivalence, C12 termination): they re-run the generators of the per-operation properties under
other execution modes / oracles.  A meta case is {'p': 'Cxx', 'c': <case of that property>}."""
import importlib, os

_mods = {}


def mod(pid):
    if pid not in _mods:
        _mods[pid] = importlib.import_module('harness.props.' + pid)
    return _mods[pid]


def available(ids):
    here = os.path.dirname(os.path.abspath(__file__))
    return [p for p in ids if os.path.exists(os.path.join(here, p + '.py'))]


def setup_all(ids):
    for p in ids:
        mod(p).setup()


def warmup_all(ids):
    for p in ids:
        m = mod(p)
        if hasattr(m, 'warmup'):
            try:
                m.warmup()
            except Exception:
                pass


def teardown_all(ids):
    for p in ids:
        m = mod(p)
        if hasattr(m, 'teardown'):
            try:
                m.teardown()
            except Exception:
                pass


def run(case):
    return mod(case['p']).run(case['c'])


def to_val(case):
    return mod(case['p']).to_val(case['c'])


def num_of(case):
    return mod(case['p']).NUM


def from_val(case, v):
    return mod(case['p']).from_val(case['c'], v)


def features(case, model):
    m = mod(case['p'])
    fs = m.features(case['c'], model) if hasattr(m, 'features') else []
    return [case['p']] + ['%s:%s' % (case['p'], f) for f in fs]


def nontrivial(case, model):
    m = mod(case['p'])
    return m.nontrivial(case['c'], model) if hasattr(m, 'nontrivial') else True


def known(case, impl, model, spec, mode):
    m = mod(case['p'])
    return m.known(case['c'], impl, model, spec, mode) if hasattr(m, 'known') else None


def skip(case, mode):
    m = mod(case['p'])
    return m.skip(case['c'], mode) if hasattr(m, 'skip') else False


def src_equal(case, impl, expected, mode):
    from harness.core import results_equal
    m = mod(case['p'])
    if hasattr(m, 'equal'):
        return m.equal(case['c'], impl, expected, mode)
    return results_equal(impl, expected, mode)


def src_spec_ok(case, impl, spec, mode):
    m = mod(case['p'])
    if hasattr(m, 'spec_ok'):
        return m.spec_ok(case['c'], impl, spec, mode)
    return src_equal(case, impl, spec, mode)


def shrink(case):
    m = mod(case['p'])
    if hasattr(m, 'shrink'):
        for c in m.shrink(case['c']):
            yield {'p': case['p'], 'c': c}


def sample(ids, tier, rng, budget, pick=None):
    """Deterministic sub-sample of every source generator: at most budget[pid] cases per source
    (every k-th case of the source's own enumeration, so all regions of it are visited);
    pick(pid, case) may force a case in."""
    import random
    for pid in ids:
        m = mod(pid)
        sub = random.Random(rng.random())
        cases = list(m.gen(tier, sub))
        n = budget.get(pid, budget.get('*', 2000))
        forced = [c for c in cases if pick and pick(pid, c)] if pick else []
        step = max(1, len(cases) // max(1, n))
        chosen = cases[::step][:n]
        for c in forced[:n] + chosen:
            yield {'p': pid, 'c': c}


def props_files(ids):
    out = []
    for p in ids:
        for f in mod(p).PROPS_FILES:
            if f not in out:
                out.append(f)
    return out
