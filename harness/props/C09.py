"""C09 — filter / re-index / sort keep rows intact and leave the source untouched.
   Real code: exetera/core/{operations,fields,dataframe,session,validation}.py
   Model:     coq/Model/FilterIndex.v + coq/Model/StableSort.v + coq/Model/FrameHist.v (histories across entry-point
              levels);  spec: coq/Spec/FilterIndexSpec.v + coq/Spec/FrameHistSpec.v
"""
import io, itertools, os

PROP, NUM = 'C09', 9
PROPS_FILES = ['Props/C09.v']
MODES = ['jit', 'nojit']
MODES_THOROUGH = ['jit', 'nojit', 'bounds']
LEVEL = 'proof'
TIMEOUT_S = 30.0
EXHAUSTIVE = {'quick': True, 'thorough': True}
TECHNIQUE = ('Coq proof (Gallina model of the two indexed-string kernels, the FieldDataOps compositions, the DataFrame '
             'loops and the LSD argsort of dataset_sort_index = list-level gather / stable lexicographic sort; histories of '
             'calls at dataframe, session and field level = fold of the one-call specifications, by induction) + '
             'exhaustive small-scope differential correspondence against the real HDF5-backed and in-memory fields')
RULE = ('exhaustive small scope, then seeded random. Kernels: every indexed-string column of <= 4 (thorough 5) rows with entry '
        'lengths in {0,1,2} x every boolean filter of that length (+ short/long filters), every index array of length <= 3 '
        'over [-n-1, n] for <= 3 rows. dataset_sort_index: every choice of 1-2 key columns over {0,1,2} with <= 4 rows and of 3 '
        'key columns over {0,1} with <= 3 rows (string keys included). Field level: every field class x HDF5/memory store x '
        'every filter of length n <= 3 in three dtypes x every index array of length <= 2 x {new field, create_like target '
        '(HDF5 and memory), in place, read-only source} x a second application. Dataframe level: a 7-column frame mixing '
        'every field type (indexed strings with empty and multi-byte entries) with <= 4 rows x every boolean / 0-1-2 numeric / '
        'float filter, every index array of length <= 3 (2-column frame), every key list of length <= 2 with ties, each '
        'in place and into a fresh dataframe, via DataFrame.* and Session.sort_on, plus all two-step histories over a menu '
        'of 14 calls (repeated application, destination reuse, in-place after out-of-place). Histories that cross entry-point '
        'levels on ONE dataframe object (op fh; same DataFrame, Field and Session objects throughout): a 20-letter alphabet = '
        'DataFrame.sort_values (1 key, 2 keys, string key) / apply_filter / apply_index, each in place and into a fresh '
        'destination; Session.sort_on (same frame on another key / on the same key, other frame); Session.apply_index(dest=src) '
        'on every column; Field.apply_index / apply_filter(in_place=True) on every column or on the key column only; '
        'field.data[:]= / clear()+write() of the key column or of all rows. Every history of <= 3 letters over a 10-letter core '
        'alphabet on a 3-row frame, every 2-letter history over the whole alphabet, every history (in-place dataframe call, '
        'below-dataframe change, the same call again into a destination AND in place | any other dataframe call) on 2- and '
        '3-row frames, 250 sampled 3-letter histories over the whole alphabet, 120 random histories of 4-9 letters with random '
        'keys (1-2 sort keys over all columns) / permutations / filters / written values on 2-9 rows (thorough: 4 frames, 3000 '
        '3-letter + 1500 4-letter + 1000 random histories); a new small literal of the tree under test becomes the row count '
        '(harness/hot.py), a changed tree triples the sampled budget. Quick tier: these histories run compiled only. '
        'Session.apply_filter/apply_index '
        'with Field and ndarray sources. HDF5-backed cases cost 3-10 ms each, hence the row bounds. After every call all fields '
        'of all dataframes are read back twice (through the cached Field objects and through fresh ones) and compared with the '
        'model AND with the row-level specification, including class/dtype/strlen/key of every column. Non-trivial = reaches a '
        'planted feature (empty result, empty string entry, multi-byte entry, ties, repeats in the index, in-place on HDF5 '
        'indexed string, never-written column, numeric filter value 2, second application).')
TRUSTED = ['numpy boolean-mask / integer indexing / argsort(kind="stable") and h5py dataset create/resize/assign are modelled '
           '(np_mask, np_take, argsort, ds_write), not verified; exercised by this correspondence',
           'order-preserving integer encoding of floats (multiples of 1/2), fixed strings (big-endian) and UTF-8 strings '
           '(byte order = code point order) done by this module',
           'Sorting.Permutation / Sorted from the Coq standard library (no axioms)']
ASSUMPTIONS = ['fields are well-formed (index dataset = prefix sums of entry lengths, last = len(values)) as produced by the API',
               'sort keys are totally ordered (no NaN)', 'filters have one entry per row; index entries lie in [0, n)']
LEVEL_TEXT = ('Theorems in coq/Props/C09.v prove for all inputs (unbounded rows, columns, entry lengths) that the model of the '
              'two kernels returns the canonical storage of the filtered / gathered entries, that every dataframe-level call '
              'equals the row-level specification (same gather applied to every column, source unchanged, metadata copied), '
              'that in-place equals out-of-place, and that dataset_sort_index is the unique stable permutation sorting the key '
              'rows lexicographically; that a history of dataframe-, session- and field-level calls and direct writes on the '
              'same objects equals the fold of the one-call specifications over the frames as they stand at each call '
              '(c09_history_correct, c09_history_last_call_alone, c09_call_after_any_history: the model keeps no state '
              'between calls); the model is tied to the repository by the differential run described in `rule`.')
LEVEL_NOTE = ('Source immutability and metadata are facts about numpy/h5py aliasing: trivial in the functional model, '
              'established for the real code only by the correspondence run (bounded).')

_np = _fld = _ops = _Session = None
_gs = None

# ----------------------------------------------------------------------------- encodings
DT_CODE = {'bool': 0, 'int8': 1, 'uint8': 2, 'int16': 3, 'uint16': 4, 'int32': 5, 'uint32': 6, 'int64': 7,
           'uint64': 8, 'float32': 9, 'float64': 10}
TYPE_CODE = {'IndexedStringField': 1, 'FixedStringField': 2, 'NumericField': 3, 'CategoricalField': 4, 'TimestampField': 5}
KIND_TYPE = {'idx': 1, 'fix': 2, 'num': 3, 'cat': 4, 'ts': 5}


def be_int(b):
    return int.from_bytes(b, 'big') if b else 0


def flt_class(dt):
    if dt == 'bool':
        return 0
    if dt in ('float32', 'float64', 'int8', 'uint8', 'int16', 'uint16', 'int32', 'uint32', 'int64'):
        return 1
    return 2


def enc_scalar(col, x):
    k = col['kind']
    if k == 'fix':
        b = x.encode() if isinstance(x, str) else bytes(x)
        return be_int(b.ljust(col['strlen'], b'\0'))
    if k == 'ts' or (k == 'num' and col['dtype'].startswith('float')):
        v = 2 * x
        assert v == int(v)
        return int(v)
    return int(x)


def col_meta(col):
    k = col['kind']
    if k == 'idx':
        return [1, 0, 0]
    if k == 'fix':
        return [2, 0, col['strlen']]
    if k == 'num':
        return [3, DT_CODE[col['dtype']], 0]
    if k == 'ts':
        return [5, DT_CODE['float64'], 0]
    if k == 'cat':
        m = [4, DT_CODE[col['dtype']], 0]
        for name, v in sorted(col['key'].items(), key=lambda kv: kv[1]):
            m += [int(v), be_int(name.encode())]
        return m
    raise ValueError(k)


def col_to_wire(col, wr=1):
    """colspec -> wire field [meta, wr, kind, A, B]"""
    if col['kind'] == 'idx':
        idx, vals = [], []
        if not col.get('unwritten') and col['data']:     # writing [] leaves the index dataset empty
            idx = [0]
            for s in col['data']:
                vals += list(s.encode())
                idx.append(len(vals))
        return [col_meta(col), wr, 0, idx, vals]
    return [col_meta(col), wr, 1, [enc_scalar(col, x) for x in col['data']], []]


def arr_to_ints(a, strlen=None):
    np = _np
    if a.dtype.kind == 'S':
        w = a.dtype.itemsize
        return [be_int(bytes(x).ljust(w, b'\0')) for x in a]
    if a.dtype.kind == 'f':
        out = []
        for x in a:
            v = 2 * float(x)
            if v != int(v):
                raise ValueError('non half-integral float in result')
            out.append(int(v))
        return out
    return [int(x) for x in a]


def field_meta(f):
    np = _np
    cls = type(f).__name__.replace('Mem', '')
    t = TYPE_CODE[cls]
    if t == 1:
        # (a never-written MemoryFieldArray reads as uint8 zeros whatever its dtype, so a 0-row result derived
        #  from it has a uint8 index array: storage-layer quirk, see REPORT 'observations'; checked from 1 row on)
        bad = 0
        if str(f.indices[:].dtype) != 'int64' and len(f.indices) > 1:
            bad = 900
        if str(f.values[:].dtype) != 'uint8' and len(f.values) > 0:
            bad = 901
        return [1, bad, 0]
    data = f.data[:]
    empty_mem = 'Mem' in type(f).__name__ and len(data) == 0      # same storage-layer quirk: dtype of a 0-row
    if t == 2:                                                    # memory field is not checked
        ln = int(f._length)
        if empty_mem:
            return [2, 0, ln]
        if data.dtype.kind != 'S' or data.dtype.itemsize != ln:
            return [2, 900, ln]
        return [2, 0, ln]
    actual = str(data.dtype)
    if empty_mem:
        actual = 'float64' if t == 5 else str(f._nformat)
    if t == 5:
        return [5, DT_CODE.get(actual, 990), 0]
    nf = str(f._nformat)
    code = DT_CODE.get(actual, 990)
    if nf != actual:
        code = 900 + code
    m = [t, code, 0]
    if t == 4:
        for v, name in sorted(((int(v), n) for v, n in f.keys.items())):
            nb = name.encode() if isinstance(name, str) else bytes(name)
            m += [v, be_int(nb)]
    return m


def field_body(f):
    if f.indexed:
        return [0, [int(x) for x in f.indices[:]], [int(x) for x in f.values[:]]]
    return [1, arr_to_ints(f.data[:]), []]


def canon_field(f, fresh=None):
    """canonical value of a real field; `fresh` = an independent wrapper of the same storage:
    a disagreement between the two views is reported as a marker that no model answer contains."""
    k, a, b = field_body(f)
    out = [field_meta(f), 1 if f._write_enabled else 0, k, a, b]
    if fresh is not None:
        k2, a2, b2 = field_body(fresh)
        if (k2, a2, b2) != (k, a, b):
            out.append(['STALE-VIEW', k2, a2, b2])
        # the decoded view must agree with the raw datasets as well
    if f.indexed:
        dec = f.data[:]
        want = []
        for i in range(len(a) - 1):
            want.append(bytes(b[a[i]:a[i + 1]]).decode())
        if list(dec) != want:
            out.append(['DATA-VIEW', [list(x.encode()) for x in dec]])
    return out


# ----------------------------------------------------------------------------- building real objects
class Ctx:
    def __init__(self):
        self.s = _Session()
        self.bio = io.BytesIO()
        self.ds = self.s.open_dataset(self.bio, 'w', 'ds')
        self.n = 0

    def close(self):
        try:
            self.s.close()
        except Exception:
            pass

    def newdf(self):
        self.n += 1
        return self.ds.create_dataframe('df%d' % self.n)


def np_data(col):
    np = _np
    k = col['kind']
    if k == 'fix':
        return np.array([x.encode() for x in col['data']], dtype='S%d' % col['strlen'])
    if k == 'ts':
        return np.array(col['data'], dtype=np.float64)
    return np.array(col['data'], dtype=col['dtype'])


def add_col(df, col):
    k = col['kind']
    name = 'c%d' % col['name']
    if k == 'idx':
        f = df.create_indexed_string(name)
        if not col.get('unwritten'):
            f.data.write(list(col['data']))
        return f
    if k == 'fix':
        f = df.create_fixed_string(name, col['strlen'])
    elif k == 'num':
        f = df.create_numeric(name, col['dtype'])
    elif k == 'cat':
        f = df.create_categorical(name, col['dtype'], dict(col['key']))
    elif k == 'ts':
        f = df.create_timestamp(name)
    else:
        raise ValueError(k)
    if not col.get('unwritten'):
        f.data.write(np_data(col))
    return f


def mem_col(s, col):
    fld = _fld
    k = col['kind']
    if k == 'idx':
        f = fld.IndexedStringMemField(s)
        if not col.get('unwritten'):
            f.data.write(list(col['data']))
        return f
    if k == 'fix':
        f = fld.FixedStringMemField(s, col['strlen'])
    elif k == 'num':
        f = fld.NumericMemField(s, col['dtype'])
    elif k == 'cat':
        f = fld.CategoricalMemField(s, col['dtype'], dict(col['key']))
    else:
        f = fld.TimestampMemField(s)
    if not col.get('unwritten'):
        f.data.write(np_data(col))
    return f


def np_arg(arg, dt):
    np = _np
    if dt.startswith('float'):
        return np.array([x / 2 for x in arg], dtype=dt)
    return np.array(arg, dtype=dt)


def canon_frame(ctx, df):
    out = []
    for name in list(df._columns.keys()):
        f = df._columns[name]
        fresh = ctx.s.get(df._h5group[name])
        out.append([int(name[1:]), canon_field(f, fresh)])
    h5names = sorted(df._h5group.keys())
    if h5names != sorted(df._columns.keys()):
        out.append(['CATALOGUE', h5names])
    return out


# ----------------------------------------------------------------------------- run
def setup():
    global _np, _fld, _ops, _Session
    import numpy as np
    from exetera.core import fields as fld, operations as ops
    from exetera.core.session import Session
    _np, _fld, _ops, _Session = np, fld, ops, Session


def warmup():
    np, ops = _np, _ops
    ind = np.array([0, 1, 3], dtype=np.int64)
    vals = np.array([1, 2, 3], dtype=np.uint8)
    ops.apply_filter_to_index_values(np.array([True, False]), ind, vals)
    for dt in (np.int64, np.int32, np.uint32):
        ops.apply_indices_to_index_values(np.array([1, 0], dtype=dt), ind, vals)


def run(case):
    op = case['op']
    np, ops = _np, _ops
    if op == 'kf':
        di, dv = ops.apply_filter_to_index_values(np.array(case['flt'], dtype=bool),
                                                  np.array(case['idx'], dtype=np.int64),
                                                  np.array(case['vals'], dtype=np.uint8))
        assert di.dtype == np.int64 and dv.dtype == np.uint8
        return [[int(x) for x in di], [int(x) for x in dv]]
    if op == 'ki':
        di, dv = ops.apply_indices_to_index_values(np.array(case['ix'], dtype=case.get('ixdt', 'int64')),
                                                   np.array(case['idx'], dtype=np.int64),
                                                   np.array(case['vals'], dtype=np.uint8))
        assert di.dtype == np.int64 and dv.dtype == np.uint8
        return [[int(x) for x in di], [int(x) for x in dv]]
    if op == 'dsi':
        return run_dsi(None, case)
    ctx = Ctx()
    try:
        if op == 'fld':
            return run_fld(ctx, case)
        if op == 'df':
            return run_df(ctx, case)
        if op == 'fh':
            return run_fh(ctx, case)
        if op == 'arr':
            return run_arr(ctx, case)
        if op == 'dsi':
            return run_dsi(ctx, case)
        raise ValueError(op)
    finally:
        ctx.close()


def scratch_field(ctx, arg, dt):
    df = ctx.newdf()
    f = df.create_numeric('a', dt)
    f.data.write(np_arg(arg, dt))
    return f


def run_fld(ctx, case):
    col = case['col']
    if case['store'] == 'h5':
        df = ctx.newdf()
        src = add_col(df, col)
        if case.get('ro'):
            src = type(src)(ctx.s, src._field, None, write_enabled=False)
    else:
        src = mem_col(ctx.s, col)
    tgt = None
    if case['tgt'] == 'like_h5':
        tgt = src.create_like(ctx.newdf(), 'c%d' % col['name'])
    elif case['tgt'] == 'like_mem':
        tgt = src.create_like()
    rets = []
    for st in case['steps']:
        dt = st['dt']
        arg = np_arg(st['arg'], dt)
        if st.get('asfield'):
            arg = scratch_field(ctx, st['arg'], dt)
        mode = st['mode']
        target = tgt if mode == 1 else None
        if st.get('via') == 'session':
            assert mode != 2
            r = (ctx.s.apply_filter if st['what'] == 'filter' else ctx.s.apply_index)(arg, src, target)
            like = target if target is not None else src
            meta = field_meta(like)
            if src.indexed:
                rets.append([meta, 1, 0, [int(x) for x in r[0]], [int(x) for x in r[1]]])
            else:
                rets.append([meta, 1, 1, arr_to_ints(r), []])
        else:
            fn = src.apply_filter if st['what'] == 'filter' else src.apply_index
            r = fn(arg, target, mode == 2)
            if mode == 2:
                assert r is src
            if mode == 1 and target is not None:
                assert r is target
            if mode == 0 or (mode == 1 and target is None):
                assert r is not src and type(r).__name__.endswith('MemField')
            rets.append(canon_field(r))
    return [canon_field(src), [] if tgt is None else [canon_field(tgt)], rets]


def run_df(ctx, case):
    dfs = []
    for cols in case['world']:
        df = ctx.newdf()
        for col in cols:
            add_col(df, col)
        dfs.append(df)
    for st in case['steps']:
        do_step(ctx, dfs, st)
    return [canon_frame(ctx, df) for df in dfs]


def do_step(ctx, dfs, st):
    if True:
        k = st['k']
        src = dfs[st['src']]
        dst = None if st['dst'] is None else dfs[st['dst']]
        if k == 'filter':
            arg = np_arg(st['arg'], st['dt'])
            if st.get('asfield'):
                arg = scratch_field(ctx, st['arg'], st['dt'])
            if st.get('own') is not None:
                arg = src['c%d' % st['own']]          # a column of the frame that is being filtered
            r = src.apply_filter(arg, ddf=dst)
            assert r is (src if dst is None else dst)
        elif k == 'index':
            arg = np_arg(st['arg'], st.get('dt', 'int64'))
            if st.get('own') is not None:
                arg = src['c%d' % st['own']]          # a column of the frame that is being re-indexed
            r = src.apply_index(arg, ddf=dst)
            assert r is (src if dst is None else dst)
        elif k == 'sort':
            by = ['c%d' % x for x in st['arg']]
            if st.get('bystr') and len(by) == 1:
                by = by[0]
            r = src.sort_values(by, ddf=dst)
            assert r is (src if dst is None else dst)
        elif k == 'sort_on':
            keys = tuple('c%d' % x for x in st['arg'])
            ctx.s.sort_on(src, src if dst is None else dst, keys, verbose=False)
        else:
            raise ValueError(k)


def run_fh(ctx, case):
    """a history that crosses entry-point levels on the SAME dataframe / field / session objects"""
    np = _np
    dfs = []
    for cols in case['world']:
        df = ctx.newdf()
        for col in cols:
            add_col(df, col)
        dfs.append(df)
    held = {}                                   # Field objects are fetched once and kept, as a caller would
    for ev in case['evs']:
        e = ev['e']
        if e == 'call':
            do_step(ctx, dfs, ev['st'])
            continue
        df = dfs[ev['src']]
        name = 'c%d' % ev['name']
        f = df[name]
        assert held.setdefault((ev['src'], name), f) is f
        if e == 'write':
            c = ev['col']
            new = list(c['data']) if c['kind'] == 'idx' else np_data(c)
            if ev['how'] == 'slice':
                f.data[:] = new                 # same length (h5py slice assignment)
            else:
                f.data.clear()
                f.data.write(new)
        elif e == 'findex':
            r = f.apply_index(np.array(ev['idx'], dtype=np.int64), in_place=True)
            assert r is f
        elif e == 'ffilter':
            r = f.apply_filter(np_arg(ev['flt'], ev['dt']), in_place=True)
            assert r is f
        elif e == 'sindex':
            ctx.s.apply_index(np.array(ev['idx'], dtype=np.int64), f, dest=f)
        else:
            raise ValueError(e)
        assert df[name] is f
    return [canon_frame(ctx, df) for df in dfs]


def run_arr(ctx, case):
    np = _np
    src = np.array(case['src'], dtype=np.int64)
    dt = case['dt']
    arg = np_arg(case['arg'], dt)
    if case.get('asfield'):
        arg = scratch_field(ctx, case['arg'], dt)
    dest = None
    if case['dest'] is not None:
        df = ctx.newdf()
        dest = df.create_numeric('d', 'int64')
        if case['dest']:
            dest.data.write(np.array(case['dest'], dtype=np.int64))
    fn = ctx.s.apply_filter if case['what'] == 'filter' else ctx.s.apply_index
    r = fn(arg, src, dest)
    return [[int(x) for x in r], [] if dest is None else [[int(x) for x in dest.data[:]]]]


def run_dsi(ctx, case):
    np = _np
    readers = []
    for kc in case['keys']:
        if kc['t'] == 'int':
            readers.append(np.array(kc['v'], dtype=np.int64))
        elif kc['t'] == 'S':
            readers.append(np.array([x.encode() for x in kc['v']], dtype='S3'))
        else:
            raise ValueError(kc['t'])
    n = len(case['keys'][0]['v']) if case['keys'] else 0
    global _gs
    if _gs is None:
        _gs = _Session()
    r = _gs.dataset_sort_index(tuple(readers), np.arange(n, dtype=np.uint32))
    return [int(x) for x in r]


# ----------------------------------------------------------------------------- wire
def to_val(case):
    op = case['op']
    opt = lambda x: [] if x is None else [x]
    if op == 'kf':
        return [1, case['flt'], case['idx'], case['vals']]
    if op == 'ki':
        return [2, case['ix'], case['idx'], case['vals']]
    if op == 'fld':
        col = case['col']
        src = col_to_wire(col, 0 if case.get('ro') else 1)
        tgt = []
        if case['tgt'] is not None:
            e = dict(col, data=[], unwritten=True)
            tgt = [col_to_wire(e, 1)]
        steps = [[0 if st['what'] == 'filter' else 1, flt_class(st['dt']) if st['what'] == 'filter' else 1,
                  st['arg'], st['mode']] for st in case['steps']]
        return [3, src, tgt, steps]
    if op == 'df':
        world = [[[c['name'], col_to_wire(c)] for c in cols] for cols in case['world']]
        kinds = {'filter': 0, 'index': 1, 'sort': 2, 'sort_on': 3}
        steps = [[kinds[st['k']], st['src'], flt_class(st.get('dt', 'int64')), st['arg'], opt(st['dst'])]
                 for st in case['steps']]
        return [4, world, steps]
    if op == 'fh':
        world = [[[c['name'], col_to_wire(c)] for c in cols] for cols in case['world']]
        kinds = {'filter': 0, 'index': 1, 'sort': 2, 'sort_on': 3}
        evs = []
        for ev in case['evs']:
            e = ev['e']
            if e == 'call':
                st = ev['st']
                evs.append([0, [kinds[st['k']], st['src'], flt_class(st.get('dt', 'int64')), st['arg'], opt(st['dst'])]])
            elif e == 'write':
                evs.append([1, ev['src'], ev['name'], col_to_wire(ev['col'])])
            elif e == 'findex':
                evs.append([2, ev['src'], ev['name'], ev['idx']])
            elif e == 'ffilter':
                evs.append([3, ev['src'], ev['name'], flt_class(ev['dt']), ev['flt']])
            elif e == 'sindex':
                evs.append([4, ev['src'], ev['name'], ev['idx']])
            else:
                raise ValueError(e)
        return [7, world, evs]
    if op == 'arr':
        return [5, 0 if case['what'] == 'filter' else 1, case['src'], flt_class(case['dt']), case['arg'], opt(case['dest'])]
    if op == 'dsi':
        readers = []
        for kc in case['keys']:
            if kc['t'] == 'int':
                readers.append([[int(x)] for x in kc['v']])
            else:
                readers.append([list(x.encode()) for x in kc['v']])
        n = len(case['keys'][0]['v']) if case['keys'] else 0
        return [6, readers, list(range(n))]
    raise ValueError(op)


def from_val(case, v):
    m, s = v

    def dec(x):
        from harness import core
        e = core.decode_err(x)
        return e if e is not None else x
    m = dec(m)
    if s == []:
        return (m, m)
    return (m, s)


# ----------------------------------------------------------------------------- features / known
def _strings_of(case):
    out = []
    if case['op'] == 'fld' and case['col']['kind'] == 'idx':
        out += case['col']['data']
    if case['op'] in ('df', 'fh'):
        for cols in case['world']:
            for c in cols:
                if c['kind'] == 'idx':
                    out += c['data']
    return out


def features(case, model):
    f = []
    op = case['op']
    f.append('op:' + op)
    if isinstance(model, str):
        f.append('err:' + model.split(':')[0] + (':' + model.split(':')[1] if model.startswith('EXC') else ''))
    if op == 'df' and any(st.get('own') is not None for st in case['steps']):
        f.append('df:argument-is-own-column' + ('-inplace' if case['steps'][0]['dst'] is None else '-ddf'))
    if op == 'kf':
        n = max(len(case['idx']) - 1, 0)
        if len(case['flt']) != n: f.append('kf:filter-length-mismatch')
        if not any(case['flt']): f.append('kf:empty-result')
        if case['flt'] and all(case['flt']): f.append('kf:all-selected')
        if any(case['idx'][i] == case['idx'][i + 1] for i in range(n)): f.append('kf:empty-entry')
        if not case['idx']: f.append('kf:never-written-index')
        if n and case['flt'] and case['flt'][-1] and len(case['flt']) == n and case['idx'][-1] == case['idx'][-2]:
            f.append('kf:last-entry-empty-selected')
    elif op == 'ki':
        n = max(len(case['idx']) - 1, 0)
        if len(set(case['ix'])) < len(case['ix']): f.append('ki:repeats')
        if any(x < 0 for x in case['ix']): f.append('ki:negative-wraps')
        if any(x >= n or x < -n for x in case['ix']): f.append('ki:out-of-range')
        if not case['ix']: f.append('ki:empty-index')
        if sorted(case['ix']) == list(range(n)) and n > 1 and case['ix'] != list(range(n)): f.append('ki:permutation')
    elif op == 'fld':
        f.append('fld:' + case['col']['kind'] + '/' + case['store'])
        for i, st in enumerate(case['steps']):
            f.append('fld:mode%d' % st['mode'] + ('/' + case['tgt'] if st['mode'] == 1 and case['tgt'] else ''))
            if st.get('via') == 'session': f.append('fld:via-session')
            if st.get('asfield'): f.append('fld:arg-is-field')
            if st['what'] == 'filter' and st['dt'] != 'bool' and any(x not in (0, 1) for x in st['arg']): f.append('numeric-filter-value-not-0/1')
            if st['what'] == 'filter' and st['dt'].startswith('float'): f.append('float-filter')
            if i > 0: f.append('second-application')
            if st['mode'] == 2 and case['store'] == 'h5' and case['col']['kind'] == 'idx': f.append('in-place-hdf5-indexed-string')
        if case.get('ro'): f.append('fld:read-only-source')
        if case['col'].get('unwritten'): f.append('never-written-column')
    elif op == 'df':
        for i, st in enumerate(case['steps']):
            f.append('df:' + st['k'] + ('/ddf' if st['dst'] is not None else '/in-place'))
            if i > 0: f.append('second-application')
            if st['k'] == 'filter':
                if st['dt'] != 'bool' and any(x not in (0, 1) for x in st['arg']): f.append('numeric-filter-value-not-0/1')
                if st['dt'].startswith('float'): f.append('float-filter')
                if not any(st['arg']): f.append('df:filter-selects-nothing')
                if st.get('asfield'): f.append('df:filter-is-field')
            if st['k'] == 'index':
                if len(set(st['arg'])) < len(st['arg']): f.append('df:index-repeats')
                if not st['arg']: f.append('df:empty-index')
            if st['k'] in ('sort', 'sort_on'):
                f.append('df:%d-keys' % len(st['arg']))
                w = case['world'][st['src']] if i == 0 else None
                if w:
                    byname = {c['name']: c for c in w}
                    ks = [byname[k] for k in st['arg'] if k in byname]
                    if ks and len(ks) == len(st['arg']):
                        rows = list(zip(*[c['data'] for c in ks]))
                        if len(set(rows)) < len(rows): f.append('sort:ties-on-full-key')
                        if ks[0]['data'] and len(set(ks[0]['data'])) < len(ks[0]['data']): f.append('sort:ties-on-first-key')
                        if any(c['kind'] == 'idx' for c in ks): f.append('sort:indexed-string-key')
                        if any(c['kind'] == 'fix' for c in ks): f.append('sort:fixed-string-key')
                        if rows != sorted(rows): f.append('sort:input-unsorted')
        if any(len(cols) >= 7 for cols in case['world']): f.append('df:every-field-type')
        if any(c.get('unwritten') for cols in case['world'] for c in cols): f.append('never-written-column')
        if any(len(cols) == 0 for cols in case['world'][:1]): f.append('df:no-columns')
    elif op == 'fh':
        f += _fh_features(case)
    elif op == 'arr':
        f.append('arr:' + case['what'] + ('/field-arg' if case.get('asfield') else '') + ('/dest' if case['dest'] is not None else ''))
        if case['what'] == 'filter' and case['dt'] != 'bool': f.append('arr:numeric-filter')
    elif op == 'dsi':
        f.append('dsi:%d-keys' % len(case['keys']))
        if case['keys']:
            rows = list(zip(*[kc['v'] for kc in case['keys']]))
            if len(set(rows)) < len(rows): f.append('sort:ties-on-full-key')
            if any(kc['t'] == 'S' for kc in case['keys']): f.append('sort:string-key')
    ss = _strings_of(case)
    if '' in ss: f.append('empty-string-entry')
    if any(len(x.encode()) > len(x) for x in ss): f.append('multi-byte-entry')
    return f


def nontrivial(case, model):
    fs = [x for x in features(case, model) if not x.startswith('op:')]
    return len(fs) >= 1 and model != 'BADCASE'


def known(case, impl, model, spec, mode):
    return None


# ----------------------------------------------------------------------------- generators
def idx_of(lens):
    idx, vals = [0], []
    for k, ln in enumerate(lens):
        vals += [65 + (k * 3 + j) % 26 for j in range(ln)]
        idx.append(len(vals))
    return idx, vals


POOL_S = ['', 'a', 'é', 'bb', 'a', '', 'zé', 'b']
KEY = {'x': 1, 'yy': 2, 'z': 3}


def frame_all(n, variant=0):
    """7 columns mixing every field type; key columns with ties"""
    rot = lambda l: [l[(i + variant) % len(l)] for i in range(n)]
    return [
        {'name': 0, 'kind': 'idx', 'data': rot(POOL_S)},
        {'name': 1, 'kind': 'num', 'dtype': 'int32', 'data': rot([2, 1, 2, 1, 0, 2, 1, 0])},
        {'name': 2, 'kind': 'fix', 'strlen': 2, 'data': rot(['b', 'ab', 'b', '', 'a', 'ab', 'b', ''])},
        {'name': 3, 'kind': 'num', 'dtype': 'float32', 'data': rot([1.5, -0.5, 1.5, 0.0, 3.0, -0.5, 2.0, 1.5])},
        {'name': 4, 'kind': 'cat', 'dtype': 'int8', 'key': KEY, 'data': rot([1, 3, 2, 1, 3, 3, 2, 1])},
        {'name': 5, 'kind': 'ts', 'data': rot([10.0, 10.5, 3.0, 10.0, 7.5, 3.0, 8.0, 1.0])},
        {'name': 6, 'kind': 'num', 'dtype': 'bool', 'data': rot([1, 0, 0, 1, 1, 0, 1, 0])},
    ]


def frame_small(n, variant=0):
    rot = lambda l: [l[(i + variant) % len(l)] for i in range(n)]
    return [
        {'name': 0, 'kind': 'idx', 'data': rot(['é', '', 'bb', 'a', 'é', ''])},
        {'name': 1, 'kind': 'num', 'dtype': 'int64', 'data': rot([1, 0, 1, 0, 2, 1])},
    ]


def frame_unwritten():
    return [
        {'name': 0, 'kind': 'idx', 'data': [], 'unwritten': True},
        {'name': 1, 'kind': 'num', 'dtype': 'int32', 'data': [], 'unwritten': True},
        {'name': 2, 'kind': 'fix', 'strlen': 2, 'data': [], 'unwritten': True},
    ]


def one_cols(n):
    """one column per field class for the field-level tests"""
    fa = frame_all(n)
    return [fa[0], fa[2], fa[1], fa[3], fa[4], fa[5], fa[6]]


def all_filters(n):
    return [list(f) for f in itertools.product([0, 1], repeat=n)]


def filter_variants(flt, rich):
    """(dt, values) variants of one boolean selection"""
    out = [('bool', flt)]
    out.append(('int8', [x * (2 if i % 2 else -1) for i, x in enumerate(flt)]))     # non-zero = selected (2 / -1)
    if rich:
        out.append(('float32', [x * (1 if i % 2 else -1) for i, x in enumerate(flt)]))   # +-0.5
        out.append(('int64', [x * 2 for x in flt]))
        out.append(('uint8', [x * 255 for x in flt]))
    return out


def gen(tier, rng):
    global _TIER
    _TIER = tier
    big = tier == 'thorough'
    # ---- G1 kernel filter
    nmax = 5 if big else 4
    for n in range(0, nmax + 1):
        for lens in itertools.product([0, 1, 2], repeat=n):
            idx, vals = idx_of(lens)
            for flt in all_filters(n):
                yield {'op': 'kf', 'flt': flt, 'idx': idx, 'vals': vals}
            if n <= 3:
                for flt in all_filters(n + 1):            # too long: OOB iff the extra entry is selected
                    yield {'op': 'kf', 'flt': flt, 'idx': idx, 'vals': vals}
                if n >= 1:
                    for flt in all_filters(n - 1):        # too short: silently a prefix
                        yield {'op': 'kf', 'flt': flt, 'idx': idx, 'vals': vals}
    yield {'op': 'kf', 'flt': [], 'idx': [], 'vals': []}
    yield {'op': 'kf', 'flt': [1], 'idx': [], 'vals': []}
    # ---- G2 kernel index
    for n in range(0, 4):
        lens_list = list(itertools.product([0, 1, 2], repeat=n))
        if n == 3 and not big:
            lens_list = [l for l in lens_list if l[0] <= l[1] or l[2] == 0]
        for lens in lens_list:
            idx, vals = idx_of(lens)
            for k in range(0, 4 if n <= 2 or big else 3):
                for ix in itertools.product(range(-n - 1, n + 1), repeat=k):
                    yield {'op': 'ki', 'ix': list(ix), 'idx': idx, 'vals': vals}
    for dt in ('int32', 'uint32'):
        idx, vals = idx_of((1, 0, 2))
        for ix in itertools.product(range(0, 3), repeat=3):
            yield {'op': 'ki', 'ix': list(ix), 'idx': idx, 'vals': vals, 'ixdt': dt}
    yield {'op': 'ki', 'ix': [], 'idx': [], 'vals': []}
    yield {'op': 'ki', 'ix': [0], 'idx': [], 'vals': []}
    # ---- G6 dataset_sort_index
    for k, vals_, nm in ((1, [0, 1, 2], 4), (2, [0, 1, 2], 4 if big else 3), (2, [0, 1], 4), (3, [0, 1], 3)):
        for n in range(0, nm + 1):
            for flat in itertools.product(vals_, repeat=n * k):
                keys = [{'t': 'int', 'v': list(flat[j * n:(j + 1) * n])} for j in range(k)]
                yield {'op': 'dsi', 'keys': keys}
    sp = ['', 'a', 'ab', 'b']
    for n in range(0, 4):
        for a in itertools.product(sp, repeat=n):
            for b in itertools.product([0, 1], repeat=n):
                yield {'op': 'dsi', 'keys': [{'t': 'S', 'v': list(a)}, {'t': 'int', 'v': list(b)}]}
                yield {'op': 'dsi', 'keys': [{'t': 'int', 'v': list(b)}, {'t': 'S', 'v': list(a)}]}
    yield {'op': 'dsi', 'keys': []}
    yield {'op': 'dsi', 'keys': [{'t': 'int', 'v': [1, 0, 2]}, {'t': 'int', 'v': [1, 0]}]}
    yield {'op': 'dsi', 'keys': [{'t': 'int', 'v': [1, 0]}, {'t': 'int', 'v': [1, 0, 2]}]}
    # ---- G5 session with an ndarray source
    for n in range(0, 4):
        src = [10 * (i + 1) for i in range(n)]
        for flt in all_filters(n):
            for dt, fv in filter_variants(flt, True):
                for asfield in (False, True):
                    for dest in (None, [], [7]):
                        yield {'op': 'arr', 'what': 'filter', 'src': src, 'dt': dt, 'arg': fv, 'asfield': asfield, 'dest': dest}
        for k in range(0, 3):
            for ix in itertools.product(range(-1, n + 1), repeat=k):
                for asfield in (False, True):
                    for dest in (None, [7]):
                        yield {'op': 'arr', 'what': 'index', 'src': src, 'dt': 'int64', 'arg': list(ix), 'asfield': asfield, 'dest': dest}
    yield {'op': 'arr', 'what': 'filter', 'src': [1, 2], 'dt': 'uint64', 'arg': [1, 0], 'asfield': False, 'dest': None}
    # ---- G3 field level
    for n in range(0, 4):
        for col in one_cols(n):
            for store in ('h5', 'mem'):
                modes = [(0, None), (1, 'like_h5'), (1, 'like_mem'), (2, None)]
                for mode, tgt in modes:
                    firsts = []
                    for flt in all_filters(n):
                        for dt, fv in filter_variants(flt, False):
                            firsts.append({'what': 'filter', 'dt': dt, 'arg': fv, 'mode': mode})
                    for k in range(0, 3):
                        for ix in itertools.product(range(0, n), repeat=k):
                            firsts.append({'what': 'index', 'dt': 'int64', 'arg': list(ix), 'mode': mode})
                    if not big and len(firsts) > 12:
                        firsts = firsts[:4] + rng.sample(firsts[4:], 8)
                    for st in firsts:
                        yield {'op': 'fld', 'col': col, 'store': store, 'tgt': tgt, 'steps': [st]}
                        # second application on whatever the first left behind
                        m = sum(1 for x in st['arg'] if x) if st['what'] == 'filter' else len(st['arg'])
                        n2 = m if mode == 2 else n
                        st2 = {'what': 'index', 'dt': 'int64', 'arg': list(reversed(range(n2))), 'mode': mode}
                        st3 = {'what': 'filter', 'dt': 'bool', 'arg': [i % 2 for i in range(n2)], 'mode': mode}
                        yield {'op': 'fld', 'col': col, 'store': store, 'tgt': tgt, 'steps': [st, st2]}
                        yield {'op': 'fld', 'col': col, 'store': store, 'tgt': tgt, 'steps': [st, st3]}
    for col in one_cols(2):
        for what, arg, dt in (('filter', [1, 0], 'bool'), ('filter', [0, 2], 'int32'), ('index', [1, 1, 0], 'int64')):
            for via in ('session',):
                for mode, tgt in ((0, None), (1, 'like_h5'), (1, 'like_mem')):
                    for asfield in (False, True):
                        yield {'op': 'fld', 'col': col, 'store': 'h5', 'tgt': tgt,
                               'steps': [{'what': what, 'dt': dt, 'arg': arg, 'mode': mode, 'via': via, 'asfield': asfield}]}
        # read-only source, in_place+target conflict, not-permitted filter dtype, wrong lengths
        yield {'op': 'fld', 'col': col, 'store': 'h5', 'tgt': None, 'ro': True, 'steps': [{'what': 'filter', 'dt': 'bool', 'arg': [1, 0], 'mode': 2}]}
        yield {'op': 'fld', 'col': col, 'store': 'h5', 'tgt': None, 'ro': True, 'steps': [{'what': 'index', 'dt': 'int64', 'arg': [1, 0], 'mode': 0}]}
        yield {'op': 'fld', 'col': col, 'store': 'h5', 'tgt': None, 'steps': [{'what': 'filter', 'dt': 'uint64', 'arg': [1, 0], 'mode': 0}]}
        for arg in ([1], [1, 0, 0], [1, 0, 1]):
            yield {'op': 'fld', 'col': col, 'store': 'h5', 'tgt': None, 'steps': [{'what': 'filter', 'dt': 'bool', 'arg': arg, 'mode': 0}]}
        for arg in ([2], [0, -1], [-3]):
            yield {'op': 'fld', 'col': col, 'store': 'mem', 'tgt': None, 'steps': [{'what': 'index', 'dt': 'int64', 'arg': arg, 'mode': 0}]}
    for col in frame_unwritten():
        for store in ('h5', 'mem'):
            for mode, tgt in ((0, None), (1, 'like_h5'), (2, None)):
                yield {'op': 'fld', 'col': col, 'store': store, 'tgt': tgt, 'steps': [{'what': 'filter', 'dt': 'bool', 'arg': [], 'mode': mode}]}
                yield {'op': 'fld', 'col': col, 'store': store, 'tgt': tgt, 'steps': [{'what': 'index', 'dt': 'int64', 'arg': [], 'mode': mode}]}
    # ---- G4 dataframe level
    E = []
    nrow = 5 if big else 4
    for n in range(0, nrow + 1):
        fa = frame_all(n)
        for flt in all_filters(n):
            for dt, fv in filter_variants(flt, n <= 3):
                for dst in (None, 1):
                    yield {'op': 'df', 'world': [fa, E], 'steps': [{'k': 'filter', 'src': 0, 'dt': dt, 'arg': fv, 'dst': dst}]}
        if n >= 1:
            yield {'op': 'df', 'world': [fa, E], 'steps': [{'k': 'filter', 'src': 0, 'dt': 'int32', 'arg': [1] * n, 'dst': 1, 'asfield': True}]}
    for n in range(0, 4):
        for variant in (0, 1):
            fs = frame_small(n, variant)
            for k in range(0, 4 if big else 3 + (n <= 2)):
                for ix in itertools.product(range(0, n), repeat=k):
                    for dst in (None, 1):
                        yield {'op': 'df', 'world': [fs, E], 'steps': [{'k': 'index', 'src': 0, 'arg': list(ix), 'dst': dst}]}
    for n in (3, 4):
        fa = frame_all(n)
        for ix in ([], list(reversed(range(n))), [0] * n, [n - 1, 0], list(range(n)) + [0]):
            for dt in ('int64', 'int32', 'uint32'):
                for dst in (None, 1):
                    yield {'op': 'df', 'world': [fa, E], 'steps': [{'k': 'index', 'src': 0, 'arg': ix, 'dst': dst, 'dt': dt}]}
    # sort: every key list of length <= 2 over the 7 columns
    for n in range(0, nrow + 1):
        for variant in ((0, 3) if n >= 2 else (0,)):
            fa = frame_all(n, variant)
            names = [c['name'] for c in fa]
            keylists = [[a] for a in names] + [[a, b] for a in names for b in names if a != b]
            if big:
                keylists += [[1, 4, 6], [6, 4, 1], [2, 2]]
            for by in keylists:
                for dst in (None, 1):
                    if len(by) == 2 and dst is None and not big and (by[0] + by[1] + n) % 2:
                        continue
                    yield {'op': 'df', 'world': [fa, E], 'steps': [{'k': 'sort', 'src': 0, 'arg': by, 'dst': dst, 'bystr': len(by) == 1 and n % 2 == 0}]}
            for by in ([1], [4, 1], [0], [2, 6]):
                for dst in (None, 1):
                    yield {'op': 'df', 'world': [fa, E], 'steps': [{'k': 'sort_on', 'src': 0, 'arg': by, 'dst': dst}]}
    # exhaustive two-key frames with ties: both key columns over {0,1}, a payload string column
    for n in range(0, 5 if big else 4):
        for flat in itertools.product([0, 1], repeat=2 * n):
            cols = [{'name': 0, 'kind': 'idx', 'data': [POOL_S[i] + str(i) for i in range(n)]},
                    {'name': 1, 'kind': 'num', 'dtype': 'int32', 'data': list(flat[:n])},
                    {'name': 2, 'kind': 'cat', 'dtype': 'int8', 'key': KEY, 'data': [x + 1 for x in flat[n:]]}]
            for by in ([1], [1, 2], [2, 1]):
                yield {'op': 'df', 'world': [cols, E], 'steps': [{'k': 'sort', 'src': 0, 'arg': by, 'dst': (1 if (sum(flat) + len(by)) % 2 else None)}]}
    # own-column arguments: the filter / index array is a column of the frame being changed, at the first, a middle
    # and the last position (in the in-place form the argument is itself rewritten while the columns are processed)
    for n in range(1, 5 if big else 4):
        strs = [POOL_S[i % len(POOL_S)] + str(i) for i in range(n)]
        for pos in (0, 1, 2):
            for flt in itertools.product([0, 1], repeat=n):
                for fdt in ('bool', 'int8'):
                    cols = [{'name': 0, 'kind': 'idx', 'data': strs},
                            {'name': 1, 'kind': 'num', 'dtype': 'int32', 'data': list(range(10, 10 + n))}]
                    cols.insert(pos, {'name': 9, 'kind': 'num', 'dtype': fdt, 'data': list(flt)})
                    for dst in (None, 1):
                        yield {'op': 'df', 'world': [cols, E], 'steps': [{'k': 'filter', 'src': 0, 'dt': fdt, 'arg': list(flt), 'dst': dst, 'own': 9}]}
            for ix in itertools.product(range(n), repeat=n):
                cols = [{'name': 0, 'kind': 'idx', 'data': strs},
                        {'name': 1, 'kind': 'num', 'dtype': 'int32', 'data': list(range(10, 10 + n))}]
                cols.insert(pos, {'name': 9, 'kind': 'num', 'dtype': 'int64', 'data': list(ix)})
                for dst in (None, 1):
                    yield {'op': 'df', 'world': [cols, E], 'steps': [{'k': 'index', 'src': 0, 'arg': list(ix), 'dst': dst, 'dt': 'int64', 'own': 9}]}
    # invalid key lists
    fa = frame_all(2)
    for by in ([], [9], [1, 9]):
        yield {'op': 'df', 'world': [fa, E], 'steps': [{'k': 'sort', 'src': 0, 'arg': by, 'dst': None}]}
        yield {'op': 'df', 'world': [fa, E], 'steps': [{'k': 'sort_on', 'src': 0, 'arg': by, 'dst': 1}]}
    # never-written columns, no columns
    for fr in (frame_unwritten(), []):
        for dst in (None, 1):
            yield {'op': 'df', 'world': [fr, E], 'steps': [{'k': 'filter', 'src': 0, 'dt': 'bool', 'arg': [], 'dst': dst}]}
            yield {'op': 'df', 'world': [fr, E], 'steps': [{'k': 'index', 'src': 0, 'arg': [], 'dst': dst}]}
            if fr:
                yield {'op': 'df', 'world': [fr, E], 'steps': [{'k': 'sort', 'src': 0, 'arg': [1], 'dst': dst}]}
                yield {'op': 'df', 'world': [fr, E], 'steps': [{'k': 'sort', 'src': 0, 'arg': [0, 1], 'dst': dst}]}
                yield {'op': 'df', 'world': [fr, E], 'steps': [{'k': 'sort_on', 'src': 0, 'arg': [1], 'dst': dst}]}
    # malformed: wrong filter length, index out of range, ragged frame
    fs = frame_small(2)
    for arg in ([1], [1, 0, 1], [0, 0, 0]):
        for dst in (None, 1):
            yield {'op': 'df', 'world': [fs, E], 'steps': [{'k': 'filter', 'src': 0, 'dt': 'bool', 'arg': arg, 'dst': dst}]}
            yield {'op': 'df', 'world': [list(reversed(fs)), E], 'steps': [{'k': 'filter', 'src': 0, 'dt': 'bool', 'arg': arg, 'dst': dst}]}
    for arg in ([2], [0, -1], [-3], [5, 0]):
        for dst in (None, 1):
            yield {'op': 'df', 'world': [fs, E], 'steps': [{'k': 'index', 'src': 0, 'arg': arg, 'dst': dst}]}
            yield {'op': 'df', 'world': [list(reversed(fs)), E], 'steps': [{'k': 'index', 'src': 0, 'arg': arg, 'dst': dst}]}
    ragged = [dict(fs[0]), dict(fs[1], data=[1, 0, 1])]
    for dst in (None, 1):
        yield {'op': 'df', 'world': [ragged, E], 'steps': [{'k': 'index', 'src': 0, 'arg': [1, 0], 'dst': dst}]}
        yield {'op': 'df', 'world': [ragged, E], 'steps': [{'k': 'sort', 'src': 0, 'arg': [1], 'dst': dst}]}
        yield {'op': 'df', 'world': [ragged, E], 'steps': [{'k': 'sort', 'src': 0, 'arg': [0, 1], 'dst': dst}]}
        yield {'op': 'df', 'world': [ragged, E], 'steps': [{'k': 'sort', 'src': 0, 'arg': [1, 0], 'dst': dst}]}
    yield {'op': 'df', 'world': [fs, E], 'steps': [{'k': 'filter', 'src': 0, 'dt': 'uint64', 'arg': [1, 0], 'dst': None}]}
    yield {'op': 'df', 'world': [fs, E], 'steps': [{'k': 'filter', 'src': 0, 'dt': 'bool', 'arg': [1, 0], 'dst': 0}]}
    # two-step histories over a menu (3 rows in df0; df1, df2 empty)
    n = 3
    fa = frame_all(n)

    def menu(src, nn, dsts):
        m = []
        for dst in dsts:
            m.append({'k': 'filter', 'src': src, 'dt': 'bool', 'arg': [i % 2 for i in range(nn)], 'dst': dst})
            m.append({'k': 'filter', 'src': src, 'dt': 'int8', 'arg': [2 if i != 1 else 0 for i in range(nn)], 'dst': dst})
            m.append({'k': 'index', 'src': src, 'arg': list(reversed(range(nn))) + ([0] if nn else []), 'dst': dst})
            m.append({'k': 'sort', 'src': src, 'arg': [1], 'dst': dst})
            m.append({'k': 'sort', 'src': src, 'arg': [4, 0], 'dst': dst})
            m.append({'k': 'sort_on', 'src': src, 'arg': [2], 'dst': dst})
        m.append({'k': 'filter', 'src': src, 'dt': 'bool', 'arg': [0] * nn, 'dst': None})
        return m

    def rows_after(st, nn):
        if st['k'] == 'filter':
            return sum(1 for x in st['arg'] if x)
        if st['k'] == 'index':
            return len(st['arg'])
        return nn
    for s1 in menu(0, n, (None, 1)):
        n_src = rows_after(s1, n) if s1['dst'] is None else n
        seconds = menu(0, n_src, (None, 1, 2))
        if s1['dst'] is not None:
            seconds += menu(1, rows_after(s1, n), (None, 2))
        if not big:
            seconds = [s for i, s in enumerate(seconds) if (i + len(s1['arg'])) % 2 == 0 or s['dst'] == s1['dst']]
        for s2 in seconds:
            yield {'op': 'df', 'world': [fa, E, E], 'steps': [s1, s2]}
    # ---- G7 histories that cross entry-point levels on one dataframe object
    for c in gen_fh(tier, rng):
        yield c
    # ---- structured random: longer frames
    for _ in range(600 if big else 120):
        n = rng.randint(5, 12)
        v = rng.randint(0, 7)
        fa = frame_all(8, v)
        fa = [dict(c, data=[rng.choice(c['data']) for _ in range(n)]) for c in fa]
        if rng.random() < 0.5:
            fa[0]['data'] = [rng.choice(['', 'a', 'é', 'ü€', 'bbbb', 'a' * rng.randint(0, 9)]) for _ in range(n)]
        k = rng.choice(['filter', 'index', 'sort', 'sort_on'])
        dst = rng.choice([None, 1])
        if k == 'filter':
            dt = rng.choice(['bool', 'int8', 'int32', 'float64', 'uint16'])
            arg = [rng.choice([0, 0, 1]) * (1 if dt == 'bool' else rng.choice([1, 2, 3] if dt.startswith('u') else [1, -1, 2, 3])) for _ in range(n)]
            st = {'k': k, 'src': 0, 'dt': dt, 'arg': arg, 'dst': dst}
        elif k == 'index':
            arg = [rng.randrange(n) for _ in range(rng.randint(0, 2 * n))]
            if rng.random() < 0.3:
                arg = list(range(n)); rng.shuffle(arg)
            st = {'k': k, 'src': 0, 'arg': arg, 'dst': dst, 'dt': rng.choice(['int64', 'int32', 'uint32'])}
        else:
            by = rng.sample(range(7), rng.randint(1, 3))
            st = {'k': k, 'src': 0, 'arg': by, 'dst': dst}
        steps = [st]
        if rng.random() < 0.5:
            nn = rows_after(st, n) if dst is None else n
            steps.append(rng.choice(menu(0, nn, (None, 2))))
        yield {'op': 'df', 'world': [fa, E, E], 'steps': steps}


def shrink(case):
    op = case['op']
    if op == 'fh':
        evs = case['evs']
        for i in range(len(evs)):
            yield dict(case, evs=evs[:i] + evs[i + 1:])
        return
    if op == 'df':
        if len(case['steps']) > 1:
            yield dict(case, steps=case['steps'][:1])
        w0 = case['world'][0]
        if len(w0) > 1:
            for i in range(len(w0)):
                used = set()
                for st in case['steps']:
                    if st['k'] in ('sort', 'sort_on'):
                        used |= set(st['arg'])
                    if st.get('own') is not None:
                        used.add(st['own'])
                if w0[i]['name'] in used:
                    continue
                yield dict(case, world=[w0[:i] + w0[i + 1:]] + case['world'][1:])
    if op == 'fld' and len(case['steps']) > 1:
        yield dict(case, steps=case['steps'][:1])


def _norm(x):
    # validate_filter raises a bare `Exception`: the model's code for it is E_Other
    return 'EXC:Other' if x == 'EXC:Exception' else x


def equal(case, impl, expected, mode):
    from harness import core
    return core.results_equal(_norm(impl), _norm(expected), mode)


# ----------------------------------------------------------------------------- histories across entry-point levels
_TIER = 'quick'


def skip(case, mode):
    """quick tier: the HDF5-heavy cross-level histories run compiled only (the kernels they reach are covered
    interpreted / bounds-checked by the kf / ki / fld / df cases); thorough: every mode"""
    return case['op'] == 'fh' and mode != 'jit' and _TIER != 'thorough'


def fh_frame(n, variant=0):
    """payload string column, two key columns with ties (int32, fixed string), a row-id column, a second int key"""
    rot = lambda l: [l[(i + variant) % len(l)] for i in range(n)]
    return [
        {'name': 0, 'kind': 'idx', 'data': [rot(POOL_S)[i] + str(i) for i in range(n)]},
        {'name': 1, 'kind': 'num', 'dtype': 'int32', 'data': rot([2, 1, 2, 0, 1, 2, 0, 1, 1])},
        {'name': 2, 'kind': 'fix', 'strlen': 2, 'data': rot(['b', 'ab', 'b', 'ab', '', 'b', 'a', 'ab'])},
        {'name': 3, 'kind': 'num', 'dtype': 'int64', 'data': list(range(100, 100 + n))},
    ]


def _fh_key(col, x):
    k = col['kind']
    if k == 'idx':
        return x.encode()
    if k == 'fix':
        return x.encode().ljust(col['strlen'], b'\0')
    return x


class FhSim:
    """python-side replay of frame 0 of a history (only to build valid events and to name features; never a verdict)"""

    def __init__(self, cols):
        self.cols = [dict(c, data=list(c['data'])) for c in cols]
        self.ragged = False

    @property
    def n(self):
        return len(self.cols[0]['data']) if self.cols else 0

    def col(self, name):
        return [c for c in self.cols if c['name'] == name][0]

    def order(self, by):
        ks = [self.col(k) for k in by]
        return sorted(range(self.n), key=lambda i: tuple(_fh_key(c, c['data'][i]) for c in ks))

    def is_sorted(self, by):
        return self.order(by) == list(range(self.n))

    def gather(self, ps, names=None):
        for c in self.cols:
            if names is None or c['name'] in names:
                c['data'] = [c['data'][p] for p in ps]
        lens = {len(c['data']) for c in self.cols}
        self.ragged = len(lens) > 1

    def apply(self, ev):
        """updates the state; events on other frames than 0 and destination forms leave frame 0 alone"""
        e = ev['e']
        if e == 'call':
            st = ev['st']
            if st['src'] != 0 or st['dst'] is not None:
                return
            if st['k'] == 'filter':
                self.gather([i for i, x in enumerate(st['arg']) if x])
            elif st['k'] == 'index':
                self.gather(list(st['arg']))
            else:
                self.gather(self.order(st['arg']))
            return
        if ev['src'] != 0:
            return
        if e == 'write':
            self.col(ev['name'])['data'] = list(ev['col']['data'])
            self.ragged = len({len(c['data']) for c in self.cols}) > 1
        elif e in ('findex', 'sindex'):
            self.gather(list(ev['idx']), {ev['name']})
        elif e == 'ffilter':
            self.gather([i for i, x in enumerate(ev['flt']) if x], {ev['name']})


def _rotl(n):
    return list(range(1, n)) + [0] if n else []


# the event alphabet: name -> function(sim, alloc) -> list of events (a "letter" may expand to one event per column).
# `alloc()` hands out the index of a fresh empty destination frame.
def _call(k, arg, dst=None, **kw):
    return {'e': 'call', 'st': dict({'k': k, 'src': 0, 'arg': arg, 'dst': dst}, **kw)}


def _fh_letters():
    L = {}
    names = lambda sim: [c['name'] for c in sim.cols]
    # --- dataframe level
    L['sort1'] = lambda sim, alloc: [_call('sort', [1])]
    L['sort1>'] = lambda sim, alloc: [_call('sort', [1], alloc())]
    L['sort12'] = lambda sim, alloc: [_call('sort', [1, 2])]
    L['sort12>'] = lambda sim, alloc: [_call('sort', [1, 2], alloc())]
    L['sort2'] = lambda sim, alloc: [_call('sort', [2], bystr=True)]
    L['sort2>'] = lambda sim, alloc: [_call('sort', [2], alloc())]
    L['filter'] = lambda sim, alloc: [_call('filter', [0 if i == 1 else 1 for i in range(sim.n)], dt='bool')]
    L['filter>'] = lambda sim, alloc: [_call('filter', [0 if i == 1 else 2 for i in range(sim.n)], alloc(), dt='int8')]
    L['index'] = lambda sim, alloc: [_call('index', list(reversed(range(sim.n))))]
    L['index>'] = lambda sim, alloc: [_call('index', list(reversed(range(sim.n))), alloc())]
    # --- session level
    L['s.sort_on2'] = lambda sim, alloc: [_call('sort_on', [2])]
    L['s.sort_on1'] = lambda sim, alloc: [_call('sort_on', [1])]
    L['s.sort_on1>'] = lambda sim, alloc: [_call('sort_on', [1], alloc())]
    L['s.index-all'] = lambda sim, alloc: [{'e': 'sindex', 'src': 0, 'name': k, 'idx': _rotl(sim.n)} for k in names(sim)]
    # --- field level / direct writes
    L['f.index-all'] = lambda sim, alloc: [{'e': 'findex', 'src': 0, 'name': k, 'idx': list(reversed(range(sim.n)))}
                                           for k in names(sim)]
    L['f.index-key'] = lambda sim, alloc: [{'e': 'findex', 'src': 0, 'name': 1, 'idx': _rotl(sim.n)}]
    L['f.filter-all'] = lambda sim, alloc: [{'e': 'ffilter', 'src': 0, 'name': k, 'dt': 'bool',
                                             'flt': [1 if i != 0 or sim.n == 1 else 0 for i in range(sim.n)]} for k in names(sim)]
    L['w.key-clear'] = lambda sim, alloc: [{'e': 'write', 'src': 0, 'name': 1, 'how': 'clear',
                                            'col': dict(sim.col(1), data=[(v + 1 + i) % 3 for i, v in enumerate(sim.col(1)['data'])])}]
    L['w.key-slice'] = lambda sim, alloc: [{'e': 'write', 'src': 0, 'name': 1, 'how': 'slice',
                                            'col': dict(sim.col(1), data=list(reversed(sim.col(1)['data'])))}]
    L['w.rows-clear'] = lambda sim, alloc: [{'e': 'write', 'src': 0, 'name': c['name'], 'how': 'clear',
                                             'col': dict(c, data=[c['data'][p] for p in _rotl(sim.n)])} for c in sim.cols]
    return L


FH_LETTERS = _fh_letters()
FH_DF_INPLACE = ['sort1', 'sort12', 'sort2', 'filter', 'index']
FH_DF_ALL = FH_DF_INPLACE + ['sort1>', 'sort12>', 'sort2>', 'filter>', 'index>']
FH_BELOW = ['s.sort_on2', 's.sort_on1', 's.index-all', 'f.index-all', 'f.index-key', 'f.filter-all',
            'w.key-clear', 'w.key-slice', 'w.rows-clear']
FH_CORE = ['sort1', 'sort1>', 'sort12', 'filter', 'index', 's.sort_on2', 'f.index-all', 'w.key-clear',
           'f.filter-all', 's.index-all']
FH_ALL = FH_DF_ALL + FH_BELOW + ['s.sort_on1>']


def fh_case(cols, word, twice_last=False):
    """the history spelt by `word` (letters of FH_LETTERS) on a frame with columns `cols`.
    twice_last: the last letter, when it has a destination form, is issued in BOTH forms (to a destination first)."""
    sim = FhSim(cols)
    world = [cols]

    def alloc():
        world.append([])
        return len(world) - 1
    evs = []
    for i, w in enumerate(word):
        if twice_last and i == len(word) - 1 and (w + '>') in FH_LETTERS:
            for ev in FH_LETTERS[w + '>'](sim, alloc):
                evs.append(ev)
                sim.apply(ev)
        for ev in FH_LETTERS[w](sim, alloc):
            evs.append(ev)
            sim.apply(ev)
    return {'op': 'fh', 'world': world, 'evs': evs, 'word': list(word)}


def fh_random(rng, n, length):
    """a random history of `length` letters with random arguments on an n-row frame"""
    cols = fh_frame(n, rng.randint(0, 7))
    for c in cols[1:3]:
        pool = sorted(set(c['data'])) or ([0] if c['kind'] == 'num' else [''])
        c['data'] = [rng.choice(pool) for _ in range(n)]
    sim = FhSim(cols)
    world = [cols]

    def alloc():
        world.append([])
        return len(world) - 1
    evs, word = [], []
    memo_keys = None
    for _ in range(length):
        m = sim.n
        r = rng.random()
        names = [c['name'] for c in sim.cols]
        if r < 0.40:
            by = rng.sample(names, rng.choice([1, 1, 2]))
            if memo_keys is not None and rng.random() < 0.6:
                by = memo_keys                              # sort by the keys of an earlier in-place sort again
            dst = alloc() if rng.random() < 0.35 else None
            new = [_call('sort', by, dst)]
            if dst is None:
                memo_keys = by
            word.append('sort')
        elif r < 0.50:
            flt = [rng.choice([0, 1, 1]) for _ in range(m)]
            new = [_call('filter', flt, alloc() if rng.random() < 0.3 else None, dt='bool')]
            word.append('filter')
        elif r < 0.58:
            perm = list(range(m)); rng.shuffle(perm)
            if rng.random() < 0.3 and m:
                perm = [rng.randrange(m) for _ in range(rng.randint(1, m + 1))]
            new = [_call('index', perm, alloc() if rng.random() < 0.3 else None)]
            word.append('index')
        elif r < 0.70:
            by = rng.sample(names, rng.choice([1, 2]))
            new = [_call('sort_on', by, alloc() if rng.random() < 0.2 else None)]
            word.append('s.sort_on')
        elif r < 0.82:
            perm = list(range(m)); rng.shuffle(perm)
            e = rng.choice(['findex', 'sindex'])
            which = names if rng.random() < 0.7 else [rng.choice(names)]
            new = [{'e': e, 'src': 0, 'name': k, 'idx': perm} for k in which]
            word.append(e)
        elif r < 0.88:
            flt = [rng.choice([0, 1, 1]) for _ in range(m)]
            new = [{'e': 'ffilter', 'src': 0, 'name': k, 'dt': rng.choice(['bool', 'int8']), 'flt': flt} for k in names]
            word.append('ffilter')
        else:
            c = sim.col(rng.choice([1, 2]))
            pool = sorted(set(fh_frame(8)[c['name']]['data']))
            new = [{'e': 'write', 'src': 0, 'name': c['name'], 'how': rng.choice(['slice', 'clear']),
                    'col': dict(c, data=[rng.choice(pool) for _ in range(m)])}]
            word.append('write')
        for ev in new:
            evs.append(ev)
            sim.apply(ev)
    return {'op': 'fh', 'world': world, 'evs': evs, 'word': word}


def gen_fh(tier, rng):
    from harness import hot
    big = tier == 'thorough'
    boost = 3 if hot.changed() else 1
    # (a) the class shape, over the whole alphabet: an in-place dataframe-level call, then the rows change BELOW the
    #     dataframe (session / field level / direct write), then a dataframe-level call again — the same one, in place
    #     AND into a destination, and every other one — on 2- and 3-row frames
    for n, variant in ((3, 0), (2, 1)) + (((3, 2), (4, 5)) if big else ()):
        cols = fh_frame(n, variant)
        for a in FH_DF_INPLACE:
            for b in FH_BELOW:
                yield fh_case(cols, [a, b, a], twice_last=True)
                for c in FH_DF_ALL:
                    if c != a and c != a + '>' and (big or n == 3):
                        yield fh_case(cols, [a, b, c])
    # (b) every history of <= 3 letters over the core alphabet (3 rows); thorough: over the whole alphabet, and <= 4 core
    cols = fh_frame(3, 0)
    for k in (1, 2, 3):
        for word in itertools.product(FH_CORE, repeat=k):
            yield fh_case(cols, list(word))
    for word in itertools.product(FH_ALL, repeat=2):
        if not all(w in FH_CORE for w in word):
            yield fh_case(cols, list(word))
    if big:
        words3 = [w for w in itertools.product(FH_ALL, repeat=3) if not all(x in FH_CORE for x in w)]
        for word in rng.sample(words3, 3000):
            yield fh_case(fh_frame(3, 1), list(word))
        words4 = list(itertools.product(FH_CORE, repeat=4))
        for word in rng.sample(words4, 1500):
            yield fh_case(fh_frame(2, 0), list(word))
    else:
        words3 = [w for w in itertools.product(FH_ALL, repeat=3) if not all(x in FH_CORE for x in w)]
        for word in rng.sample(words3, 250 * boost):
            yield fh_case(fh_frame(rng.choice([2, 3]), rng.randint(0, 7)), list(word))
    # (c) sampled longer histories with random arguments
    for _ in range((1000 if big else 120) * boost):
        yield fh_random(rng, rng.randint(2, 9), rng.randint(4, 9))
    # (d) change-directed: a small literal that is new in the tree under test becomes the row count
    for K in hot.hot_sizes():
        if K > 300:
            continue
        for n in sorted({max(K - 1, 1), K, K + 1, 2 * K}):
            yield fh_random(rng, n, 6)
            yield fh_case(fh_frame(n, 0), ['sort1', 's.sort_on2', 'sort1'], twice_last=True)
            yield fh_case(fh_frame(n, 0), ['sort12', 'f.index-all', 'sort12'], twice_last=True)


_BELOW_EV = ('write', 'findex', 'ffilter', 'sindex')


def _fh_features(case):
    f = []
    try:
        sim = FhSim(case['world'][0])
        evs = case['evs']
        f.append('fh:events=%s' % (len(evs) if len(evs) < 10 else '10+'))
        f.append('fh:rows=%s' % (sim.n if sim.n < 6 else '6+'))
        last_inplace = {}          # kind of in-place dataframe-level call -> (arg, index of the event)
        for i, ev in enumerate(evs):
            e = ev['e']
            if e == 'call':
                st = ev['st']
                form = 'ddf' if st['dst'] is not None else 'in-place'
                f.append('fh:ev=' + ('df.' if st['k'] != 'sort_on' else 's.') + st['k'] + '/' + form)
                if st['src'] == 0 and st['k'] in ('sort', 'filter', 'index'):
                    key = (st['k'], tuple(st['arg']) if st['k'] == 'sort' else None)
                    if key in last_inplace:
                        between = evs[last_inplace[key] + 1:i]
                        levels = set()
                        for b in between:
                            if b['e'] in _BELOW_EV:
                                levels.add('field' if b['e'] != 'sindex' else 'session')
                            elif b['st']['k'] == 'sort_on':
                                if b['st']['dst'] is None:
                                    levels.add('session')
                            elif b['st']['dst'] is None:
                                levels.add('dataframe')
                        lv = '+'.join(sorted(levels)) if levels else 'nothing'
                        f.append('fh:%s-again/%s/after:%s' % (st['k'] if st['k'] != 'sort' else 'sort-same-keys', form, lv))
                        if st['k'] == 'sort' and not sim.ragged and levels & {'field', 'session'}:
                            f.append('fh:sort-same-keys-again/%s/rows-%s-at-that-time'
                                     % (form, 'already-sorted' if sim.is_sorted(st['arg']) else 'NOT-sorted'))
                    if st['dst'] is None:
                        last_inplace[key] = i
                if st['k'] in ('sort', 'sort_on'):
                    f.append('fh:%d-keys' % len(st['arg']))
            else:
                f.append('fh:ev=' + {'write': 'field.data-write/' + ev.get('how', ''), 'findex': 'Field.apply_index/in-place',
                                     'ffilter': 'Field.apply_filter/in-place', 'sindex': 'Session.apply_index/dest=src'}[e])
            sim.apply(ev)
            if sim.ragged:
                f.append('fh:frame-ragged-at-some-time')
    except Exception:
        f.append('fh:unsimulated')
    return f
