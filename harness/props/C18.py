"""C18 — DataFrame.to_csv / to_pandas (exetera/core/dataframe.py) vs coq/Model/ToCsv.v + coq/Spec/ToCsvSpec.v.

A case is one of
  {'op':'csv', 'cols':[[name, kind, data]...], 'rf':..., 'cf':..., 'chunk': int|None, 'reimp': bool}
  {'op':'pandas', 'cols':..., 'rf': None|[0/1...], 'rft': 'list'|'array', 'cf':...}
  {'op':'parse', 's': [bytes]}                      (reference parser vs csv.reader)
kind: 'str' (data = list of str), an integer dtype name (data = ints), 'float32'/'float64'
(data = float.hex() strings), 'bool' (data = 0/1).
rf (csv): None | ['arr', flags] | ['field', name] (a bool column of the frame) | ['xfield', name, flags]
(a bool field of another dataframe) | ['mem', flags] (a memory-backed bool field, e.g. the result of `df['a'] > 1`).
cf: None | 'name' | [names].
Result of op csv: [file bytes, rows recovered by the CSV parser, re-imported columns or None].
Columns that are never selected may also be of kind 'fixed' (fixed-length strings), 'cat' (categorical 0/1) or 'ts'
(timestamps): the export must not depend on them in any way.
  {'op':'seq', 'cols':..., 'lists':[[names]...], 'arrs':[[flags]...], 'steps':[step...]}     (a history, SC18)
one dataframe, ONE destination path, the caller's objects reused: step = {'rf':..., 'cf': None|'name'|['ref', k]
(list object k of 'lists', the same Python list in every step that names it), 'chunk':...} with rf additionally
['aref', k] (ndarray object k of 'arrs'), or an edit of the dataframe between exports
{'edit': ['append', name, data] | ['delete', name] | ['create', name, kind, data] | ['clear', name]}.
Result of op seq: per export step [exception or None, bytes of the destination afterwards or None, rows or None].
"""
import itertools, os, io, struct

PROP, NUM = 'C18', 18
PROPS_FILES = ['Props/C18.v']
MODES = ['jit']              # to_csv/to_pandas are plain Python; the JIT only matters for the re-import kernels
MODES_THOROUGH = ['jit', 'nojit']
LEVEL = 'proof'
TIMEOUT_S = 30.0
VARIANT = 1 if os.environ.get('C18_VARIANT', 'fix') == 'orig' else 0
DEFAULT_CHUNK = 1 << 15
# histories: 1 = to_csv copies the caller's column_filter list before list.remove (after work/SC18/fix-F-C18j.diff),
# 0 = it does not (replays F-C18j against an unrepaired tree: C18_HIST=orig)
HIST_COPIES = 0 if os.environ.get('C18_HIST', 'fix') == 'orig' else 1

RULE = ('exhaustive small scope: (A) every row count n<=5 (thorough 7) x every boolean array filter of length 0..n+1 x '
        'every chunk_row_size 1..n+2 and the default; (B) a 3-column frame x every ordered column subset, str/list/'
        'duplicate/invalid column filters x None/array/own-field/foreign-field row filters x chunk 1..4; (C) every string '
        'of length <=3 (thorough 4) over {a , " LF CR blank e-acute} as a cell in first/last/only-column position, '
        'special characters in column names; (D) boundary values of every numeric dtype; (E) seeded random larger frames '
        'with n = k*chunk, k*chunk+-1; (F) the reference parser csv_parse against csv.reader on every byte string of '
        'length <=5 (thorough 6) over {a , " LF CR blank}; (G) to_pandas on small frames x all masks x column filters. '
        'Every csv case compares the bytes of the file, the rows csv.reader recovers and (flag reimp) the columns '
        'ExeTera re-imports under the matching schema. HDF5-backed: ~5-15 ms per case. '
        'Added by SC18: (H) NON-RECTANGULAR frames: 3 columns of every length in {0,2,3} (thorough 0..4) x 15 column '
        'filters (str, every ordered subset) x None/array/short array/own field/memory-backed field row filters x chunk '
        '1,2,default (thorough 1..4,default), the same frames through to_pandas, and never-selected columns of the other '
        'field types (fixed string, categorical, timestamp) of other lengths; (E2) random ragged frames exported through a '
        'column filter; (I) HISTORIES: every sequence of 2 calls over an alphabet of 11 calls (and of 3 over 8, thorough 11) '
        'on one dataframe object and one destination path with the caller\'s column_filter list objects and filter '
        'arrays reused, failing calls in between, edits of the dataframe (append / clear / create / delete) between '
        'exports, random histories of 3-6 steps; (K) more rows than the default chunk_row_size 1<<15 (default-argument '
        'path iterates), 255..1000 rows with chunk 255..257, cells of 255..70001 bytes with multi-byte text and quotes; '
        '(J) change-directed: every new small integer literal K of the tree under test planted as row count, chunk size, '
        'filter length, length of unselected columns, cell width, column count, history length (K-1, K, K+1, 2K, 2K+1); '
        'random budget x3 when a library source differs from the recorded tree.')
EXHAUSTIVE = {'quick': True, 'thorough': True}
TRUSTED = ['CPython str(float) / str(bool) literals are supplied to the model by the harness (repr of the stored value); '
           'integer literals are rendered in Gallina (render_int)',
           'csv.reader of CPython 3.12 is the "standard CSV parser"; the Gallina csv_parse is tied to it by part (F) '
           'and by every csv case',
           'the ExeTera importer (read_csv, String()/Numeric(strict)) is exercised as a black box for the re-import clause',
           'pandas.DataFrame construction from a dict of numpy arrays']
ASSUMPTIONS = ['columns of field types other than indexed string / numeric occur only as columns that are not selected',
               'files are UTF-8 with LF line ends (after fix-F-C18h to_csv no longer depends on the locale; an ASCII-locale '
               'interpreter is exercised; newline translation of Windows text mode is not exercised on this machine)',
               'column names are unique within a frame; to_pandas receives list/ndarray masks only']

_np = _session = _parsers = _fi = _pd = _csv = _sess = None
_counter = [0]


def setup():
    global _np, _session, _parsers, _fi, _pd, _csv, _sess
    import warnings
    warnings.simplefilter('ignore')
    import numpy as np, pandas as pd, csv
    from exetera.core import session
    from exetera.io import parsers, field_importers
    _np, _session, _parsers, _fi, _pd, _csv = np, session, parsers, field_importers, pd, csv
    _sess = session.Session()


def warmup():
    run({'op': 'csv', 'cols': [['a', 'int32', [1, 2]], ['s', 'str', ['x', ' y']], ['b', 'bool', [1, 0]],
                               ['f', 'float64', [(0.5).hex(), (1.5).hex()]]],
         'rf': None, 'cf': None, 'chunk': 1, 'reimp': True})


INT_KINDS = ('int8', 'int16', 'int32', 'int64', 'uint8', 'uint16', 'uint32', 'uint64')
FLOAT_KINDS = ('float32', 'float64')
OPAQUE_KINDS = ('fixed', 'cat', 'ts')      # never selected; see the module docstring


def _b(s):
    return list(s.encode('utf-8'))


def _float_of(kind, h):
    v = float.fromhex(h)
    if kind == 'float32' and v == v and abs(v) != float('inf'):
        v = struct.unpack('f', struct.pack('f', v))[0]
    return v


def _text(kind, x):
    """canonical text of a stored value = what str() of `.tolist()` element gives"""
    if kind == 'str':
        return _b(x)
    if kind in INT_KINDS:
        return _b(str(int(x)))
    if kind == 'bool':
        return _b('True' if x else 'False')
    return _b(repr(float(x)))


def _add_col(df, n, kind, data):
    np = _np
    if kind == 'fixed':
        df.create_fixed_string(n, 4).data.write(np.asarray([x.encode('ascii') for x in data], dtype='S4'))
    elif kind == 'cat':
        df.create_categorical(n, 'int8', {'n': 0, 'y': 1}).data.write(np.asarray(data, dtype='int8'))
    elif kind == 'ts':
        df.create_timestamp(n).data.write(np.asarray([float(x) for x in data], dtype='float64'))
    elif kind == 'str':
        df.create_indexed_string(n).data.write(list(data))
    elif kind in FLOAT_KINDS:
        df.create_numeric(n, kind).data.write(np.asarray([float.fromhex(h) for h in data], dtype=kind))
    else:
        df.create_numeric(n, kind).data.write(np.asarray(data, dtype=kind))


def _make_df(ds, name, cols):
    df = ds.create_dataframe(name)
    for (n, kind, data) in cols:
        _add_col(df, n, kind, data)
    return df


def _col_texts(kind, values):
    return [_text(kind, v) for v in values]


_SUB = ('import sys, json; sys.path.insert(0, %r); from harness.props import C18 as m; from harness.worker import run_one; '
        'm.setup(); c = json.load(sys.stdin); print("RESULT " + json.dumps(run_one(m, c)))')


def _run_in_locale(case):
    """case['env'] == 'C': run the case in a fresh interpreter whose locale encoding is ASCII
    (LC_ALL=C, UTF-8 mode and locale coercion off) — to_csv must not depend on it."""
    import subprocess, sys, json
    root = os.path.dirname(os.path.dirname(os.path.dirname(os.path.abspath(__file__))))
    env = dict(os.environ, LC_ALL='C', LANG='C', PYTHONUTF8='0', PYTHONCOERCECLOCALE='0', PYTHONIOENCODING='utf-8')
    c = {k: v for k, v in case.items() if k != 'env'}
    r = subprocess.run([sys.executable, '-c', _SUB % root], input=json.dumps(c), env=env, cwd=root,
                       capture_output=True, text=True, timeout=120)
    for line in r.stdout.split('\n'):
        if line.startswith('RESULT '):
            return json.loads(line[7:])
    raise RuntimeError('subprocess failed: ' + r.stderr[-300:])


def _rf_object(ds, df, rf, arrs):
    """the Python object passed as row_filter"""
    np = _np
    if rf[0] == 'arr':
        return np.array(rf[1], dtype=bool)
    if rf[0] == 'aref':
        return arrs[rf[1]]
    if rf[0] == 'field':
        return df[rf[1]]
    if rf[0] == 'mem':
        # a memory-backed boolean field, what `df['a'] > 1` evaluates to
        from exetera.core import fields as _fields
        f = _fields.NumericMemField(_sess, 'bool')
        f.data.write(np.array(rf[1], dtype=bool))
        return f
    _counter[0] += 1
    odf = ds.create_dataframe('other%d' % _counter[0])
    odf.create_numeric(rf[1], 'bool').data.write(np.array(rf[2], dtype=bool))
    return odf[rf[1]]


def _run_seq(case, ds, df):
    """a history: exports of one dataframe object to one path, the caller's list / array objects reused"""
    np = _np
    from harness.worker import exc_name
    lists = [list(l) for l in case.get('lists', [])]
    arrs = [np.array(a, dtype=bool) for a in case.get('arrs', [])]
    path = os.path.join(os.environ.get('TMPDIR', '/tmp'), 'c18_%d_%d_seq.csv' % (os.getpid(), _counter[0]))
    out = []
    cur = case['cols']
    try:
        for st in case['steps']:
            if 'edit' in st:
                e = st['edit']
                if e[0] == 'append':
                    kind = [c[1] for c in cur if c[0] == e[1]][0]
                    fld = df[e[1]]
                    if kind == 'str':
                        fld.data.write(list(e[2]))
                    elif kind in FLOAT_KINDS:
                        fld.data.write(np.asarray([float.fromhex(h) for h in e[2]], dtype=kind))
                    else:
                        fld.data.write(np.asarray(e[2], dtype=kind))
                elif e[0] == 'delete':
                    del df[e[1]]
                elif e[0] == 'create':
                    _add_col(df, e[1], e[2], e[3])
                elif e[0] == 'clear':
                    df[e[1]].data.clear()
                cur = _apply_edit(cur, e)
                continue
            kw = {}
            if st['rf'] is not None:
                kw['row_filter'] = _rf_object(ds, df, st['rf'], arrs)
            cf = st['cf']
            if cf is not None:
                kw['column_filter'] = lists[cf[1]] if isinstance(cf, list) else cf
            if st['chunk'] is not None:
                kw['chunk_row_size'] = st['chunk']
            exc = None
            try:
                df.to_csv(path, **kw)
            except Exception as e:  # noqa
                exc = 'EXC:' + exc_name(e)
            after = open(path, 'rb').read() if os.path.exists(path) else None
            rows = None
            if exc is None:
                rows = [[_b(c) for c in row] for row in _csv.reader(io.StringIO(after.decode('utf-8'), newline=''))]
            out.append([exc, None if after is None else list(after), rows])
        return out
    finally:
        if os.path.exists(path):
            os.unlink(path)


def _apply_edit(cols, e):
    cols = [list(c) for c in cols]
    if e[0] == 'append':
        for c in cols:
            if c[0] == e[1]:
                c[2] = list(c[2]) + list(e[2])
    elif e[0] == 'delete':
        cols = [c for c in cols if c[0] != e[1]]
    elif e[0] == 'create':
        cols.append([e[1], e[2], list(e[3])])
    elif e[0] == 'clear':
        for c in cols:
            if c[0] == e[1]:
                c[2] = []
    return cols


def _frames_of(case):
    """the frame before every step of a history"""
    cols = case['cols']
    out = []
    for st in case['steps']:
        out.append(cols)
        if 'edit' in st:
            cols = _apply_edit(cols, st['edit'])
    return out


def run(case):
    np = _np
    op = case['op']
    if case.get('env') == 'C':
        return _run_in_locale(case)
    if op == 'parse':
        text = bytes(case['s']).decode('latin-1')
        return [[_b(c) for c in row] for row in _csv.reader(io.StringIO(text, newline=''))]
    _counter[0] += 1
    dsname = 'd%d' % _counter[0]
    ds = _sess.open_dataset(io.BytesIO(), 'w', dsname)
    ds2 = None
    path = None
    try:
        df = _make_df(ds, 'df', case['cols'])
        kinds = {c[0]: c[1] for c in case['cols']}
        if op == 'pandas':
            kw = {}
            if case['rf'] is not None:
                kw['row_filter'] = [bool(x) for x in case['rf']] if case['rft'] == 'list' \
                    else np.array(case['rf'], dtype=bool)
            if case['cf'] is not None:
                kw['col_filter'] = case['cf']
            pdf = df.to_pandas(**kw)
            out = []
            for c in pdf.columns:
                k = kinds[c]
                vals = pdf[c].tolist()
                dt = str(pdf[c].dtype)
                if k != 'str' and len(vals) > 0:
                    assert dt == k, (dt, k)
                out.append([_b(c), _col_texts(k, vals)])
            return out
        if op == 'seq':
            return _run_seq(case, ds, df)
        kw = {}
        rf = case['rf']
        if rf is not None:
            kw['row_filter'] = _rf_object(ds, df, rf, None)
        if case['cf'] is not None:
            kw['column_filter'] = list(case['cf']) if isinstance(case['cf'], list) else case['cf']
        if case['chunk'] is not None:
            kw['chunk_row_size'] = case['chunk']
        path = os.path.join(os.environ.get('TMPDIR', '/tmp'), 'c18_%d_%d.csv' % (os.getpid(), _counter[0]))
        df.to_csv(path, **kw)
        raw = open(path, 'rb').read()
        rows = [[_b(c) for c in row] for row in _csv.reader(io.StringIO(raw.decode('utf-8'), newline=''))]
        reimp = None
        if case.get('reimp'):
            hdr = [bytes(c).decode('utf-8') for c in rows[0]] if rows else []
            if len(hdr) > 0 and len(set(hdr)) == len(hdr):
                schema = {}
                for n in hdr:
                    schema[n] = _fi.String() if kinds[n] == 'str' else _fi.Numeric(kinds[n], validation_mode='strict')
                ds2 = _sess.open_dataset(io.BytesIO(), 'w', dsname + 'r')
                df2 = ds2.create_dataframe('df')
                try:
                    _parsers.read_csv(path, df2, schema_dictionary=schema)
                    reimp = []
                    for n in hdr:
                        f = df2[n]
                        vals = f.data[:] if kinds[n] == 'str' else f.data[:].tolist()
                        reimp.append([_b(n), _col_texts(kinds[n], vals)])
                except Exception as e:  # noqa
                    from harness.worker import exc_name
                    reimp = 'EXC:' + exc_name(e)
        return [list(raw), rows, reimp]
    finally:
        try:
            _sess.close_dataset(dsname)
            if ds2 is not None:
                _sess.close_dataset(dsname + 'r')
        except Exception:
            pass
        if path is not None and os.path.exists(path):
            os.unlink(path)


# --------------------------------------------------------------------------- wire
def _int_cell(z):
    lo = z & 0xFFFFFFFF
    hi = (z - lo) >> 32
    return [hi, lo]


def _frame_val(cols):
    out = []
    for (n, kind, data) in cols:
        if kind == 'str':
            out.append([_b(n), 0, [_b(s) for s in data]])
        elif kind in INT_KINDS:
            out.append([_b(n), 3 if kind == 'int64' else 1, [_int_cell(int(z)) for z in data]])
        elif kind == 'bool':
            out.append([_b(n), 4, [_text('bool', x) for x in data]])
        elif kind in OPAQUE_KINDS:
            # never selected (checked in to_val): the cells are opaque to the export
            out.append([_b(n), 2, [_b('?%s' % x) for x in data]])
        else:
            out.append([_b(n), 2, [_text(kind, _float_of(kind, h)) for h in data]])
    return out


def _cf_val(cf):
    if cf is None:
        return []
    if isinstance(cf, str):
        return [[0, _b(cf)]]
    return [[1, [_b(n) for n in cf]]]


def _field_flags(case, name):
    for (n, kind, data) in case['cols']:
        if n == name:
            return [1 if x else 0 for x in data]
    raise KeyError(name)


def _rf_val(cols, rf, arrs=None):
    if rf is None:
        return []
    if rf[0] == 'arr':
        return [[0, rf[1]]]
    if rf[0] == 'aref':
        return [[0, arrs[rf[1]]]]
    if rf[0] == 'field':
        return [[1, _b(rf[1]), _field_flags({'cols': cols}, rf[1]), 1]]
    if rf[0] == 'mem':
        return [[1, [], rf[1], 0]]        # a field that belongs to no dataframe (its name is None)
    return [[1, _b(rf[1]), rf[2], 0]]


def _check_opaque(cols, sel):
    for (n, kind, data) in cols:
        if kind in OPAQUE_KINDS and n in sel:
            raise ValueError('generator error: column %r of kind %r must never be selected' % (n, kind))


def to_val(case):
    op = case['op']
    if op == 'parse':
        return [3, case['s']]
    if op == 'seq':
        calls = []
        for st, cols in zip(case['steps'], _frames_of(case)):
            if 'edit' in st:
                continue
            cf = st['cf']
            names = [c[0] for c in cols]
            _check_opaque(cols, names if cf is None else ([cf] if isinstance(cf, str) else case['lists'][cf[1]]))
            cfv = [] if cf is None else ([[0, _b(cf)]] if isinstance(cf, str) else [[2, cf[1]]])
            calls.append([_frame_val(cols), _rf_val(cols, st['rf'], case.get('arrs')), cfv,
                          DEFAULT_CHUNK if st['chunk'] is None else st['chunk']])
        return [4, HIST_COPIES, [[_b(n) for n in l] for l in case.get('lists', [])], calls]
    _check_opaque(case['cols'], _sel_names(case))
    fr = _frame_val(case['cols'])
    if op == 'pandas':
        return [2, VARIANT, fr, [] if case['rf'] is None else [case['rf']], _cf_val(case['cf'])]
    rfv = _rf_val(case['cols'], case['rf'])
    return [1, VARIANT, fr, rfv, _cf_val(case['cf']), DEFAULT_CHUNK if case['chunk'] is None else case['chunk'],
            1 if case.get('env') == 'C' else 0]


_EXC = {1: 'ValueError', 2: 'TypeError', 3: 'IndexError', 4: 'KeyError', 5: 'OverflowError', 9: 'Other'}


def _err(v):
    if isinstance(v, list) and len(v) == 3 and v[0] == -999 and not isinstance(v[1], list):
        kind, arg = v[1], v[2]
        return {1: 'OOB:%d' % arg, 2: 'EXC:' + _EXC.get(arg, 'Other'), 3: 'FUEL', 5: 'MODEL-STACK'}.get(kind, 'BADCASE')
    return None


def _reimp_expected(case, names):
    """re-import is attempted iff asked for and the header has >=1 distinct names"""
    return bool(case.get('reimp')) and len(names) > 0 and len(set(map(tuple, names))) == len(names)


def from_val(case, v):
    op = case['op']
    if op == 'parse':
        return v
    m, s = v
    if op == 'seq':
        model, spec = [], []
        for (ret, after), (sp,) in zip(m, s):
            e = _err(ret)
            after = after[0] if after else None
            model.append([e, after, None] if e else [None, after, ret[1]])
            e = _err(sp)
            spec.append([e, None] if e else [None, sp[0]])
        return (model, spec)
    em, es = _err(m), _err(s)
    if op == 'pandas':
        if s == [-998]:
            s = 'RAISES'        # outside the domain of to_pandas: any exception meets the specification
        return (em if em else m, es if es else s)
    if es:
        spec = es
    else:
        table, cols = s
        spec = [None, table, cols if _reimp_expected(case, table[0]) else None]
    if em:
        model = em
    else:
        fileb, rows, reimp = m
        er = _err(reimp)
        want = _reimp_expected(case, rows[0] if rows else [])
        model = [fileb, rows, (er if er else reimp) if want else None]
    return (model, spec)


def equal(case, impl, expected, mode):
    if case['op'] == 'seq' and isinstance(impl, list) and isinstance(expected, list):
        if len(impl) != len(expected):
            return False
        for i, e in zip(impl, expected):
            if len(e) == 2:        # specification: the exception, or the table a CSV parser must recover
                if [i[0], i[2]] != e:
                    return False
            elif i != e:           # model: also the bytes of the destination after the call
                return False
        return True
    if isinstance(expected, str) or isinstance(impl, str):
        if isinstance(expected, str) and expected.startswith('OOB'):
            return impl == 'EXC:IndexError'
        if expected == 'RAISES':
            return isinstance(impl, str) and impl.startswith('EXC:')
        if expected == 'FUEL':
            return impl == 'HANG'
        return impl == expected
    if case['op'] == 'csv':
        return all(e is None or e == i for i, e in zip(impl, expected)) and len(impl) == len(expected)
    return impl == expected


# --------------------------------------------------------------------------- features
def _sel_names(case):
    names = [c[0] for c in case['cols']]
    cf = case['cf']
    sel = names if cf is None else ([cf] if isinstance(cf, str) else list(cf))
    if case['op'] == 'csv' and case['rf'] is not None and case['rf'][0] == 'field' and case['rf'][1] in sel:
        sel = list(sel)
        sel.remove(case['rf'][1])
    return sel


def features(case, model):
    f = []
    op = case['op']
    if isinstance(model, str):
        f.append('err:' + model)
    if op == 'parse':
        s = bytes(case['s'])
        if b'"' in s: f.append('parse:quote')
        if b'\r\n' in s: f.append('parse:crlf')
        if b'\n\n' in s or s.startswith(b'\n'): f.append('parse:blank-line')
        if s and s[-1:] not in (b'\n', b'\r'): f.append('parse:no-final-newline')
        if b'""' in s: f.append('parse:double-quote')
        return f
    if op == 'seq':
        return f + _seq_features(case)
    cols = {c[0]: c for c in case['cols']}
    sel = [n for n in _sel_names(case) if n in cols]
    n = len(cols[sel[0]][2]) if sel else 0
    if len(case['cols']) == 0: f.append('empty-frame')
    if not sel: f.append('zero-columns')
    if n == 0: f.append('zero-rows')
    if len({len(c[2]) for c in case['cols']}) > 1:
        f.append('ragged-frame')
        lens = [len(cols[k][2]) for k in sel]
        rest = [len(c[2]) for c in case['cols'] if c[0] not in sel]
        if lens and len(set(lens)) == 1 and rest:
            # the selected columns agree with each other; a column that is NOT selected differs
            if min(rest) < n: f.append('ragged:unselected-column-shorter')
            if max(rest) > n: f.append('ragged:unselected-column-longer')
            if min(rest) == 0 and n > 0: f.append('ragged:unselected-column-empty')
        if len(set(lens)) > 1: f.append('ragged:selected-columns-differ')
    if any(c[1] in OPAQUE_KINDS for c in case['cols']): f.append('unselected-column-of-other-field-type')
    if n >= 256: f.append('rows>=256')
    if n > DEFAULT_CHUNK: f.append('rows>default-chunk')
    strs = [s for k in sel for s in (cols[k][2] if cols[k][1] == 'str' else [])]
    if any(',' in s for s in strs): f.append('cell:comma')
    if any('"' in s for s in strs): f.append('cell:quote')
    if any('\n' in s for s in strs): f.append('cell:LF')
    if any('\r' in s and '\n' not in s and ',' not in s and '"' not in s for s in strs): f.append('cell:lone-CR')
    if any(s[:1] == ' ' for s in strs): f.append('cell:leading-blank')
    if any(s == '' for s in strs): f.append('cell:empty')
    if any(any(ord(ch) > 127 for ch in s) for s in strs): f.append('cell:multibyte')
    if any(len(s.encode('utf-8')) >= 256 for s in strs): f.append('cell:bytes>=256')
    if any(len(s.encode('utf-8')) >= 65536 for s in strs): f.append('cell:bytes>=65536')
    if len(sel) == 1 and any(s == '' for s in strs): f.append('single-empty-cell-row')
    for k in sel:
        if cols[k][1] != 'str': f.append('dtype:' + cols[k][1])
    if len(set(sel)) < len(sel): f.append('duplicate-column')
    if any(any(ch in k for ch in ',"\n\r ') for k in sel): f.append('name:special')
    if op == 'pandas':
        f.append('pandas')
        if case['rf'] is not None:
            f.append('mask:' + ('len-eq' if len(case['rf']) == n else 'len-ne'))
        if isinstance(case['cf'], str): f.append('cf:str')
        elif case['cf'] is not None: f.append('cf:list')
        return f
    ch = DEFAULT_CHUNK if case['chunk'] is None else case['chunk']
    if ch >= 1 and sel:
        if n == 0: pass
        elif n < ch: f.append('n<chunk')
        elif n == ch: f.append('n==chunk')
        elif n % ch == 0: f.append('n=k*chunk,k>=2')
        else: f.append('n%chunk!=0,n>chunk')
        if n // ch + 1 >= 3: f.append('iterations>=3')
        if ch == 1: f.append('chunk==1')
    if case['chunk'] is None: f.append('chunk:default')
    rf = case['rf']
    if rf is not None:
        fl = rf[1] if rf[0] in ('arr', 'mem') else (_field_flags(case, rf[1]) if rf[0] == 'field' else rf[2])
        f.append('rf:' + rf[0])
        if len(fl) < n: f.append('filter-shorter')
        elif len(fl) > n: f.append('filter-longer')
        else: f.append('filter-len-eq')
        if fl and not any(fl): f.append('filter-all-false')
        if rf[0] not in ('arr', 'mem') and rf[1] in (([case['cf']] if isinstance(case['cf'], str) else case['cf'])
                                         if case['cf'] is not None else list(cols)):
            f.append('filter-field-removed-from-columns' if rf[0] == 'field' else 'foreign-filter-field-shares-a-column-name')
        if ch >= 1 and len(fl) > ch and any(fl[ch:]): f.append('filter-hit-beyond-first-chunk')
    if isinstance(case['cf'], str): f.append('cf:str')
    elif case['cf'] is not None:
        f.append('cf:list')
        if case['cf'] != sorted(case['cf'], key=list(cols).index if all(c in cols for c in case['cf']) else None):
            f.append('cf:reordered')
    if case.get('reimp'): f.append('reimport')
    if case.get('env') == 'C': f.append('locale:C-ascii')
    for h in case.get('hot', []): f.append('hot:%s' % h)
    return f


def _seq_features(case):
    f = ['history']
    exports = [(i, st) for i, st in enumerate(case['steps']) if 'edit' not in st]
    f.append('history:exports=%d' % len(exports))
    frames = _frames_of(case)
    used, removed = {}, set()
    prev_ok_len = None
    seen_edit = False
    for i, st in enumerate(case['steps']):
        if 'edit' in st:
            seen_edit = True
            f.append('history:edit-' + st['edit'][0])
            continue
        if seen_edit and prev_ok_len is not None: f.append('history:export-after-edit')
        cf, rf = st['cf'], st['rf']
        names = [c[0] for c in frames[i]]
        valid = (st['chunk'] is None or st['chunk'] >= 1) and (
            cf is None or (cf in names if isinstance(cf, str) else
                           (len(case['lists'][cf[1]]) > 0 and all(x in names for x in case['lists'][cf[1]]))))
        if isinstance(cf, list):
            k = cf[1]
            if k in used: f.append('history:column_filter-list-object-reused')
            if k in removed: f.append('history:list-reused-after-a-call-that-removed-its-filter-field')
            used[k] = True
            if valid and rf is not None and rf[0] == 'field' and rf[1] in case['lists'][k]:
                removed.add(k)
        if rf is not None and rf[0] == 'aref': f.append('history:filter-array-object-reused')
        if rf is not None and rf[0] == 'mem': f.append('rf:mem')
        if not valid:
            f.append('history:failing-call' + ('-with-file-present' if prev_ok_len is not None else ''))
        else:
            sel = names if cf is None else ([cf] if isinstance(cf, str) else list(case['lists'][cf[1]]))
            ln = min([len(c[2]) for c in frames[i] if c[0] in sel], default=0) * max(1, len(sel))
            if prev_ok_len is not None and ln < prev_ok_len: f.append('history:smaller-export-over-larger-file')
            prev_ok_len = ln
    return sorted(set(f))


def nontrivial(case, model):
    if model == 'BADCASE':
        return False
    if case['op'] == 'parse':
        return len(case['s']) > 0
    return True


def known(case, impl, model, spec, mode):
    return None


# --------------------------------------------------------------------------- generators
ALPHA = ['a', ',', '"', '\n', '\r', ' ', 'é']
PALPHA = [97, 44, 34, 10, 13, 32]

INT_BOUNDS = {
    'int8': [-128, -1, 0, 1, 127], 'int16': [-32768, -1, 0, 9, 32767], 'int32': [-2 ** 31, -10, 0, 100, 2 ** 31 - 1],
    'int64': [-2 ** 63, -1, 0, 10 ** 18, 2 ** 63 - 1], 'uint8': [0, 1, 9, 10, 255], 'uint16': [0, 1, 99, 100, 65535],
    'uint32': [0, 1, 2 ** 31, 2 ** 32 - 2, 2 ** 32 - 1], 'uint64': [0, 1, 2 ** 63, 2 ** 64 - 2, 2 ** 64 - 1],
}
F32 = [0.0, -0.0, 0.1, 1.5, -2.25, 1e20, 3.4028234663852886e38, 1.401298464324817e-45, float('inf'), float('-inf'), float('nan')]
F64 = [0.0, -0.0, 0.1, 1e-7, 1e16, 1e22, 123456789.125, 5e-324, 1.7976931348623157e308, float('inf'), float('nan')]


def _strings(maxlen):
    out = ['']
    for k in range(1, maxlen + 1):
        out.extend(''.join(t) for t in itertools.product(ALPHA, repeat=k))
    return out


def _csv(cols, rf=None, cf=None, chunk=None, reimp=False):
    return {'op': 'csv', 'cols': cols, 'rf': rf, 'cf': cf, 'chunk': chunk, 'reimp': reimp}


# --------------------------------------------------------------------------- SC18: regions added after seeded round 2
def _pat(m, k=0):
    """a fixed non-periodic 0/1 pattern of length m"""
    return [int(((i + k) * 7 + (i + k) // 3) % 5 not in (1, 3)) for i in range(m)]


def _rect(cols, sel):
    d = {c[0]: len(c[2]) for c in cols}
    return len({d[n] for n in sel if n in d}) <= 1


def _col3(la, ls, lf, k=0):
    return [['a', 'int32', [100 + i for i in range(la)]], ['s', 'str', ['r%d' % i if i != 1 else ' q,%d' % i for i in range(ls)]],
            ['f', 'bool', _pat(lf, k)]]


RAGGED_CFS = [None, 'a', 's', 'f', ['a'], ['s'], ['f'], ['a', 's'], ['s', 'a'], ['a', 'f'], ['f', 'a'], ['s', 'f'], ['f', 's'],
              ['a', 's', 'f'], ['f', 's', 'a']]


def _gen_ragged(big):
    """(H) the frame is NOT rectangular: every combination of column lengths x every column filter x every kind of row
    filter x chunk sizes.  The output may depend on the selected columns only (their common length when they agree,
    zip-truncation when they do not) - never on a column that is not selected."""
    L = (0, 1, 2, 3, 4) if big else (0, 2, 3)
    chunks = (1, 2, 3, 4, None) if big else (1, 2, None)
    for la in L:
        for ls in L:
            for lf in L:
                cols = _col3(la, ls, lf)
                mx = max(la, ls, lf)
                rfs = [None, ['arr', _pat(mx, 1)], ['arr', [1]], ['field', 'f'], ['mem', _pat(mx + 1, 2)]]
                for cf in RAGGED_CFS:
                    for rf in rfs:
                        sel = _sel_names({'op': 'csv', 'cols': cols, 'cf': cf, 'rf': rf})
                        for chunk in chunks:
                            yield _csv(cols, rf=rf, cf=cf, chunk=chunk, reimp=(chunk is None and _rect(cols, sel)))
                # to_pandas: the requested columns agree, another column does not
                for cf in RAGGED_CFS:
                    names = ['a', 's', 'f'] if cf is None else ([cf] if isinstance(cf, str) else cf)
                    n0 = {'a': la, 's': ls, 'f': lf}[names[0]]
                    for rf in (None, _pat(n0, 3), []):
                        yield {'op': 'pandas', 'cols': cols, 'rf': rf, 'rft': 'array', 'cf': cf}
    # columns of the other field types (fixed string, categorical, timestamp) that are not selected, of other lengths
    for lens in ((2, 4, 0), (4, 0, 2), (0, 2, 4), (3, 3, 3), (1, 1, 7)):
        cols = [['x', 'fixed', ['ab', 'c', 'defg', '', 'zz', 'y', 'k'][:lens[0]]], ['a', 'int16', [5, -6, 7]],
                ['c', 'cat', [0, 1, 1, 0, 1, 0, 0][:lens[1]]], ['s', 'str', ['u', 'v,', 'w']],
                ['t', 'ts', [0.0, 1.5e9, 86400.0, 1.0, 2.0, 3.0, 4.0][:lens[2]]], ['f', 'bool', [1, 0, 1]]]
        for cf in ('a', ['a', 's'], ['s', 'a'], ['s'], ['f', 'a']):
            for rf in (None, ['arr', [0, 1, 1]], ['field', 'f'], ['mem', [1, 1]]):
                for chunk in (1, 2, None):
                    yield _csv(cols, rf=rf, cf=cf, chunk=chunk, reimp=(chunk is None))
        for cf in ('a', ['a', 's'], ['s', 'a']):
            yield {'op': 'pandas', 'cols': cols, 'rf': [1, 0, 1], 'rft': 'array', 'cf': cf}


def _gen_random_ragged(count, rng):
    """(E2) random frames whose columns differ in length, exported through a column filter"""
    pool = ALPHA + ['b', '€', '""', ',,']
    for _ in range(count):
        chunk = rng.choice([1, 2, 3, 4, 5, 7, 8])
        n = max(0, rng.randint(0, 4) * chunk + rng.choice([-1, 0, 0, 1]))
        ncols = rng.randint(2, 5)
        cols = []
        agree = rng.random() < 0.6
        nsel = rng.randint(1, ncols - 1)
        for j in range(ncols):
            kind = rng.choice(['str', 'str', 'int32', 'uint64', 'bool', 'int64', 'float64'])
            m = n if (agree and j < nsel) else max(0, n + rng.choice([-3, -2, -1, -1, 0, 1, 2, 5, -n]))
            if kind == 'str':
                data = [''.join(rng.choice(pool) for _ in range(rng.choice([0, 1, 1, 2, 3]))) for _ in range(m)]
            elif kind == 'float64':
                data = [rng.choice([0.5, -1.25, 1e300, 2.0 ** -40]).hex() for _ in range(m)]
            elif kind == 'bool':
                data = [rng.randint(0, 1) for _ in range(m)]
            else:
                data = [rng.choice(INT_BOUNDS[kind]) for _ in range(m)]
            cols.append(['c%d' % j, kind, data])
        sel = ['c%d' % j for j in range(nsel)]
        rng.shuffle(sel)
        order = list(range(ncols))
        rng.shuffle(order)                       # the selected columns are anywhere in the frame
        cols = [cols[j] for j in order]
        bools = [c[0] for c in cols if c[1] == 'bool']
        r = rng.random()
        if r < 0.2:
            rf = None
        elif r < 0.45 and bools:
            rf = ['field', rng.choice(bools)]
        elif r < 0.55:
            rf = ['mem', [rng.randint(0, 1) for _ in range(max(0, n + rng.choice([-1, 0, 2])))]]
        else:
            rf = ['arr', [rng.randint(0, 1) for _ in range(max(0, n + rng.choice([-3, -1, 0, 0, 1, 4])))]]
        cf = sel[0] if (len(sel) == 1 and rng.random() < 0.5) else sel
        names = _sel_names({'op': 'csv', 'cols': cols, 'cf': cf, 'rf': rf})
        yield _csv(cols, rf=rf, cf=cf, chunk=rng.choice([chunk, chunk, None]), reimp=_rect(cols, names))


def _step(rf=None, cf=None, chunk=None):
    return {'rf': rf, 'cf': cf, 'chunk': chunk}


def _gen_hist(big, rng):
    """(I) histories: several exports of one dataframe object to one destination, the caller's column_filter list
    and filter array OBJECTS reused, edits of the dataframe between exports.  Every call must produce what a fresh
    call with the arguments as written produces on the frame as it then is."""
    lists = [['a', 'f'], ['s', 'f', 'a'], ['f'], ['a', 'zz']]
    arrs = [[1, 0, 1, 1], [0, 1]]
    alphabet = [
        _step(rf=['field', 'f'], cf=['ref', 0], chunk=2),      # removes 'f' from the columns
        _step(cf=['ref', 0], chunk=1),
        _step(rf=['field', 'f'], cf=['ref', 1], chunk=3),
        _step(cf=['ref', 1]),
        _step(rf=['aref', 0], chunk=2),
        _step(rf=['aref', 1], cf='s', chunk=1),                # a small export (over a larger file)
        _step(rf=['field', 'f'], cf=['ref', 2], chunk=1),      # nothing left to write but the header
        _step(cf=['ref', 3], chunk=2),                         # ValueError: the destination keeps its content
        _step(cf=['ref', 0], chunk=0),                         # ValueError
        _step(rf=['xfield', 'f', [0, 1, 1]], cf=['ref', 0], chunk=2),
        _step(rf=['mem', [1, 1, 0, 1]], cf=['ref', 1], chunk=2),
    ]
    frames = [_col3(3, 3, 3), _col3(4, 4, 2, 1)]
    for cols in frames:
        for a in alphabet:
            for b in alphabet:
                yield {'op': 'seq', 'cols': cols, 'lists': lists, 'arrs': arrs, 'steps': [a, b]}
    A3 = alphabet if big else alphabet[:8]
    for a in A3:
        for b in A3:
            for c in A3:
                if a is b and b is c:
                    continue
                yield {'op': 'seq', 'cols': frames[0], 'lists': lists, 'arrs': arrs, 'steps': [a, b, c]}
    # the dataframe is edited between exports
    edits = [
        {'edit': ['append', 'a', [7, 8]]}, {'edit': ['append', 's', ['n,ew', '']]}, {'edit': ['append', 'f', [1, 1]]},
        {'edit': ['delete', 's']}, {'edit': ['create', 'z', 'str', ['p', 'q', ' r', 's', 't']]},
        {'edit': ['create', 'y', 'uint8', [1]]}, {'edit': ['clear', 'a']}, {'edit': ['clear', 'f']},
    ]
    exports = [_step(chunk=2), _step(cf=['ref', 0], chunk=1), _step(rf=['field', 'f'], chunk=2),
               _step(rf=['aref', 0], cf='a', chunk=3), _step(rf=['field', 'f'], cf=['ref', 0])]
    for e in edits:
        for x in exports:
            for y in exports:
                if e['edit'] == ['clear', 'f'] and False:
                    continue
                yield {'op': 'seq', 'cols': frames[0], 'lists': lists, 'arrs': arrs, 'steps': [x, e, y]}
    for e1 in edits[:3]:
        for e2 in edits[:3]:
            yield {'op': 'seq', 'cols': frames[0], 'lists': lists, 'arrs': arrs,
                   'steps': [exports[0], e1, exports[1], e2, exports[0], exports[4], exports[1]]}
    # random longer histories
    for _ in range(600 if big else 60):
        cols = _col3(*[rng.choice([0, 1, 3, 5]) for _ in range(3)], k=rng.randint(0, 9))
        steps = []
        have_s = True
        for _k in range(rng.randint(3, 6)):
            if rng.random() < 0.25:
                e = rng.choice(edits[:3] + edits[6:])
                steps.append(e)
            else:
                steps.append(rng.choice(alphabet))
        yield {'op': 'seq', 'cols': cols, 'lists': lists, 'arrs': arrs, 'steps': steps}


def _gen_large(big):
    """(K) beyond the exhaustive scope: more rows than the default chunk_row_size (the default-argument path runs its
    loop more than once), >= 256 rows, cells of >= 256 / >= 65536 bytes (characters != bytes)"""
    D = DEFAULT_CHUNK
    for n in ((D - 1, D, D + 1, 2 * D, 2 * D + 3) if big else (D + 1, 2 * D + 3)):
        cols = [['a', 'int32', [(i * 7919) % 100003 - 50000 for i in range(n)]],
                ['s', 'str', ['' if i % 11 == 0 else ('x,%d' % i if i % 7 == 0 else 'v%d' % (i % 13)) for i in range(n)]],
                ['u', 'uint8', [1, 2, 3]]]
        if big or n == D + 1:
            yield _csv(cols, cf=['s', 'a'], chunk=None, reimp=True)
        yield _csv(cols, rf=['arr', _pat(n - 5)], cf=['a', 's'], chunk=None)
        if big or n > 2 * D:
            yield _csv(cols, rf=['arr', _pat(D + 2, 1)], cf='a', chunk=D)
        if big:
            yield _csv(cols, rf=['arr', _pat(n, 2)], cf=['a'], chunk=D - 1)
            yield _csv(cols, cf=['a', 's'], chunk=D + 1)
    for n in (255, 256, 257, 1000):
        cols = [['a', 'int16', [i - 300 for i in range(n)]], ['s', 'str', ['é%d' % i for i in range(n)]]]
        for chunk in (255, 256, 257, None):
            yield _csv(cols, rf=['arr', _pat(n - 1)], chunk=chunk, reimp=(chunk is None))
    for w in ((255, 256, 257, 65535, 65536, 65537, 70001) if big else (255, 256, 257, 65537)):
        cells = ['a' * w, 'é' * (w // 2) + 'z' * (w % 2), ('q"' * w)[:w], ',' + 'b' * (w - 1), 'x' * (w - 1) + '\n', '€' * (w // 3)]
        for chunk in ((1, 4, None) if (big or w < 1000) else (4, None)):
            yield _csv([['n', 'uint8', list(range(len(cells)))], ['s', 'str', cells]], chunk=chunk, reimp=(chunk is None and w < 1000))
            if big or w < 1000 or chunk == 4:
                yield _csv([['s', 'str', cells]], rf=['arr', [1, 0, 1, 1, 1, 1]], chunk=chunk)


def _gen_hot(rng):
    """(J) change-directed: every small integer literal that is NEW in the tree under test is planted as row count,
    chunk size, filter length, length of a column that is not selected, cell width and column count"""
    from harness import hot
    for K in hot.hot_sizes():
        tag = [K]
        ns = sorted({max(0, K - 1), K, K + 1, 2 * K, 2 * K + 1})
        chunks = sorted({max(1, K - 1), K, K + 1}) + [1 if K <= 300 else 2 * K, None]
        for n in ns:
            cols = [['a', 'int32', [(i * 31) % 1009 for i in range(n)]], ['s', 'str', ['v%d' % (i % 17) for i in range(n)]],
                    ['w', 'uint16', list(range(K))], ['v', 'uint16', list(range(K - 1))], ['x', 'str', ['k'] * (K + 1)]]
            rfs = [None, ['arr', _pat(K)], ['arr', _pat(max(0, K - 1), 1)]]
            cfs = [['a', 's'], None]
            if K <= 300:
                rfs += [['arr', _pat(n)], ['mem', _pat(K + 1, 2)]]
                cfs += [['s', 'w', 'a'], 'a']
            for chunk in chunks:
                for rf in rfs:
                    for cf in cfs:
                        c = _csv(cols, rf=rf, cf=cf, chunk=chunk)
                        c['hot'] = tag
                        yield c
        if K <= 4096:
            for w in (K - 1, K, K + 1):
                cells = ['a' * w, 'é' * w, ('"' * w), 'b' * (w - 1) + ',', '']
                c = _csv([['s', 'str', cells], ['n', 'int8', [1, 2, 3, 4, 5]]], chunk=2, reimp=True)
                c['hot'] = tag
                yield c
        if K <= 64:
            for nc in (K - 1, K, K + 1):
                cols = [['c%d' % j, 'int8' if j % 2 else 'str', [j % 100, 1] if j % 2 else ['p%d' % j, '']] for j in range(nc)]
                for cf in (None, ['c%d' % j for j in range(nc - 1, -1, -1)] or None):
                    c = _csv(cols, cf=cf, chunk=1)
                    c['hot'] = tag
                    yield c
            # histories of K-1, K, K+1 exports through the same list object
            for m in (K - 1, K, K + 1):
                if 1 <= m <= 40:
                    yield {'op': 'seq', 'cols': _col3(3, 3, 3), 'lists': [['a', 's']], 'arrs': [[1, 0, 1]],
                           'steps': [_step(rf=['aref', 0], cf=['ref', 0], chunk=2)] * m, 'hot': tag}


def gen(tier, rng):
    from harness import hot
    big = tier == 'thorough'
    boost = 3 if hot.changed() else 1
    # order: small cases first (the first failing case is the one that is shrunk and reported); the large cases sit
    # between the random and the history block so that the evidence samples (first / middle / last records) stay small
    for c in _gen_main(tier, rng):
        yield c
    for c in _gen_ragged(big):
        yield c
    for c in _gen_random_ragged((3000 if big else 300) * boost, rng):
        yield c
    for c in _gen_hot(rng):
        yield c
    for c in _gen_large(big):
        yield c
    for c in _gen_hist(big, rng):
        yield c


def _gen_main(tier, rng):
    big = tier == 'thorough'
    # (A) the chunk loop: all n, all array filters, all chunk sizes
    N = 7 if big else 5
    for n in range(0, N + 1):
        cols = [['a', 'int32', list(range(n))], ['s', 'str', ['r%d' % i for i in range(n)]]]
        filters = [None] + [['arr', list(fl)] for m in range(0, n + 2) for fl in itertools.product([0, 1], repeat=m)]
        for rf in filters:
            for chunk in list(range(1, n + 3)) + [None]:
                yield _csv(cols, rf=rf, chunk=chunk, reimp=(chunk is None))
    # (B) column selection and field-typed filters
    names = ['a', 's', 'f']
    cfs = [None, 'a', 's', 'f'] + [list(p) for k in (1, 2, 3) for p in itertools.permutations(names, k)] \
        + [['a', 'a'], ['f', 'f'], ['a', 's', 'a'], ['f', 'a', 'f']]
    bad_cfs = ['zz', [], ['a', 'zz'], ['zz']]
    for flags in ([1, 0, 1], [0, 0, 0], [1, 1, 1], [0, 1, 1]):
        cols = [['a', 'int16', [10, 20, 30]], ['s', 'str', ['x', ' y', 'z,']], ['f', 'bool', flags]]
        rfs = [None, ['field', 'f'], ['arr', [0, 1, 1]], ['arr', [1]], ['xfield', 'a', [1, 0]],
               ['xfield', 'zz', [0, 1, 1, 1]], ['xfield', 'f', [1, 1, 0]]]
        for cf in cfs:
            for rf in rfs:
                for chunk in (1, 2, 3, 4):
                    yield _csv(cols, rf=rf, cf=cf, chunk=chunk, reimp=(chunk == 2))
        for cf in bad_cfs:
            for rf in (None, ['field', 'f']):
                yield _csv(cols, rf=rf, cf=cf, chunk=2)
        for chunk in (0, -1):
            yield _csv(cols, rf=None, cf=None, chunk=chunk)
            yield _csv(cols, rf=None, cf='zz', chunk=chunk)
    # the filter field is the only column / empty frames / ragged frames
    yield _csv([['f', 'bool', [1, 0, 1]]], rf=['field', 'f'], chunk=2)
    yield _csv([['f', 'bool', [1, 0, 1]]], rf=['field', 'f'], cf=['f'], chunk=1)
    yield _csv([['f', 'bool', [1, 0, 1]]], rf=['field', 'f'], cf='f')
    yield _csv([], chunk=1)
    yield _csv([], rf=['arr', [1, 0]])
    yield _csv([['s', 'str', []]], chunk=1, reimp=True)
    yield _csv([['s', 'str', []], ['a', 'uint8', []]], rf=['arr', [1]], reimp=True)
    for chunk in (1, 2, 3, 4, 5):
        yield _csv([['a', 'int8', [1, 2, 3, 4]], ['b', 'int8', [1, 2]]], chunk=chunk)
        yield _csv([['b', 'int8', [1, 2]], ['a', 'int8', [1, 2, 3, 4]]], chunk=chunk)
        yield _csv([['b', 'int8', [1, 2]], ['a', 'int8', [1, 2, 3, 4]], ['c', 'str', ['u', 'v', 'w']]], chunk=chunk,
                   rf=['arr', [1, 0, 1, 1]])
    # (C) quoting: every short string in first / last / only-column position
    strs = _strings(4 if big else 3)
    R = 8
    blocks = [strs[i:i + R] for i in range(0, len(strs), R)]
    for bi, blk in enumerate(blocks):
        other = blocks[(bi * 7 + 3) % len(blocks)]
        other = (other * R)[:len(blk)]
        for chunk in (3, None):
            yield _csv([['s', 'str', blk]], chunk=chunk, reimp=(chunk is None))
            yield _csv([['s', 'str', blk], ['t', 'str', other]], chunk=chunk, reimp=(chunk is None))
            yield _csv([['n', 'uint8', list(range(len(blk)))], ['s', 'str', blk]], chunk=chunk, reimp=(chunk is None))
    for nm in ('x,y', 'q"', ' n', 'n\nl', 'c\rd', 'é'):
        yield _csv([[nm, 'str', ['v', '']], ['k', 'int8', [1, 2]]], chunk=1)
        yield _csv([[nm, 'str', ['v', '']]], chunk=2)
        yield _csv([['k', 'int8', [1, 2]], [nm, 'str', ['v', '']]], cf=[nm], chunk=2)
    # platform independence: the same export under an ASCII locale (fresh interpreter per case)
    for cols in ([['s', 'str', ['é€', 'n\nl', 'a']]], [['a', 'int8', [1, 2]], ['é', 'str', ['\U0001f600', '']]]):
        c = _csv(cols, chunk=2, reimp=True)
        c['env'] = 'C'
        yield c
    # (D) numeric dtypes
    allnum = []
    for kind, vals in INT_BOUNDS.items():
        col = [kind, kind, vals]
        allnum.append(col)
        for chunk in (1, 2, None):
            yield _csv([col], chunk=chunk, reimp=True)
    f32 = ['float32', 'float32', [float(x).hex() if x == x else 'nan' for x in F32]]
    f64 = ['float64', 'float64', [float(x).hex() if x == x else 'nan' for x in F64]]
    bl = ['bool', 'bool', [1, 0, 0, 1, 1]]
    for col in (f32, f64, bl):
        for chunk in (1, 4, None):
            yield _csv([col], chunk=chunk, reimp=True)
    for chunk in (1, 2, 5, None):
        yield _csv([c for c in allnum] + [bl, ['f64', 'float64', f64[2][:5]], ['f32', 'float32', f32[2][:5]],
                                           ['s', 'str', ['', ' ', '"', 'a\rb', '€']]],
                   chunk=chunk, reimp=True, rf=['arr', [1, 1, 0, 1, 1]])
    # (E) seeded random larger frames with planted chunk relations
    pool = ALPHA + ['b', 'c', '€', '\U0001f600', '  ', '""', ',,', '\r\n']
    for _ in range(3000 if big else 400):
        chunk = rng.choice([1, 2, 3, 4, 5, 7, 8, 16])
        k = rng.randint(0, 4)
        n = max(0, k * chunk + rng.choice([-1, 0, 0, 1]))
        ncols = rng.randint(1, 4)
        cols = []
        for j in range(ncols):
            kind = rng.choice(['str', 'str', 'int32', 'uint64', 'float64', 'bool', 'int64'])
            if kind == 'str':
                data = [''.join(rng.choice(pool) for _ in range(rng.choice([0, 1, 1, 2, 3, 6]))) for _ in range(n)]
            elif kind == 'float64':
                data = [rng.choice([0.5, -1.25, 1e300, 3.14159, 2.0 ** -40, 1e21]).hex() for _ in range(n)]
            elif kind == 'bool':
                data = [rng.randint(0, 1) for _ in range(n)]
            else:
                data = [rng.choice(INT_BOUNDS[kind]) for _ in range(n)]
            cols.append(['c%d' % j, kind, data])
        r = rng.random()
        bools = [c[0] for c in cols if c[1] == 'bool']
        if r < 0.25:
            rf = None
        elif r < 0.45 and bools:
            rf = ['field', rng.choice(bools)]
        else:
            m = max(0, n + rng.choice([-3, -1, 0, 0, 0, 1, 4]))
            rf = ['arr', [rng.randint(0, 1) for _ in range(m)]]
        r = rng.random()
        allnames = [c[0] for c in cols]
        if r < 0.5:
            cf = None
        elif r < 0.6:
            cf = rng.choice(allnames)
        else:
            cf = rng.sample(allnames, rng.randint(1, len(allnames)))
        yield _csv(cols, rf=rf, cf=cf, chunk=rng.choice([chunk, chunk, None]), reimp=True)
    # (G) to_pandas
    for flags in ([1, 0, 1], [0, 0, 0]):
        cols = [['a', 'int16', [10, 20, 30]], ['s', 'str', ['x', ' y', 'z,\r']], ['f', 'bool', flags],
                ['g', 'float32', [(0.1).hex(), (1.5).hex(), 'nan']]]
        masks = [None] + [list(fl) for m in (0, 2, 3, 4) for fl in itertools.product([0, 1], repeat=m)]
        for rf in masks:
            for rft in (['list'] if rf is None else ['list', 'array']):
                for cf in (None, 'a', 's', ['s', 'a'], ['a'], ['g', 'f', 's', 'a'], ['a', 'a'], ['a', 's', 'a'], [], ['zz'], 'zz',
                           ['a', 'zz']):
                    yield {'op': 'pandas', 'cols': cols, 'rf': rf, 'rft': rft, 'cf': cf}
    for cols in ([], [['s', 'str', []]], [['s', 'str', []], ['a', 'int64', []]],
                 [['a', 'int8', [1, 2, 3, 4]], ['b', 'int8', [1, 2]]], [['b', 'int8', [1, 2]], ['a', 'int8', [1, 2, 3, 4]]]):
        for rf in (None, [], [1], [1, 0], [1, 0, 1, 1]):
            for cf in (None, 'b', ['b'], ['a', 'b'], ['b', 'a']):
                yield {'op': 'pandas', 'cols': cols, 'rf': rf, 'rft': 'array', 'cf': cf}
    for kind, vals in INT_BOUNDS.items():
        yield {'op': 'pandas', 'cols': [[kind, kind, vals]], 'rf': [1, 0, 1, 1, 1], 'rft': 'list', 'cf': None}
    yield {'op': 'pandas', 'cols': [f32, f64], 'rf': None, 'rft': 'list', 'cf': None}
    for blk in blocks[:: (1 if big else 5)]:
        yield {'op': 'pandas', 'cols': [['s', 'str', blk]], 'rf': [int(i % 3 != 1) for i in range(len(blk))], 'rft': 'list',
               'cf': None}
    # (F) reference parser against csv.reader
    L = 6 if big else 5
    for k in range(0, L + 1):
        for t in itertools.product(PALPHA, repeat=k):
            yield {'op': 'parse', 's': list(t)}
    for _ in range(2000 if big else 300):
        yield {'op': 'parse', 's': [rng.choice(PALPHA + [98, 34, 44, 10]) for _ in range(rng.randint(7, 40))]}


def shrink(case):
    if case['op'] == 'parse':
        s = case['s']
        for i in range(len(s)):
            yield {'op': 'parse', 's': s[:i] + s[i + 1:]}
        return
    if case['op'] == 'seq':
        steps = case['steps']
        for i in range(len(steps) - 1, -1, -1):
            if 'edit' not in steps[i] or steps[i]['edit'][0] in ('append', 'clear'):
                yield dict(case, steps=steps[:i] + steps[i + 1:])
        for i, st in enumerate(steps):
            if 'edit' not in st and st['chunk'] not in (None, 1) and st['chunk'] >= 1:
                yield dict(case, steps=steps[:i] + [dict(st, chunk=None)] + steps[i + 1:])
        return
    cols = case['cols']
    n = max([len(c[2]) for c in cols], default=0)
    for i in range(n):
        c2 = [[c[0], c[1], c[2][:i] + c[2][i + 1:]] for c in cols]
        d = dict(case, cols=c2)
        if case['op'] == 'csv' and case['rf'] is not None and case['rf'][0] in ('arr', 'mem'):
            d['rf'] = [case['rf'][0], case['rf'][1][:i] + case['rf'][1][i + 1:]]
        if case['op'] == 'pandas' and case['rf'] is not None:
            d['rf'] = case['rf'][:i] + case['rf'][i + 1:]
        yield d
    used = set(_sel_names(case))
    if case['op'] == 'csv' and case['rf'] is not None and case['rf'][0] == 'field':
        used.add(case['rf'][1])
    for j, c in enumerate(cols):
        if c[0] not in used or case['cf'] is None:
            if case['op'] == 'csv' and case['rf'] is not None and case['rf'][0] == 'field' and case['rf'][1] == c[0]:
                continue
            yield dict(case, cols=cols[:j] + cols[j + 1:])
    for j, c in enumerate(cols):
        if c[1] == 'str':
            for i, s in enumerate(c[2]):
                if len(s) > 1:
                    for t in (s[1:], s[:-1]):
                        c2 = [list(x) for x in cols]
                        c2[j] = [c[0], c[1], c[2][:i] + [t] + c[2][i + 1:]]
                        yield dict(case, cols=c2)
    if case['op'] == 'csv' and case.get('reimp'):
        yield dict(case, reimp=False)


TECHNIQUE = ('Coq proof (statement-level model of the to_csv chunk loop, the csv line writer and to_pandas = list-level '
             'specification; reference CSV parser recovers what the writer wrote) + exhaustive small-scope differential '
             'correspondence against the real to_csv / csv.reader / importer / to_pandas; histories of calls on the same '
             'objects are modelled as a state machine over the caller\'s list objects and the destination file')
LEVEL_TEXT = ('Theorems in coq/Props/C18.v prove, for every frame, row filter, column filter and chunk_row_size >= 1, that the '
              'model of to_csv writes header :: selected rows, that the reference parser recovers every cell text from the '
              'written bytes, that the output does not depend on chunk_row_size and that the loop terminates within the '
              'stated fuel; for histories of exports (same dataframe object, same destination, the caller\'s list objects '
              'reused, the frame edited in between) that every call is independent of the calls before it; the model is '
              'tied to the real code by running both on the same generated cases.')
LEVEL_NOTE = ('Trusted: Coq kernel, extraction, harness; str(float) literals are supplied by CPython; the importer used for the '
              're-import clause is exercised, not modelled (its model belongs to C05/C06).')
