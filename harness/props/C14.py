"""C14 — isin / unique set semantics (operations.py unique_for_indexed_string, get_indexed_string_unique,
isin_for_indexed_string_field, isin_indexed_string_speedup, compare_arrays; fields.py apply_isin / apply_unique)
vs coq/Model/Unique.v and coq/Spec/UniqueSpec.v.

Case forms (all JSON-able):
  {'op':'unique','ft':FT,'level':LV,'col':[...],'flags':[ri,rv,rc]}
  {'op':'isin','ft':FT,'level':LV,'col':[...],'tests':[...]|None,'tkind':'list'|'set'|'array','via':'method'|'module'}
  FT = 'istr' (col = list of code-point lists) | 'fstr' (col = list of byte lists, 'strlen') |
       'int8' | 'int16' | 'int32' | 'int64' | 'uint8' | 'uint16' | 'uint32' | 'uint64' | 'bool' | 'float32' | 'float64' | 'cat' | 'ts'
       (col = ints; float/ts values are quarter units); 'tkind' may also be 'tuple'; 'tdtype' (with tkind 'array') forces
       the dtype of the test ndarray; 'keys' the values of a categorical field
  LV = 'ops' (istr only: the operations.py functions on (indices, values)) | 'mem' (…MemField) | 'h5' (HDF5 field)
  istr/ops cases may carry 'raw': {'indices':[…],'values':[…]} instead of 'col' (malformed stream) and
  'idx0': 1 (an empty column stored as indices=[0] instead of []).
  'ood': 1 marks inputs outside the property's domain (NUL code points, invalid UTF-8, test set None): model vs
  implementation only.
"""
import itertools, math, os
from harness import hot

PROP, NUM = 'C14', 14
PROPS_FILES = ['Props/C14.v']
MODES = ['jit', 'nojit']
MODES_THOROUGH = ['jit', 'nojit', 'bounds']
LEVEL = 'proof'
TIMEOUT_S = 60.0

ALPHA6 = ["", "a", "ab", "b", "é", "aé"]
# larger alphabet for the structured random phase: equal length / different bytes, prefixes, 2-, 3-, 4-byte
# characters whose code-point order must agree with the byte order (U+E000 < U+FFFD < U+10000), a space, digits
ALPHA_BIG = ALPHA6 + ["ba", "bb", "abc", "ab ", "\u00e8", "\u00ea", "e\u0301", "\u20ac", "\ue000", "\ufffd",
                      "\U00010000", "\U0010ffff", "a\U00010000", "\u07ff", "\u0800", "\x7f", "\x80", "z", "Z", "0"]

RULE = ('exhaustive small scope: unique on every indexed-string column of length <= 5 (quick) / 6 (thorough) over '
        '{"", "a", "ab", "b", "e-acute", "a+e-acute"} x all 8 return_* flag combinations at the operations level, '
        'every column of length <= 3 through real in-memory and HDF5 fields; isin on every column of length <= 2 over '
        '7 strings x all 128 subsets of the 6 strings + None as list, and through real fields as list/set/array; '
        'numeric (int32/int8/bool/float32), categorical, timestamp and fixed-string fields: all columns of length <= 4 '
        'over 4 values x 8 flag combinations, isin over all 64 test subsets incl. None; then seeded random longer '
        'columns (up to 60 rows, up to 26 distinct) over a 26-string alphabet (1- to 4-byte characters, prefixes, equal lengths) and a malformed stream '
        '(NUL code points, invalid UTF-8, inconsistent offsets, test set None). Regions beyond the small scope are covered '
        'systematically: (a) indexed and fixed strings of 255..1000 (thorough: ..4097) UTF-8 bytes on and around the '
        'multiples of 256, in 1-/2-/3-/4-byte-character encodings, with same-length neighbours differing in the last / '
        'first byte and lengths congruent mod 256, every distinct value and every absent same-length value looked up alone; '
        '(b) row counts, distinct counts, multiplicities and test-set sizes 255..300 (thorough: 127..1000); (c) isin on every '
        'non-indexed field type (incl. int64 at its extremes and around 2^53, float64, uint16) for every column of length '
        '<= 3 (mem) / <= 2 (HDF5) over 4 values x all 16 subsets of those values accompanied by 24 further members, as '
        'list / set / ndarray / tuple, so that numpy.isin takes its sort- and table-based algorithms instead of the '
        'per-element loop, plus collection sizes around the switch-over 10 * rows ** 0.145 for 1..100 rows; (d) every '
        'small integer literal that is new in the tree under test (harness/hot.py) is planted as byte length, row count, '
        'distinct count and test-set size (K-1, K, K+1, 2K-1, 2K, 2K+1, 3K), and the random budgets are tripled when any '
        'library source differs from the recorded tree; (e) implicit dtype coercions: for every integer dtype (int8 .. int64, '
        'uint8 .. uint64, categorical) pairs (row value v, test value t != v) that collide under binary64 / binary32 / '
        'binary16 rounding (beyond 2^53, 2^24, 2^11, at the int64 / uint64 extremes), under two\'s complement '
        'reinterpretation at the column\'s width (int64 <-> uint64) and under narrowing to 8 / 16 / 32 bits, each looked up '
        'alone, with a None entry, with a small value, inside 24 further members (narrow and wide), together with v, as '
        'list / set / tuple / ndarray (inferred dtype, every exact explicit integer dtype, object); all pairs at once; '
        'structured random mixtures; the 64-bit small scope (all columns <= 2 over 4 values x all 128 subsets of 7 test '
        'values incl. None); (f) string VALUES that collide under a cheap hash (a defect that buckets values by a hash is '
        'visible only on two different equal-length values with equal hash, and on a repeat of the first after the second): '
        'every indexed-string column of length <= 3 (thorough: 4) over the 16 two-byte strings of {A,B,a,b} (collisions of '
        'h*31+c, h*32+c, h*33+c, byte sum, byte xor) x flag combinations, isin for every (column <= 2, <= 1 test) and '
        '(1 row, 2 ordered tests) over them; for ~90 (thorough ~190) hash families - h*m+c, (h*m)^c, (h^c)*m, LSB-first, '
        'for 16 small multipliers, unbounded / & 0xFFFF / & 0xFF / % table size, byte sum / xor / sum of squares / adler32 / '
        'rotate-xor / sorted bytes / product, first / last k bytes, first+last+length, sampled positions, length only, and, by '
        'a birthday search over 2^19 strings, the 32-bit truncated products with FNV / sdbm / Knuth / LCG multipliers and '
        'crc32 - the first colliding pair and triple over an alphabet with bytes 1, 31, 32, 33 apart (also of 2-byte UTF-8 '
        'characters) are computed and planted: all columns <= 3 over the group + take-over patterns x 8 flags (ops), real '
        'memory / HDF5 fields, fixed strings, isin with every subset of the group + stranger + None; every new literal of '
        'the tree under test is used as multiplier, modulus, mask and prefix length. HDF5-backed cases cost ~5 ms each, '
        'hence the smaller bounds at that level. Non-trivial = reaches a planted feature.')
EXHAUSTIVE = {'quick': True, 'thorough': True}
TRUSTED = ['numpy sort/argsort of str arrays (code-point order, trailing NULs insignificant), np.unique, np.isin and '
           'CPython\'s UTF-8 codec are defined in Gallina (Model/Unique.v) and tied to the real ones by this '
           'correspondence only',
           'for non-indexed field types the model of the numpy dispatch IS the specification; the theorem for them is '
           'definitional and the evidence is the differential run; for integer columns the model is the repaired '
           'FieldDataOps._exact_integer_tests (None and out-of-dtype integers dropped) followed by np.isin on two arrays '
           'of one integer dtype = membership (theorem isin_int_exact)']
ASSUMPTIONS = ['strings contain no NUL code point at their end (numpy U/S dtypes drop trailing NULs: finding F-C14b)',
               'no NaN in float/timestamp columns',
               'test-set entries are None or values of the field\'s kind (integers of any magnitude for integer / bool / '
               'categorical fields, inside or outside the column dtype, also beyond uint64; quarter-unit floats; bytes; str); '
               'containers list, set, tuple, ndarray (of the dtype numpy infers when that holds the integers exactly, of an '
               'explicit integer dtype, or of dtype object); a float among the test values of an integer column is outside '
               'the domain (numpy compares in binary64 then)']
TECHNIQUE = ('Coq proof (faithful model of the indexed-string kernels and their Python drivers = sort/unique/membership '
             'specification over UTF-8 bytes) + exhaustive small-scope differential correspondence against /repo')
LEVEL_TEXT = ('Theorems in coq/Props/C14.v prove for all columns, flag combinations and test sets that the Gallina model '
              'of unique_for_indexed_string / get_indexed_string_unique / isin_for_indexed_string_field / '
              'isin_indexed_string_speedup / compare_arrays returns the specified sorted distinct values, '
              'first-occurrence indices, reconstructing inverse, counts and membership flags; the model is tied to '
              '/repo by running the extracted model and the real functions / fields on the same generated cases.')
LEVEL_NOTE = ('Trusted: Coq kernel, extraction, harness. numpy and the UTF-8 codec are modelled in Gallina, not verified. '
              'Non-indexed field types delegate to numpy: for them only the correspondence speaks.')

# integer field types: the range of the column's dtype ('cat' = categorical with int8 values)
INT_RANGE = {'int8': (-2 ** 7, 2 ** 7 - 1), 'int16': (-2 ** 15, 2 ** 15 - 1), 'int32': (-2 ** 31, 2 ** 31 - 1),
             'int64': (-2 ** 63, 2 ** 63 - 1), 'uint8': (0, 2 ** 8 - 1), 'uint16': (0, 2 ** 16 - 1),
             'uint32': (0, 2 ** 32 - 1), 'uint64': (0, 2 ** 64 - 1), 'cat': (-2 ** 7, 2 ** 7 - 1)}
INT_BITS = {'int8': 8, 'int16': 16, 'int32': 32, 'int64': 64, 'uint8': 8, 'uint16': 16, 'uint32': 32, 'uint64': 64,
            'cat': 8}

_np = _ops = _fields = _session = _df = None
_ctr = [0]


def setup():
    global _np, _ops, _fields, _session, _df
    import io, warnings
    warnings.filterwarnings('ignore')
    import numpy as np
    from exetera.core import operations as ops, fields, session as sess
    _np, _ops, _fields = np, ops, fields
    _session = sess.Session()
    ds = _session.open_dataset(io.BytesIO(), 'w', 'ds')
    _df = ds.create_dataframe('df')


def warmup():
    for flags in ([0, 0, 0], [1, 1, 1]):
        run({'op': 'unique', 'ft': 'istr', 'level': 'ops', 'col': [[97], [98], [97]], 'flags': flags})
    run({'op': 'isin', 'ft': 'istr', 'level': 'ops', 'col': [[97], [98]], 'tests': [[97]], 'tkind': 'list', 'via': 'method'})


# ------------------------------------------------------------------------------------------ helpers
def _s(cps):
    return ''.join(chr(c) for c in cps)


def _enc(cps):
    return list(_s(cps).encode('utf-8', 'surrogatepass'))


def storage(case):
    """(indices, values) of an istr case, as the field stores them."""
    if 'raw' in case:
        return list(case['raw']['indices']), list(case['raw']['values'])
    rows = [_enc(c) for c in case['col']]
    if not rows:
        return ([0] if case.get('idx0') else []), []
    ind = [0]
    for r in rows:
        ind.append(ind[-1] + len(r))
    return ind, [b for r in rows for b in r]


def _ticks(x):
    y = float(x) * 4
    if y != int(y):
        raise AssertionError('non-quarter value %r' % (x,))
    return int(y)


def _mk_field(case):
    """Create a real field holding the column."""
    np, fields = _np, _fields
    ft, level, col = case['ft'], case['level'], case['col']
    _ctr[0] += 1
    name = 'f%d' % _ctr[0]
    h5 = level == 'h5'
    if ft == 'istr':
        f = _df.create_indexed_string(name) if h5 else fields.IndexedStringMemField(_session)
        f.data.write([_s(c) for c in col])
    elif ft == 'fstr':
        n = case['strlen']
        f = _df.create_fixed_string(name, n) if h5 else fields.FixedStringMemField(_session, n)
        f.data.write(np.array([bytes(c) for c in col], dtype='S%d' % n))
    elif ft == 'cat':
        keys = {'k%d' % v: v for v in case['keys']}
        f = _df.create_categorical(name, 'int8', keys) if h5 else fields.CategoricalMemField(_session, 'int8', keys)
        f.data.write(np.array(col, dtype=np.int8))
    elif ft == 'ts':
        f = _df.create_timestamp(name) if h5 else fields.TimestampMemField(_session)
        f.data.write(np.array([c / 4 for c in col], dtype=np.float64))
    else:
        data = np.array([c / 4 for c in col], dtype=ft) if ft.startswith('float') else np.array(col, dtype=ft)
        f = _df.create_numeric(name, ft) if h5 else fields.NumericMemField(_session, ft)
        f.data.write(data)
    return f, (name if h5 else None)


def _canon_values(ft, arr):
    if ft == 'istr':
        return [list(str(x).encode('utf-8', 'surrogatepass')) for x in arr]
    if ft == 'fstr':
        return [list(bytes(x)) for x in arr]
    if ft == 'ts' or ft.startswith('float'):
        return [_ticks(x) for x in arr]
    return [int(x) for x in arr]


def _tests_obj(case):
    """The test_elements object handed to isin."""
    np = _np
    ft, tests, kind = case['ft'], case['tests'], case.get('tkind', 'list')
    if tests is None:
        return None

    def conv(t):
        if t is None:
            return None
        if ft == 'istr':
            return _s(t)
        if ft == 'fstr':
            return bytes(t)
        if ft == 'ts' or ft.startswith('float'):
            return t / 4
        if ft == 'bool':
            return bool(t) if t in (0, 1) else int(t)
        return int(t)
    l = [conv(t) for t in tests]
    if kind == 'set':
        return set(l)
    if kind == 'tuple':
        return tuple(l)
    if kind == 'array':
        if case.get('tdtype'):
            return np.array(l, dtype=case['tdtype'])
        if any(x is None for x in l) or not l:
            return np.array(l, dtype=object)
        a = np.array(l)
        if a.dtype.kind == 'f' and ft in INT_RANGE:
            # numpy types a mixture of values >= 2**63 and smaller ones float64: that array would not hold the
            # case's integers any more; hand over the integers themselves
            a = np.array(l, dtype=object)
        return a
    return l


def run(case):
    np, ops = _np, _ops
    op, ft, level = case['op'], case['ft'], case['level']
    name = None
    try:
        if level == 'ops':
            ind, vals = storage(case)
            indices = np.array(ind, dtype=np.int64)
            values = np.array(vals, dtype=np.uint8)
            if op == 'unique':
                ri, rv, rc = (bool(x) for x in case['flags'])
                r = ops.unique_for_indexed_string(indices, values, ri, rv, rc)
            else:
                r = ops.isin_for_indexed_string_field(_tests_obj(case), indices, values)
        else:
            f, name = _mk_field(case)
            if op == 'unique':
                ri, rv, rc = (bool(x) for x in case['flags'])
                r = f.unique(return_index=ri, return_inverse=rv, return_counts=rc)
            elif case.get('via') == 'module':
                r = _fields.isin(f, _tests_obj(case))
                if not isinstance(r, _fields.NumericMemField):
                    raise AssertionError('fields.isin did not return a NumericMemField')
                r = r.data[:]
            else:
                r = f.isin(_tests_obj(case))
        if op == 'isin':
            r = np.asarray(r)
            if r.dtype != np.bool_:
                raise AssertionError('isin result dtype %s' % r.dtype)
            return [1 if x else 0 for x in r]
        flags = case['flags']
        nret = 1 + sum(1 for x in flags if x)
        if nret == 1:
            if isinstance(r, tuple):
                raise AssertionError('tuple returned without flags')
            parts = [r]
        else:
            if not isinstance(r, tuple) or len(r) != nret:
                raise AssertionError('expected a %d-tuple' % nret)
            parts = list(r)
        out = [_canon_values(ft, parts[0]), None, None, None]
        k = 1
        for j in range(3):
            if flags[j]:
                out[j + 1] = [int(x) for x in parts[k]]
                k += 1
        return out
    finally:
        if name is not None:
            try:
                del _df[name]
            except Exception:
                pass


# ------------------------------------------------------------------------------------------ wire
def _opt(x):
    return [] if x is None else [x]


def to_val(case):
    op, ft = case['op'], case['ft']
    if op == 'unique':
        fl = [int(bool(x)) for x in case['flags']]
        if ft == 'istr':
            ind, vals = storage(case)
            return [1, 1, ind, vals] + fl
        if ft == 'fstr':
            return [2, 1, case['col']] + fl
        return [2, 0, case['col']] + fl
    tests = case['tests']
    if ft == 'istr':
        ind, vals = storage(case)
        return [3, ind, vals, ([] if tests is None else [[_opt(t) for t in tests]])]
    if ft in INT_RANGE:      # integer column: the repaired code filters the test values by the column's dtype
        lo, hi = INT_RANGE[ft]
        return [5, lo, hi, case['col'], [_opt(t) for t in tests]]
    return [4, 1 if ft == 'fstr' else 0, case['col'], [_opt(t) for t in tests]]


def _dec_ures(v):
    u, i, w, c = v
    return [u, (i[0] if i else None), (w[0] if w else None), (c[0] if c else None)]


def from_val(case, v):
    from harness.core import decode_err
    m, s = v
    e = decode_err(m)
    if case['op'] == 'unique':
        model = e if e is not None else _dec_ures(m)
        spec = _dec_ures(s)
    else:
        model = e if e is not None else m
        spec = s
    if case.get('ood'):
        return model
    return (model, spec)


# ------------------------------------------------------------------------------------------ features
def _first_occ_perm(rows):
    """permutation indices_sort: sorted position -> first-occurrence position of the distinct rows."""
    d = []
    for r in rows:
        if r not in d:
            d.append(r)
    order = sorted(range(len(d)), key=lambda k: d[k])
    return d, order


def features(case, model):
    f = ['%s:%s:%s' % (case['op'], case['ft'], case['level'])]
    if isinstance(model, str):
        f.append('err:' + model.split(':')[0])
    if case.get('ood'):
        f.append('out-of-domain')
    if 'raw' in case:
        f.append('raw-storage')
        return f
    col = case['col']
    ft = case['ft']
    rows = [tuple(_enc(c)) for c in col] if ft == 'istr' else [tuple(c) if isinstance(c, list) else c for c in col]
    if not rows:
        f.append('empty-column')
    if len(set(rows)) < len(rows):
        f.append('duplicates')
    if len(rows) >= 256: f.append('rows>=256')
    if len(set(rows)) >= 256: f.append('distinct>=256')
    if ft in ('istr', 'fstr'):
        mx = max([len(r) for r in rows] + [0])
        if mx >= 256: f.append('row-bytes>=256')
        if mx >= 512: f.append('row-bytes>=512')
        ds_ = set(rows)
        if any(len(a) >= 256 and len(a) == len(b) and a[:-1] == b[:-1] and a != b for a in ds_ for b in ds_):
            f.append('long-rows-differ-in-last-byte')
        if any(len(a) >= 256 and len(a) != len(b) and (len(a) - len(b)) % 256 == 0 for a in ds_ for b in ds_):
            f.append('row-lengths-congruent-mod-256')
    if ft == 'istr' and any(len(c) != len(r) and len(r) >= 256 for c, r in zip(col, rows)):
        f.append('long-row-chars!=bytes')
    if ft in ('int64', 'uint64') and any(abs(r) > 2 ** 53 for r in rows): f.append('beyond-2^53')
    if ft == 'istr':
        if any(len(r) == 0 for r in rows): f.append('empty-string')
        if any(any(b >= 128 for b in r) for r in rows): f.append('multi-byte')
        if any(any(b >= 240 for b in r) for r in rows): f.append('4-byte-char')
        ds = list(dict.fromkeys(rows))
        if any(a != b and len(a) == len(b) for a in ds for b in ds): f.append('equal-length-different-bytes')
        if any(a != b and b[:len(a)] == a for a in ds for b in ds): f.append('prefix-pair')
    if ft in ('istr', 'fstr') and len(set(rows)) <= 12 and max([len(r) for r in rows] + [0]) <= 16:
        # equal-length distinct values that collide under a cheap hash; the first of them repeated after the second
        bylen = {}
        for r in dict.fromkeys(rows):
            bylen.setdefault(len(r), []).append(r)
        cand = [v for L_, v in bylen.items() if L_ and len(v) >= 2]
        if cand:
            first = {}
            for i_, r in enumerate(rows):
                first.setdefault(r, i_)
                last_ = i_
            lastpos = {r: i_ for i_, r in enumerate(rows)}
            for hn, hfun in CORE_HASHES:
                hit = rep = False
                for v in cand:
                    hv = {}
                    for r in v:
                        hv.setdefault(hfun(r), []).append(r)
                    for grp in hv.values():
                        if len(grp) >= 2:
                            hit = True
                            if any(first[a] < first[b] < lastpos[a] for a in grp for b in grp if a != b):
                                rep = True
                if hit:
                    f.append('values-collide-under:' + hn)
                if rep:
                    f.append('collision-then-repeat-of-first:' + hn)
    if case.get('hfam'):
        f.append('hash-family:' + case['hfam'].split('+')[0].split(':')[0].rstrip('0123456789'))
    if case['op'] == 'unique':
        f.append('flags:%d%d%d' % tuple(int(bool(x)) for x in case['flags']))
        d, order = _first_occ_perm(rows)
        if len(d) > 16: f.append('>16-distinct')
        if rows and max(rows.count(x) for x in d) >= 256: f.append('multiplicity>=256')
        if order != list(range(len(d))): f.append('sort-permutes')
        if any(order[order[k]] != k for k in range(len(d))): f.append('sort-perm-not-involution')
        if ft == 'istr':
            # states of the scan: a row whose length was seen before but whose bytes are new / old
            seen_len, seen = set(), []
            for r in rows:
                if len(r) not in seen_len:
                    seen_len.add(len(r)); seen.append(r); continue
                if r in seen:
                    f.append('scan-hit-at-%s' % ('0' if seen.index(r) == 0 else 'later'))
                else:
                    f.append('scan-miss-same-length'); seen.append(r)
            f = list(dict.fromkeys(f))
    else:
        tests = case['tests']
        if tests is None:
            f.append('tests-None')
            return f
        f.append('tkind:' + case.get('tkind', 'list'))
        f.append('via:' + case.get('via', 'method'))
        real = [t for t in tests if t is not None]
        if len(real) < len(tests): f.append('tests-with-None')
        if not tests: f.append('tests-empty')
        if tests and not real: f.append('tests-all-None')
        keyf = (lambda t: tuple(_enc(t))) if ft == 'istr' else (lambda t: tuple(t) if isinstance(t, list) else t)
        tk = [keyf(t) for t in real]
        if len(set(tk)) < len(tk): f.append('tests-duplicates')
        if len(set(tk)) >= 4: f.append('tests>=4-distinct')
        if len(set(tk)) >= 8: f.append('tests>=8-distinct')
        if len(set(tk)) > 16: f.append('tests>16-distinct')
        hit = [r in set(tk) for r in rows]
        if any(hit): f.append('row-hit')
        if not all(hit) and rows: f.append('row-miss')
        if len(set(tk)) >= 256: f.append('tests>=256-distinct')
        rg = dict(INT_RANGE, bool=(0, 1)).get(ft)
        if ft in INT_RANGE or ft in ('float32', 'float64', 'ts'):
            f += _coercion_features(case, rows, tk, len(real) < len(tests))
        if rg and any(not (rg[0] <= t <= rg[1]) for t in tk): f.append('test-value-outside-column-dtype')
        if len(set(tk)) >= max(_near_sort_threshold(len(rows)), 1):
            f.append('tests>=numpy-sort-threshold')     # np.isin leaves its per-element loop (non-object dtypes)
            if any((not h) and rows.count(r) > 1 for r, h in zip(rows, hit)): f.append('large-tests+duplicated-absent-row')
            if any(h and rows.count(r) > 1 for r, h in zip(rows, hit)): f.append('large-tests+duplicated-member-row')
        if ft in ('istr', 'fstr') and tk:
            if any(len(t) >= 256 for t in tk): f.append('test-bytes>=256')
            if any(len(r) >= 256 and h for r, h in zip(rows, hit)): f.append('long-row-hit')
            if any(len(r) >= 256 and not h and any(len(t) == len(r) for t in tk) for r, h in zip(rows, hit)):
                f.append('long-row-miss-same-length-test')
            if any(len(r) >= 256 and not h and any(len(t) != len(r) and (len(t) - len(r)) % 256 == 0 for t in tk)
                   for r, h in zip(rows, hit)):
                f.append('long-row-miss-test-length-congruent-mod-256')
        if ft == 'istr' and tk:
            if any(r not in tk and any(t[:len(r)] == r for t in tk) for r in rows): f.append('row-is-proper-prefix-of-test')
            if any(r not in tk and any(r[:len(t)] == t for t in tk) for r in rows): f.append('test-is-proper-prefix-of-row')
            if any(r < min(tk) for r in rows): f.append('row-below-all-tests')
            if any(r > max(tk) for r in rows): f.append('row-above-all-tests')
    return f


def _f32(z):
    import struct
    try:
        return struct.unpack('f', struct.pack('f', float(z)))[0]
    except OverflowError:
        return float('inf') if z > 0 else float('-inf')


def _collide(a, b):
    """the coercions under which the distinct integers a, b become equal"""
    out = []
    if float(a) == float(b): out.append('float64')
    if _f32(a) == _f32(b): out.append('float32')
    for w in (64, 32, 16, 8):
        if (a - b) % (1 << w) == 0:
            out.append('mod-2^%d' % w)
            break
    return out


def _coercion_features(case, rows, tk, has_none):
    """a row that is NOT a member but would be one under an implicit coercion of the column or of the test values
    (binary64 / binary32 rounding, two's complement reinterpretation or narrowing at 64 / 32 / 16 / 8 bits)"""
    ft = case['ft']
    if ft not in INT_RANGE:         # float columns hold quarter units: compare the values
        if len(rows) * len(tk) > 4000:
            return []
        rows = [r / 4 for r in rows]
        tk = [t / 4 for t in tk]
    tks = set(tk)
    if len(rows) * len(tk) > 40000:
        return []
    kinds = set()
    for r in set(rows):
        if r in tks:
            continue
        for t in tks:
            if ft in INT_RANGE:
                kinds.update(_collide(r, t))
            elif _f32(r) == _f32(t):
                kinds.add('float32')
    out = []
    tkind = case.get('tkind', 'list') + (':' + case['tdtype'] if case.get('tdtype') else '')
    for kd in sorted(kinds):
        out.append('nonmember-row-collides-under:' + kd)
        out.append('nonmember-row-collides-under:%s%s' % (kd, '+None' if has_none else '-noNone'))
    if kinds:
        out.append('collision:%s:%s:%s' % (ft, tkind, 'None' if has_none else 'noNone'))
        if any(abs(x) > 2 ** 53 for x in tks) and ft in INT_RANGE: out.append('test-value-beyond-2^53')
    if ft in INT_RANGE:
        lo, hi = INT_RANGE[ft]
        if any(r in (lo, hi) for r in rows) and INT_BITS[ft] == 64: out.append('row-at-64-bit-extreme')
        if any(abs(r) > 2 ** 53 for r in rows): out.append('row-beyond-2^53')
    return out


_ADMIN = ('unique:', 'isin:', 'flags:', 'tkind:', 'via:')


def nontrivial(case, model):
    """reaches at least one planted feature other than the bookkeeping ones (category, flags, container kind)."""
    return model != 'BADCASE' and any(not x.startswith(_ADMIN) for x in features(case, model))


def known(case, impl, model, spec, mode):
    return None


# ------------------------------------------------------------------------------------------ generators
def _cps(s):
    return [ord(c) for c in s]


FLAGS8 = [list(f) for f in itertools.product([0, 1], repeat=3)]
PLAIN_FTS = ['int32', 'int8', 'bool', 'float32', 'cat', 'ts', 'fstr']


def _plain_pool(ft):
    if ft == 'bool':
        return [0, 1], [None]
    if ft == 'cat':
        return [0, 1, 5, -3], [None, 2]
    if ft == 'fstr':
        return [[], [97], [97, 98], [98]], [None, [99]]
    if ft in ('ts', 'float32'):
        return [0, 6, -5, 4000], [None, 7]
    if ft == 'int8':
        return [0, -128, 127, 3], [None, 5]
    if ft == 'int64':       # dtype extremes and neighbours beyond 2^53 (not representable as binary64)
        return [0, -2 ** 63, 2 ** 63 - 1, 2 ** 53 + 1], [None, 2 ** 53]
    if ft == 'float64':     # quarter units: 2^56 ticks = 2^54
        return [0, 6, -5, 2 ** 56], [None, 7]
    if ft == 'uint16':
        return [0, 65535, 256, 3], [None, 255]
    return [0, -7, 2 ** 31 - 1, 3], [None, 5]


def _plain_extra(ft):
    d = {}
    if ft == 'fstr':
        d['strlen'] = 2
    if ft == 'cat':
        d['keys'] = [0, 1, 5, -3, 2]
    return d


# ------------------------------------------------------------------------------------------ regions beyond the small scope
# (a) byte lengths >= 256 (one-byte length tables, `& 255`, `min(len, 255)`, uint8 counters): rows and test strings whose
#     UTF-8 length sits on / around multiples of 256 and powers of two, in four encodings (1- to 4-byte characters, so
#     that characters != bytes), with same-length neighbours that differ in the last / first byte and prefix pairs;
# (b) row counts, distinct counts and multiplicities >= 256;
# (c) test collections large enough for numpy to leave its per-element loop (np.isin switches to a sort- or table-based
#     algorithm at len(tests) >= 10 * rows ** 0.145), for every container form, with duplicated column values inside and
#     outside the collection;
# (d) whatever small literal is NEW in the tree under test (harness/hot.py) is planted as a byte length, a row count, a
#     distinct count and a test-collection size.
LEN_EDGES_Q = [255, 256, 257, 300, 511, 512, 513, 1000]
LEN_EDGES_T = [254, 255, 256, 257, 258, 300, 383, 384, 511, 512, 513, 767, 768, 769, 1000, 1023, 1024, 1025, 2047, 2048,
               2049, 4095, 4096, 4097]
COUNT_EDGES_Q = [255, 256, 257, 300]
COUNT_EDGES_T = [127, 128, 129, 255, 256, 257, 300, 511, 512, 513, 1000]
KINDS4 = ['list', 'set', 'array', 'tuple']
PLAIN_FTS_X = PLAIN_FTS + ['int64', 'float64', 'uint16']
_UNITS = ['n', 'é', '€', '\U00010000']      # 1-, 2-, 3-, 4-byte characters


def _hot_edges(cap):
    out = []
    for k in hot.hot_sizes():
        for v in (k - 1, k, k + 1, 2 * k - 1, 2 * k, 2 * k + 1, 3 * k):
            if 1 <= v <= cap and v not in out:
                out.append(v)
    return out


def _long(nbytes, style=0, tail='n', head=None):
    """code points of a string of exactly `nbytes` UTF-8 bytes: a body of `style+1`-byte characters, padded with 'n',
    ending in the ASCII character `tail` (and starting with `head` when given)."""
    if nbytes <= 0:
        return []
    pre = head if (head and nbytes >= 2) else ''
    n = nbytes - 1 - len(pre)
    w = style + 1
    body = _UNITS[style] * (n // w) + 'n' * (n % w)
    return _cps(pre + body + tail)


def _near_sort_threshold(nrows):
    """the smallest test-collection size at which np.isin leaves its per-element loop for `nrows` rows"""
    return int(math.ceil(10 * (max(nrows, 0) ** 0.145))) if nrows > 0 else 0


def _padding(ft, m, wide, rng=None):
    """m distinct values of the field type that are in neither _plain_pool(ft) list"""
    if ft == 'bool':
        return []
    m = min(m, 1800)        # every value below stays inside its dtype (and exact in float32)
    if ft in ('int8', 'cat'):
        return [10 + i for i in range(min(m, 100))]
    if ft == 'uint8':
        return [10 + i for i in range(min(m, 200))]
    if ft == 'int16':
        return [1000 + (17 if wide else 1) * i for i in range(m)]
    if ft == 'uint64':      # wide: members on both sides of 2^63 (numpy types such a list float64)
        return [2 ** 53 + 2 + i for i in range(m)] if not wide else [(2 ** 62 if i % 2 == 0 else 2 ** 63) + (2 ** 52 + 12345) * i for i in range(m)]
    if ft == 'uint32':
        return [100 + i for i in range(m)] if not wide else [100000 + 2000003 * i for i in range(m)]
    if ft == 'fstr':
        return [[99 + i // 12, 99 + i % 12] for i in range(m)]
    if ft in ('ts', 'float32', 'float64'):
        return [100 + (3 if not wide else 4001) * i for i in range(m)]
    if ft == 'uint16':
        return [1000 + (37 if wide else 1) * i for i in range(m)]
    if ft == 'int64':
        return [2 ** 53 + 2 + i for i in range(m)] if not wide else [2 ** 40 + 12345678901 * i for i in range(m)]
    step = min(7919 * 1000, (2 ** 31 - 1 - 100000) // max(m, 1))
    return [100 + i for i in range(m)] if not wide else [100000 + step * i for i in range(m)]


def _aliases(ft):
    """test values just outside the column dtype that a cast to that dtype would fold onto members of _plain_pool(ft)"""
    if ft in ('int8', 'cat'):
        return [256, 128, -129, 259, -253, 383]
    if ft == 'uint16':
        return [65536, -1, 65536 + 256, 65539, -65533]
    if ft == 'int32':
        return [2 ** 32, 2 ** 31, 2 ** 32 - 7, 2 ** 32 + 3, -2 ** 31 - 1]
    if ft == 'bool':
        return [2, -1, 256]
    return []


def _gen_regions(tier, rng):
    big = tier == 'thorough'
    boost = 3 if hot.changed() else 1
    hot_l = _hot_edges(6000 if big else 2100)
    edges = (LEN_EDGES_T if big else LEN_EDGES_Q) + [v for v in hot_l if v not in (LEN_EDGES_T if big else LEN_EDGES_Q)]
    k = 0
    # ---- (a) long indexed strings: isin.  One column per encoding holding, for every edge length, the string ending in
    #      'n' (twice for the first edges), its same-length neighbour ending in 'm', short strings; each distinct value is
    #      looked up alone, then each absent same-length value, then mixtures.
    for style in range(4):
        ed = edges if style < 2 else (edges[::2] if big else edges[:6])
        col = [_cps('a'), []]
        for j, L in enumerate(ed):
            col.append(_long(L, style, 'n'))
            if j % 2 == 0:
                col.append(_long(L, style, 'm'))
            if j < 3:
                col.append(_long(L, style, 'n'))
        col += [_cps('bb'), _long(ed[0], style, 'n', head='m'), _cps('a')]
        distinct = []
        for c in col:
            if c not in distinct:
                distinct.append(c)
        absent = [_long(L, style, 'q') for L in ed] + [_long(L, (style + 1) % 4, 'n') for L in ed[:4]] \
            + [_long(L + 1, style, 'n') for L in ed if (L + 1) not in ed][:4]
        lookups = [[d] for d in distinct] + [[a] for a in absent]
        longs = [d for d in distinct if len(_enc(d)) >= 200]
        lookups += [list(distinct), list(longs), [_cps('a'), longs[0], None, _cps('zz')], absent[:6] + [None],
                    longs[1::2] + absent[::2] + [longs[1]], [None, longs[-1]], distinct[::-1] + absent]
        for tests in lookups:
            k += 1
            yield {'op': 'isin', 'ft': 'istr', 'level': 'ops', 'col': col, 'tests': tests, 'tkind': 'list', 'via': 'method'}
            if k % 3 == 0 or len(tests) > 3:
                yield {'op': 'isin', 'ft': 'istr', 'level': 'mem' if k % 2 else 'h5', 'col': col, 'tests': tests,
                       'tkind': KINDS4[k % 4], 'via': 'module' if k % 4 == 0 else 'method'}
        # every (row length, test length) pair of edges, bodies identical: membership iff the lengths are equal
        for Lr in ed:
            yield {'op': 'isin', 'ft': 'istr', 'level': 'ops', 'col': [_long(Lr, style, 'n'), _cps('n')],
                   'tests': [_long(Lt, style, 'n') for Lt in ed if Lt != Lr], 'tkind': 'list', 'via': 'method'}
    # ---- (a) long indexed strings: unique
    for style in range(4):
        ed = edges if style < 2 else (edges[::2] if big else edges[:6])
        for j, L in enumerate(ed):
            L2 = ed[(j + 1) % len(ed)]
            col = [_long(L, style, 'n'), _cps('a'), _long(L, style, 'm'), _long(L, style, 'n'), _long(L2, style, 'n'),
                   _long(L, style, 'n', head='m'), _long(L, style, 'm')]
            for fl in ([1, 1, 1], [0, 0, 0], FLAGS8[1 + (j + style) % 6]):
                k += 1
                yield {'op': 'unique', 'ft': 'istr', 'level': ['ops', 'ops', 'mem', 'h5'][k % 4], 'col': col, 'flags': fl}
        allc = []
        for L in ed:
            allc += [_long(L, style, 'n'), _long(L, style, 'm')]
        allc = allc + allc[::3] + [[], _cps('a')]
        for fl in (FLAGS8 if big else [[1, 1, 1], [0, 1, 0], [1, 0, 1]]):
            c2 = list(allc)
            rng.shuffle(c2)
            k += 1
            yield {'op': 'unique', 'ft': 'istr', 'level': ['ops', 'mem', 'h5'][k % 3], 'col': c2, 'flags': fl}
    # ---- (a) structured random: lengths from the edges, their +-1 / +-256 neighbours and short ones
    pool_l = sorted(set(edges + [e + d for e in edges for d in (-256, 256, 1) if e + d > 0] + [0, 1, 2, 3]))
    for _ in range((1500 if big else 160) * boost):
        st = [rng.randrange(4), rng.randrange(4)]
        lens = rng.sample(pool_l, rng.randint(2, 4)) + rng.sample(edges, 2)
        vals = [_long(rng.choice(lens), rng.choice(st), rng.choice('nm')) for _ in range(rng.randint(2, 6))]
        col = [rng.choice(vals) for _ in range(rng.randint(3, 12))]
        level = rng.choice(['ops', 'ops', 'mem', 'h5'])
        if rng.random() < 0.4:
            yield {'op': 'unique', 'ft': 'istr', 'level': level, 'col': col, 'flags': rng.choice(FLAGS8)}
        else:
            near = [_long(rng.choice(lens), rng.choice(st), rng.choice('nmq')) for _ in range(rng.randint(0, 4))]
            tests = rng.sample(vals, rng.randint(1, len(vals))) + near + [None] * rng.choice([0, 0, 1])
            rng.shuffle(tests)
            yield {'op': 'isin', 'ft': 'istr', 'level': level, 'col': col, 'tests': tests,
                   'tkind': 'list' if level == 'ops' else rng.choice(KINDS4),
                   'via': 'method' if level == 'ops' else rng.choice(['method', 'module'])}
    # ---- (a) fixed strings of 256 and more bytes
    for n in ([256, 300] + ([257, 512, 1000] if big else []) + [v for v in hot_l if 2 <= v <= 2100][:3]):
        vals = [[110] * (n - 1) + [110], [110] * (n - 1) + [109], [110] * (n - 1), [109] + [110] * (n - 1), [97], [],
                [110] * 255, [110] * min(n, 256)]
        for lv in ('mem', 'h5'):
            for col in ([vals[0], vals[1], vals[0], vals[2], vals[3]], [vals[6], vals[7], vals[4], vals[5], vals[1], vals[7]]):
                for fl in ([1, 1, 1], [0, 0, 0]):
                    yield {'op': 'unique', 'ft': 'fstr', 'level': lv, 'col': col, 'flags': fl, 'strlen': n}
                for tests in ([vals[0]], [vals[1], None], [vals[2], vals[3]], [vals[6]], [vals[7], vals[4]], vals[:6]):
                    k += 1
                    yield {'op': 'isin', 'ft': 'fstr', 'level': lv, 'col': col, 'tests': tests, 'tkind': KINDS4[k % 4],
                           'via': 'module' if k % 4 == 0 else 'method', 'strlen': n}
    # ---- (b) row counts / distinct counts / multiplicities >= 256
    cedges = (COUNT_EDGES_T if big else COUNT_EDGES_Q) + [v for v in _hot_edges(4000 if big else 700)
                                                         if v not in (COUNT_EDGES_T if big else COUNT_EDGES_Q) and v >= 4]
    words = [_cps(a + b) for a in 'abcdefghijklmnopqrstuvwxyzé€' for b in ['', 'a', 'b', 'é', 'zz', 'c', 'ab']] \
        + [_cps(a + b + c) for a in 'abcdefghij' for b in 'klmnopqrst' for c in 'uvwxyzé€01']
    words = [w for j, w in enumerate(words) if w not in words[:j]]
    for d in cedges:
        lv = ['ops', 'mem', 'h5'][k % 3]
        k += 1
        dist = rng.sample(words, min(d, len(words)))
        col = dist + [rng.choice(dist) for _ in range(rng.randint(0, 40))]
        rng.shuffle(col)
        for fl in ([1, 1, 1], FLAGS8[1 + k % 6]):
            yield {'op': 'unique', 'ft': 'istr', 'level': lv, 'col': col, 'flags': fl}
        # one value d times (multiplicity >= 256) among a few others
        col2 = [dist[0]] * d + dist[1:4] * 2
        rng.shuffle(col2)
        yield {'op': 'unique', 'ft': 'istr', 'level': lv, 'col': col2, 'flags': [1, 1, 1]}
        yield {'op': 'isin', 'ft': 'istr', 'level': lv, 'col': col2[:40] + dist[4:8], 'tests': dist[1:d] + [None],
               'tkind': 'list' if lv == 'ops' else KINDS4[k % 4], 'via': 'method'}
        yield {'op': 'isin', 'ft': 'istr', 'level': lv, 'col': col, 'tests': dist[::2], 'tkind': 'list' if lv == 'ops' else
               KINDS4[(k + 1) % 4], 'via': 'method'}
        for ft in ('int8', 'int32', 'int64', 'float64', 'fstr', 'ts'):
            pool, _e = _plain_pool(ft)
            ex = _plain_extra(ft)
            pad = _padding(ft, d, k % 2 == 0)
            lv2 = 'mem' if k % 2 else 'h5'
            k += 1
            colp = [pool[k % 2]] * d + pool + pad[:3]          # one value d times: multiplicity >= 256
            rng.shuffle(colp)
            yield dict({'op': 'unique', 'ft': ft, 'level': lv2, 'col': colp, 'flags': [1, 1, 1]}, **ex)
            if len(pad) >= d:
                cold = pad + pool + [rng.choice(pad) for _ in range(20)]
                rng.shuffle(cold)
                yield dict({'op': 'unique', 'ft': ft, 'level': lv2, 'col': cold, 'flags': FLAGS8[1 + k % 7]}, **ex)
                yield dict({'op': 'isin', 'ft': ft, 'level': lv2, 'col': colp[:50] + pad[:6] + pad[:3], 'tests': pad[2:d] + pool[1:2],
                            'tkind': KINDS4[k % 4], 'via': 'method'}, **ex)
    # ---- (c) non-indexed isin with a large test collection: exhaustive columns x every subset of the pool, each time
    #      accompanied by 24 padding members (numpy's sort / table algorithms instead of the per-element loop)
    for ft in PLAIN_FTS_X:
        pool, extra = _plain_pool(ft)
        ex = _plain_extra(ft)
        subs = []
        for kk in range(0, len(pool) + 1):
            for sub in itertools.combinations(range(len(pool)), kk):
                subs.append([pool[j] for j in sub])
        for level in ('mem', 'h5'):
            for n in range(0, ((4 if level == 'mem' else 3) if big else (3 if level == 'mem' else 2)) + 1):
                for col in itertools.product(pool, repeat=n):
                    for sub in subs:
                        k += 1
                        pad = _padding(ft, 24, k % 2 == 0)
                        if ft == 'bool':
                            pad = list(sub) * 12
                        kinds = KINDS4[:3] if (n <= 2 and level == 'mem') else [KINDS4[k % 3]]
                        al = _aliases(ft)
                        for kind in kinds:
                            t = pad + list(sub) + ([None] if k % 11 == 0 else []) + (pad[:2] if k % 5 == 0 else []) \
                                + (al[k % 2::2] if (al and k % 3 == 0) else [])
                            rng.shuffle(t)
                            yield dict({'op': 'isin', 'ft': ft, 'level': level, 'col': list(col), 'tests': t, 'tkind': kind,
                                        'via': 'module' if k % 4 == 0 else 'method'}, **ex)
        # sizes around numpy's switch-over for growing row counts, and around the new literals of the tree under test
        rows_list = [1, 2, 3, 5, 8, 13, 30, 100] + ([300, 1000] if big else []) + _hot_edges(1200)[:6]
        for nrows in rows_list:
            thr = _near_sort_threshold(nrows)
            sizes = [thr - 1, thr, thr + 1, 2 * thr + 3] + _hot_edges(400)[:4]
            for m in sizes:
                for kind in KINDS4:
                    k += 1
                    pad = _padding(ft, m + 4, k % 2 == 0)
                    members = rng.sample(pool, rng.randint(0, len(pool) - 1))
                    t = (pad[4:4 + max(m - len(members), 0)] + members) if ft != 'bool' else (members * max(m // 2, 1))[:max(m, 1)]
                    colv = [p for p in pool] + pad[:4]
                    col = [rng.choice(colv) for _ in range(nrows)]
                    rng.shuffle(t)
                    yield dict({'op': 'isin', 'ft': ft, 'level': 'mem' if k % 3 else 'h5', 'col': col, 'tests': t,
                                'tkind': kind, 'via': 'module' if k % 4 == 0 else 'method'}, **ex)
    # structured random, all field types incl. indexed strings: 8..48 test values, rows with duplicates
    for _ in range((3000 if big else 500) * boost):
        ft = rng.choice(PLAIN_FTS_X + ['istr'])
        nrows = rng.choice([1, 2, 3, 4, 6, 10, 20, 40])
        m = rng.randint(8, 48)
        level = rng.choice(['mem', 'mem', 'h5'])
        kind = rng.choice(KINDS4)
        via = rng.choice(['method', 'method', 'module'])
        if ft == 'istr':
            AB = [_cps(s_) for s_ in ALPHA_BIG]
            extra_words = words[:60]
            colv = rng.sample(AB, 5) + rng.sample(extra_words, 3)
            col = [rng.choice(colv) for _ in range(nrows)]
            t = rng.sample(AB + extra_words, min(m, len(AB) + len(extra_words)))
            yield {'op': 'isin', 'ft': 'istr', 'level': level, 'col': col, 'tests': t, 'tkind': kind, 'via': via}
            continue
        pool, extra = _plain_pool(ft)
        ex = _plain_extra(ft)
        pad = _padding(ft, m + 6, rng.random() < 0.5)
        colv = pool + pad[:6]
        col = [rng.choice(colv) for _ in range(nrows)]
        t = rng.sample(pad, min(m, len(pad))) + rng.sample(pool, rng.randint(0, len(pool))) if pad else \
            [rng.choice(pool) for _ in range(m)]
        if rng.random() < 0.15:
            t.append(None)
        if rng.random() < 0.25 and _aliases(ft):
            t += rng.sample(_aliases(ft), 2)
        if rng.random() < 0.3 and kind != 'set':
            t += t[:3]
        rng.shuffle(t)
        yield dict({'op': 'isin', 'ft': ft, 'level': level, 'col': col, 'tests': t, 'tkind': kind, 'via': via}, **ex)


# (e) implicit dtype coercions.  isin must compare the integers themselves; a defect of this class converts the test
#     collection or the column to another dtype on some path (a None entry turned into NaN types the test values
#     float64; numpy itself types a list mixing values >= 2^63 and smaller ones float64 and merges int64 with uint64 in
#     float64; a cast to the column's dtype wraps).  Such a conversion is observable only on a pair (row value v,
#     test value t != v) that it merges (theorems isin_coercion_injective / isin_coercion_collision), so for every
#     integer dtype every plausible coercion gets its pairs, each looked up without and with a None entry, alone and
#     inside a collection large enough for numpy's sort / table algorithms, in every container form (list, set, tuple,
#     ndarray of the inferred dtype, of an explicit integer dtype, of dtype object).
COERCE_FTS = ['int64', 'uint64', 'int32', 'uint32', 'int16', 'uint16', 'int8', 'uint8', 'cat']


def _same_f64(v):
    """integers != v that round to the same binary64 as v (nearest first)"""
    out = []
    for d in (1, 2, 3, 4, 255, 256, 511, 512, 1023, 1024):
        for t in (v - d, v + d):
            if float(t) == float(v) and t not in out:
                out.append(t)
    r = int(float(v))
    if r != v and r not in out:
        out.insert(0, r)
    return out


def _same_f32(v):
    out = []
    for d in (1, 2, 3, 4, 63, 64, 127, 128):
        for t in (v - d, v + d):
            if _f32(t) == _f32(v) and t not in out:
                out.append(t)
    return out


def _collision_pairs(ft):
    """[(v, t, coercion)]: v a value of the column's dtype, t != v an integer (inside or outside the dtype) that the
    coercion merges with v"""
    lo, hi = INT_RANGE[ft]
    w = INT_BITS[ft]
    pairs = []

    def add(v, t, why):
        if lo <= v <= hi and t != v and (v, t) not in [(a, b) for a, b, _ in pairs]:
            pairs.append((v, t, why))
    # binary64: beyond 2^53 (spacing 2), 2^54 (4), 2^62, at the extremes of the 64-bit types (spacing 1024 / 2048)
    for v in (2 ** 53 + 1, 2 ** 53 + 3, 2 ** 53, -(2 ** 53) - 1, 2 ** 54 + 2, 2 ** 54 + 1, 2 ** 62 + 1, -(2 ** 62) - 255, hi, hi - 1,
              hi - 1024, lo, lo + 1, lo + 513, 2 ** 63, 2 ** 63 + 1, 2 ** 63 - 1, 2 ** 63 + 2049):
        if lo <= v <= hi and abs(v) >= 2 ** 53:
            ts = _same_f64(v)
            inside = [t for t in ts if lo <= t <= hi][:2]
            outside = [t for t in ts if not (lo <= t <= hi)][:1]
            for t in inside + outside:
                add(v, t, 'float64')
    # binary32: beyond 2^24
    for v in (2 ** 24 + 1, 2 ** 24 + 3, 2 ** 24, -(2 ** 24) - 1, 2 ** 31 - 1, -(2 ** 31) + 1, 2 ** 32 - 1, 2 ** 31 + 129, 2 ** 40 + 1,
              hi if w == 32 else 2 ** 25 + 2):
        if lo <= v <= hi and abs(v) >= 2 ** 24:
            for t in _same_f32(v)[:2]:
                add(v, t, 'float32')
    # binary16: beyond 2^11
    if hi >= 2049:
        add(2049, 2048, 'float16'); add(2048, 2049, 'float16'); add(4098, 4097, 'float16')
    # two's complement reinterpretation at the column's width (int64 <-> uint64 ...), and of a wider test value
    for v in (lo, hi, -1, 0, 5, 1 << (w - 1), (1 << (w - 1)) - 1, lo + 1, hi - 1):
        for k in (1, -1, 2):
            add(v, v + k * (1 << w), 'mod-2^%d' % w)
    if w < 64:
        add(5, 5 + 2 ** 64, 'mod-2^64'); add(hi, hi - 2 ** 64, 'mod-2^64')
    # narrowing of the column / of both sides to a smaller width
    for w2 in (8, 16, 32):
        if w2 < w:
            for v, t in ((2 ** w2 + 5, 5), (5, 2 ** w2 + 5), (2 ** (w2 - 1), -2 ** (w2 - 1)), (2 ** w2 - 1, -1), (2 ** w2, 0),
                         (hi, hi % 2 ** w2), (hi - 2 ** w2, hi), (3 * 2 ** w2 + 7, 2 ** w2 + 7)):
                add(v, t, 'mod-2^%d' % w2)
    return pairs


def _int_arrays(ft, tests):
    """explicit ndarray dtypes that can hold the integer test values exactly (besides the one numpy infers)"""
    if not tests or any(t is None for t in tests):
        return ['object']
    out = []
    for dt in ('int8', 'uint8', 'int16', 'uint16', 'int32', 'uint32', 'int64', 'uint64'):
        lo, hi = INT_RANGE[dt]
        if all(lo <= t <= hi for t in tests):
            out.append(dt)
    # the narrowest, the 64-bit ones (signed vs unsigned against the column), and object
    keep = out[:1] + [d for d in out if d in ('int64', 'uint64')]
    return list(dict.fromkeys(keep)) + ['object']


def _gen_coercion(tier, rng):
    big = tier == 'thorough'
    boost = 3 if hot.changed() else 1
    k = 0
    for ft in COERCE_FTS:
        lo, hi = INT_RANGE[ft]
        pairs = _collision_pairs(ft)
        small = [s_ for s_ in (3, 0, 7) if lo <= s_ <= hi]

        def mk(col, tests, kind, level, via, tdtype=None):
            c = {'op': 'isin', 'ft': ft, 'level': level, 'col': list(col), 'tests': list(tests), 'tkind': kind, 'via': via}
            if tdtype:
                c['tdtype'] = tdtype
            if ft == 'cat':
                c['keys'] = sorted(set(col) | {0})
            return c
        for (v, t, why) in pairs:
            col = [v, small[0], v] + ([t] if lo <= t <= hi else []) + [small[1]]
            for wide in (False, True):
                pad = [x for x in _padding(ft, 26, wide) if x != v and x != t][:24]
                variants = [[t], [t, None], [None, small[0], t], [t, small[0]], [t] + pad, [None, t] + pad, [t, v], [v, None, t],
                            [None]]
                if wide:
                    variants = variants[4:6]
                for vi, tests in enumerate(variants):
                    for kind in KINDS4:
                        k += 1
                        tt = list(tests)
                        if len(tt) > 3:
                            rng.shuffle(tt)
                        yield mk(col, tt, kind, 'h5' if k % 5 == 0 else 'mem', 'module' if k % 4 == 0 else 'method')
                    if vi in (0, 1, 4, 5):
                        for dt in _int_arrays(ft, tests):
                            k += 1
                            yield mk(col, tests, 'array', 'h5' if k % 5 == 0 else 'mem', 'module' if k % 4 == 0 else 'method', dt)
        # unique on the colliding values themselves (a coercion of the column would merge or alter them)
        for j, (v, t, why) in enumerate(pairs):
            if lo <= t <= hi:
                k += 1
                c = {'op': 'unique', 'ft': ft, 'level': 'h5' if k % 5 == 0 else 'mem', 'col': [v, t, small[0], v],
                     'flags': [1, 1, 1] if j % 2 == 0 else FLAGS8[j % 8]}
                if ft == 'cat':
                    c['keys'] = sorted({v, t, small[0], 0})
                yield c
        # all pairs at once: every v in the column, every t looked up
        vs = list(dict.fromkeys(v for v, _, _ in pairs))
        ts_ = list(dict.fromkeys(t for _, t, _ in pairs if t not in vs))
        for none in (0, 1):
            for kind in KINDS4:
                for level in ('mem', 'h5'):
                    k += 1
                    yield mk(vs + small, ts_ + [None] * none, kind, level, 'module' if k % 2 else 'method')
        # structured random: some pairs, rows with duplicates, a random part of the partners looked up
        for _ in range((2000 if big else 150) * boost):
            ps = rng.sample(pairs, min(len(pairs), rng.randint(1, 4)))
            vals = [v for v, _, _ in ps] + [t for _, t, _ in ps if lo <= t <= hi and rng.random() < 0.5] + small[:2]
            col = [rng.choice(vals) for _ in range(rng.choice([1, 2, 3, 5, 8, 12, 30]))]
            tests = [t for _, t, _ in ps if rng.random() < 0.8] + [v for v, _, _ in ps if rng.random() < 0.25]
            m = rng.choice([0, 0, 2, 12, 24, 40])
            tests += [x for x in _padding(ft, m + 2, rng.random() < 0.5) if x not in vals][:m]
            if rng.random() < 0.5:
                tests += [None] * rng.choice([1, 1, 2])
            kind = rng.choice(KINDS4)
            if rng.random() < 0.3 and kind != 'set':
                tests += tests[:2]
            rng.shuffle(tests)
            tdt = None
            if kind == 'array' and rng.random() < 0.5:
                tdt = rng.choice(_int_arrays(ft, tests))
            yield mk(col, tests, kind, rng.choice(['mem', 'mem', 'h5']), rng.choice(['method', 'method', 'module']), tdt)
    # the small scope of the 64-bit types: every column of length <= 2 over 4 values x every subset of those values, their
    # binary64 neighbours and None, rotating list / set / ndarray / tuple (what the small scope does for the narrow types)
    for ft, pool, extra in (('int64', [0, -2 ** 63, 2 ** 63 - 1, 2 ** 53 + 1], [None, 2 ** 53, 2 ** 63 - 2]),
                            ('uint64', [0, 2 ** 64 - 1, 2 ** 63, 2 ** 53 + 1], [None, 2 ** 53, 2 ** 64 - 2])):
        tp = pool + extra
        for level in ('mem', 'h5'):
            for n in range(0, 3 if level == 'mem' else 2):
                for col in itertools.product(pool, repeat=n):
                    for kk in range(0, len(tp) + 1):
                        for sub in itertools.combinations(range(len(tp)), kk):
                            k += 1
                            sub2 = [tp[j] for j in sub]
                            rng.shuffle(sub2)
                            yield {'op': 'isin', 'ft': ft, 'level': level, 'col': list(col), 'tests': sub2, 'tkind': KINDS4[k % 4],
                                   'via': 'module' if k % 4 == 0 else 'method'}
    # float columns: binary32 neighbours (quarter units) with and without None
    for ft, (v, t) in (('float32', (2 ** 26, 2 ** 26 + 4)), ('float64', (2 ** 26 + 4, 2 ** 26)), ('ts', (2 ** 26 + 4, 2 ** 26)),
                       ('float64', (2 ** 56, 2 ** 56 + 1024)), ('ts', (2 ** 40 + 1, 2 ** 40))):
        for tests in ([t], [t, None], [None, t, 6], [t] + _padding(ft, 24, False), [None, t] + _padding(ft, 24, True), [t, v]):
            for kind in KINDS4:
                k += 1
                yield {'op': 'isin', 'ft': ft, 'level': 'h5' if k % 3 == 0 else 'mem', 'col': [v, 6, v] + ([t] if ft != 'float32' else []),
                       'tests': list(tests), 'tkind': kind, 'via': 'module' if k % 4 == 0 else 'method'}


# (f) string VALUES that collide under a cheap hash.  unique / isin must compare the byte strings themselves; an
#     implementation that buckets the values by a hash (a dict keyed by a hash of the bytes, a table indexed by
#     hash % K, a memo of row results) is correct only if every lookup ends in a byte comparison against EVERY value of
#     the bucket (theorem unique_hash_bucket_independent).  A defect of this class is observable only on a column that
#     holds two different values of the same length with the same hash -- and, when the later value takes over the
#     bucket's slot, a repeat of the earlier one after it (x, y, x).  Random columns over a handful of words never
#     contain such a pair, so the pairs are computed: for each cheap hash family the equal-length strings over a small
#     byte alphabet whose members are 1, 31, 32 and 33 apart are bucketed by the hash and the first colliding pair /
#     triple is taken; the 32-bit truncated products (FNV, sdbm, crc32 ...) get a birthday search over 8^6 strings.
HASH_ALPHA = [65, 66, 97, 98, 96, 33]                   # A B a b ` !
HASH_ALPHA8 = HASH_ALPHA + [67, 99]                      # + C c (birthday search: 8^6 strings)
HASH_ALPHA2 = ['é', 'È', 'É', 'Ê', 'Ĉ', 'ĉ', 'Ċ', 'ĩ']   # C3A9 C388 C389 C38A C488 C489 C48A C4A9
HASH_SMALL_MULTS = [31, 33, 32, 37, 17, 5, 7, 3, 2, 10, 16, 101, 127, 131, 256, 257]
HASH_BIG_MULTS = [65599, 1000003, 16777619, 2654435761, 0x9E3779B1, 69069, 1103515245]
HASH_MODULI = [7, 13, 31, 61, 64, 127, 128, 251, 256, 509, 1009, 1024, 4093, 4096, 8191, 65521, 65536]
M32, M64 = 0xFFFFFFFF, 0xFFFFFFFFFFFFFFFF
_hash_cache = {}


def _h_poly(m, mask=None, h0=0):
    def f(b):
        h = h0
        for c in b:
            h = h * m + c
            if mask is not None:
                h &= mask
        return h
    return f


def _h_polyx(m, mask, h0):
    def f(b):
        h = h0
        for c in b:
            h = ((h * m) ^ c) & mask
        return h
    return f


def _h_mulx(m, mask, h0):           # FNV-1a style: xor, then multiply
    def f(b):
        h = h0
        for c in b:
            h = ((h ^ c) * m) & mask
        return h
    return f


def _h_rpoly(m):                    # least significant byte first
    def f(b):
        h, p = 0, 1
        for c in b:
            h += c * p
            p *= m
        return h
    return f


def _h_xor(b):
    h = 0
    for c in b:
        h ^= c
    return h


def _h_adler(b):
    import zlib
    return zlib.adler32(bytes(b))


def _h_rot(b):                      # rotate-left-5 and xor (32 bit)
    h = 0
    for c in b:
        h = (((h << 5) | (h >> 27)) & M32) ^ c
    return h


CORE_HASHES = [('poly31', _h_poly(31)), ('poly33', _h_poly(33)), ('poly32', _h_poly(32)), ('sum', sum), ('xor', _h_xor)]


def _small_families(hot_small, big):
    """[(name, hash function on byte tuples, core)]; for a core family (the common ones, and every one built from a literal
    that is new in the tree under test) the quick tier also takes a colliding triple and strings of 2-byte characters"""
    fam = []
    hs = [k for k in hot_small if k >= 2]
    lead = [31, 33, 32] + [k for k in hs if k not in (31, 33, 32)]
    for m in HASH_SMALL_MULTS + [k for k in hs if k not in HASH_SMALL_MULTS]:
        fam.append(('poly%d' % m, _h_poly(m), m in lead))
        if big or m in lead:
            fam.append(('poly%d&0xFFFF' % m, _h_poly(m, 0xFFFF), m in hs))
            fam.append(('poly%d&0xFF' % m, _h_poly(m, 0xFF), m in hs))
            fam.append(('rpoly%d' % m, _h_rpoly(m), m in hs))
        if m in (31, 33) or m in hs:
            for h0 in (0, 5381):
                fam.append(('polyx%d/%d' % (m, h0), _h_polyx(m, M32, h0), m in hs))
                fam.append(('mulx%d/%d' % (m, h0), _h_mulx(m, M32, h0), m in hs))
    for K in (HASH_MODULI if big else [31, 64, 256, 1024, 65536]) + [k for k in hs if k not in HASH_MODULI]:
        for m in (31, 33):
            fam.append(('poly%d%%%d' % (m, K), (lambda g, K_: (lambda b: g(b) % K_))(_h_poly(m), K), K in hs))
        fam.append(('sum%%%d' % K, (lambda K_: (lambda b: sum(b) % K_))(K), K in hs))
    fam += [('sum', sum, True), ('xor', _h_xor, True), ('sum+xor', lambda b: (sum(b), _h_xor(b)), False),
            ('sumsq', lambda b: sum(c * c for c in b), False), ('adler32', _h_adler, True), ('rotl5xor', _h_rot, False),
            ('first+last+len', lambda b: (b[0], b[-1], len(b)), True), ('first2+last2', lambda b: (b[:2], b[-2:]), False),
            ('first', lambda b: b[:1], True), ('first2', lambda b: b[:2], False), ('first3', lambda b: b[:3], False),
            ('last', lambda b: b[-1:], True), ('last2', lambda b: b[-2:], False), ('last3', lambda b: b[-3:], False),
            ('first+mid+last', lambda b: (b[0], b[len(b) // 2], b[-1]), False),
            ('sorted-bytes', lambda b: tuple(sorted(b)), True), ('set-of-bytes', lambda b: tuple(sorted(set(b))), False),
            ('product&M32', lambda b: math.prod(b) & M32, False), ('product+1', lambda b: math.prod(c + 1 for c in b), False)]
    return fam


def _pick(buckets, big):
    """from {(len, hash): [strings in enumeration order]}: the first colliding pair at the smallest length that has one,
    the first triple (thorough: two more pairs at other lengths)"""
    out = []
    multi = sorted((k[0], v[0], v) for k, v in buckets.items() if len(v) >= 2)
    if not multi:
        return out
    out.append(tuple(multi[0][2][:2]))
    tri = [v for _, _, v in multi if len(v) >= 3]
    if tri:
        out.append(tuple(tri[0][:3]))
    if big:
        out.append(tuple(multi[-1][2][-2:]))
    return out


def _birthday(hot_big, big):
    """colliding pairs / triples of 6-byte strings under 32-bit truncated products (FNV, sdbm, Knuth, LCG multipliers, crc32,
    every large literal that is new in the tree under test as multiplier / modulus / mask): numpy-vectorised hash of 2^19
    pseudo-random printable strings (fixed seed), sorted, equal neighbours taken"""
    import numpy as np, zlib
    L, n = 6, 1 << 19
    arr = np.random.RandomState(20261001).randint(33, 127, size=(n, L)).astype(np.uint64)
    cols = [arr[:, j] for j in range(L)]

    def string(i):
        return tuple(int(c[i]) for c in cols)
    fams = []
    mults = HASH_BIG_MULTS + [k for k in hot_big if 2 <= k < 2 ** 64 and k not in HASH_BIG_MULTS]

    def poly(m, mask):
        h = np.zeros(n, dtype=np.uint64)
        for c in cols:
            h = (h * np.uint64(m) + c) & np.uint64(mask)
        return h

    def polyx(m, mask, h0):
        h = np.full(n, h0, dtype=np.uint64)
        for c in cols:
            h = ((h * np.uint64(m)) ^ c) & np.uint64(mask)
        return h

    def mulx(m, mask, h0):
        h = np.full(n, h0, dtype=np.uint64)
        for c in cols:
            h = ((h ^ c) * np.uint64(m)) & np.uint64(mask)
        return h
    for m in mults:
        fams.append(('poly%d&M32' % m, lambda m=m: poly(m, M32)))
        fams.append(('mulx%d&M32' % m, lambda m=m: mulx(m, M32, 2166136261)))
        if big or m in hot_big:
            fams.append(('polyx%d&M32' % m, lambda m=m: polyx(m, M32, 2166136261)))
            fams.append(('poly%d>>32' % m, lambda m=m: poly(m, M64) >> np.uint64(32)))
            fams.append(('mulx%d/0&M32' % m, lambda m=m: mulx(m, M32, 0)))
    for m in (31, 33):
        fams.append(('poly%d&M32' % m, lambda m=m: poly(m, M32)))
        for K in [k for k in hot_big if 2 ** 16 <= k <= 2 ** 34]:
            fams.append(('poly%d%%%d' % (m, K), lambda m=m, K=K: poly(m, M64) % np.uint64(K)))
            fams.append(('poly%d&%d' % (m, K), lambda m=m, K=K: poly(m, M64) & np.uint64(K)))

    def crc():
        out = np.empty(n, dtype=np.uint64)
        raw = arr.astype(np.uint8).tobytes()
        for i in range(n):
            out[i] = zlib.crc32(raw[i * L:(i + 1) * L])
        return out
    fams.append(('crc32', crc))
    groups = []
    for name, fh in fams:
        h = fh()
        order = np.argsort(h, kind='stable')
        hs = h[order]
        eq = [int(i) for i in np.nonzero(hs[1:] == hs[:-1])[0][:4000] if string(int(order[i])) != string(int(order[i + 1]))]
        if not eq:
            continue
        got = [(string(int(order[eq[0]])), string(int(order[eq[0] + 1])))]
        eqs = set(eq)
        tri = [i for i in eq if i + 1 in eqs and len({string(int(order[i + d])) for d in range(3)}) == 3]
        if tri and (big or 'M32' not in name):
            got.append(tuple(string(int(order[tri[0] + d])) for d in range(3)))
        elif len(eq) > 1 and big:
            got.append((string(int(order[eq[-1]])), string(int(order[eq[-1] + 1]))))
        for g in got:
            groups.append((name, g))
    return groups


def _hash_groups(big):
    """[(family names, (x, y[, z]))]: equal-length distinct byte strings (valid UTF-8) with equal hash"""
    key = (big, tuple(hot.hot_sizes()), tuple(hot.big_sizes()))
    if key in _hash_cache:
        return _hash_cache[key]
    hot_small = [k for k in hot.hot_sizes() if 2 <= k <= 6000]
    hot_big = list(hot.big_sizes())
    S1 = [t for L in range(1, 5) for t in itertools.product(HASH_ALPHA, repeat=L)]
    A2 = [tuple(c.encode('utf-8')) for c in HASH_ALPHA2] + [(65,), (66,)]
    S2 = [sum(t, ()) for L in range(1, 3) for t in itertools.product(A2, repeat=L)]
    found = {}          # group -> [family names]

    def add(name, g):
        g = tuple(tuple(x) for x in g)
        assert len(set(g)) == len(g) and len(set(len(x) for x in g)) == 1
        found.setdefault(g, []).append(name)
    for name, f, core in _small_families(hot_small, big):
        for S, tag in ((S1, ''), (S2, ':utf8-2byte')):
            if tag and not (big or core):
                continue
            buckets = {}
            for t in S:
                buckets.setdefault((len(t), f(t)), []).append(t)
            picks = _pick(buckets, big)
            for g in (picks if core else picks[:1] + (picks[-1:] if (big and len(picks) > 1) else [])):
                add(name + tag, g)
    # direct constructions: hashes that look at a prefix / suffix / sample of k bytes, at the length, at a product
    ks = ([1, 2, 3, 4, 8, 16, 32, 64, 255, 256] if big else [1, 2, 4, 8, 16]) + [k for k in hot_small if k <= 2100]
    for k in dict.fromkeys(ks):
        add('prefix%d' % k, [(65,) * k + (97,), (65,) * k + (98,)] + ([(65,) * k + (66,)] if k <= 4 else []))
        add('suffix%d' % k, [(97,) + (65,) * k, (98,) + (65,) * k] + ([(66,) + (65,) * k] if k <= 4 else []))
        add('prefix%d+suffix%d' % (k, k), [(65,) * k + (97,) + (66,) * k, (65,) * k + (98,) + (66,) * k])
    add('length', [(97,), (98,), (65,)])
    add('length', [(195, 169), (97, 98), (98, 97)])
    for n_ in ((5, 8, 9) if big else (5,)):
        for pos in (1, n_ - 2):
            add('sampled-positions', [tuple(97 if j == pos else 65 for j in range(n_)), tuple(98 if j == pos else 65 for j in range(n_))])
    for n_ in (32, 64):
        add('product&2^%d' % n_, [(66,) * n_, (98,) * n_, (66, 98) * (n_ // 2)])
    for name, g in _birthday(hot_big, big):
        add(name, g)
    out = [(names, g) for g, names in found.items()]
    for names, g in out:
        for x in g:
            bytes(x).decode('utf-8')          # every member is a valid string
    _hash_cache[key] = out
    return out


def _seqs(vals, nmax):
    for n in range(1, nmax + 1):
        for c in itertools.product(vals, repeat=n):
            yield list(c)


def _gen_hash(tier, rng):
    big = tier == 'thorough'
    k = 0
    # ---- exhaustive: every column of length <= 3 (thorough: 4) over the 16 two-byte strings of {A, B, a, b} (which hold
    #      collisions of h*31+c, h*32+c, h*33+c, of the byte sum and of the byte xor); all 8 flag combinations for the
    #      columns of length <= 2 and those with a repeated value, three (all, none, one rotating) for the others
    P16 = [list(t) for t in itertools.product([65, 66, 97, 98], repeat=2)]
    for n in range(1, 5 if big else 4):
        for col in itertools.product(P16, repeat=n):
            k += 1
            rep = len(set(map(tuple, col))) < n
            fls = FLAGS8 if (n <= 2 or (rep and n == 3) or (big and n == 3)) else \
                (([1, 1, 1], [0, 0, 0], FLAGS8[1 + k % 6]) if n == 3 else (FLAGS8[k % 8],))
            for fl in fls:
                yield {'op': 'unique', 'ft': 'istr', 'level': 'ops', 'col': [list(c) for c in col], 'flags': fl}
    # isin: (column <= 2, <= 1 test) and (column <= 1, 2 tests in both orders): a membership decided by the hash alone,
    # a test that took over another test's slot, a row result remembered under the row's hash
    for n in range(0, 3):
        for col in itertools.product(P16, repeat=n):
            for tests in [[]] + [[t] for t in P16]:
                if n == 2 or tests:
                    yield {'op': 'isin', 'ft': 'istr', 'level': 'ops', 'col': [list(c) for c in col], 'tests': tests,
                           'tkind': 'list', 'via': 'method'}
    for r in P16:
        for t1 in P16:
            for t2 in P16:
                if t1 != t2:
                    yield {'op': 'isin', 'ft': 'istr', 'level': 'ops', 'col': [r], 'tests': [t1, t2], 'tkind': 'list',
                           'via': 'method'}
    # ---- the computed colliding groups of every hash family
    groups = _hash_groups(big)
    for names, g in groups:
        hf = names[0] + ('+%d' % (len(names) - 1) if len(names) > 1 else '')
        G = [list(x) for x in g]                                  # byte strings
        GC = [[ord(c) for c in bytes(x).decode('utf-8')] for x in g]   # the same strings as code points
        L = len(G[0])
        o, o2 = [99], [ord(c) for c in ('c' * L if all(ch < 128 for x in G for ch in x) else 'c')]
        x, y = GC[0], GC[1]
        z = GC[2] if len(GC) > 2 else None
        short = L <= 40
        # unique, operations level: every column over the group up to length 3 (quick, triples: 2), the take-over
        # patterns with all members, mixtures with a string of another length and with a same-length stranger
        cols = list(_seqs(GC, 3 if (short and (big or not z)) else 2))
        if z:
            cols += [[x, y, x], [y, x, y], [x, z, x], [z, y, z], [x, y, z, x], [x, y, z, y], [z, y, x, z, y, x], [x, y, x, z, x]]
        cols += [[o, x, y, x], [x, y, o2, x, y, o2], [y, x, x, y, x]]
        if big:
            cols += [[x, o, y, o, x, y], [o2, y, x, y, o2, x], [x, y] * 3 + [x]]
        for col in cols:
            for fl in (FLAGS8 if short else ([1, 1, 1], [0, 0, 0], FLAGS8[1 + k % 6])):
                yield {'op': 'unique', 'ft': 'istr', 'level': 'ops', 'col': col, 'flags': fl, 'hfam': hf}
            k += 1
        # through real fields (memory- and HDF5-backed), and as fixed strings
        fcols = [[x, y, x], [y, x, y, y, o]] + ([[x, y, z, x]] if z else []) + ([[x, y, y, x, o]] if big else [])
        bx, by = G[0], G[1]
        bz = G[2] if z else None
        bcols = [[bx, by, bx], [by, bx, [99], by]] + ([[bx, by, bz, bx]] if z else []) + ([[bx, by, by, bx]] if big else [])
        for ft, cs in (('istr', fcols), ('fstr', bcols)):
            for col in cs:
                for fl in (FLAGS8 if big else ([1, 1, 1], [0, 0, 0], FLAGS8[1 + k % 6])):
                    k += 1
                    c = {'op': 'unique', 'ft': ft, 'level': 'mem' if (k % 3 or not short) else 'h5', 'col': col, 'flags': fl, 'hfam': hf}
                    if ft == 'fstr':
                        c['strlen'] = L
                    yield c
        # isin: columns over the group, tests = every subset of the group + a stranger + None, in both orders
        tp = GC + [o2, None]
        subs = []
        for kk in range(0, len(tp) + 1):
            for sub in itertools.combinations(range(len(tp)), kk):
                subs.append([tp[j] for j in sub])
        icols = (list(_seqs(GC, 2)) + [[x, y, x], [y, x, y], [x, y, x, o2], [o2, y, x]] if big else [[x], [y], [x, y], [y, x], [x, y, x]]) \
            + ([[x, y, z, x]] if z else [])
        if not short:
            icols = icols[:6]
        for col in icols:
            for sub in subs:
                k += 1
                t = list(sub) if k % 2 else list(sub)[::-1]
                yield {'op': 'isin', 'ft': 'istr', 'level': 'ops', 'col': col, 'tests': t, 'tkind': 'list', 'via': 'method', 'hfam': hf}
                if k % 7 == 0:
                    yield {'op': 'isin', 'ft': 'istr', 'level': 'mem' if k % 3 else 'h5', 'col': col, 'tests': t,
                           'tkind': KINDS4[k % 4], 'via': 'module' if k % 4 == 0 else 'method', 'hfam': hf}
        btp = G + [None]
        for col in ([bx, by, bx], [by, bx]) + (([bx], [by]) if big else ()) + (([bx, by, bz],) if z else ()):
            for kk in range(1, len(btp) + 1):
                for sub in itertools.combinations(range(len(btp)), kk):
                    k += 1
                    t = [btp[j] for j in sub]
                    if k % 2:
                        t = t[::-1]
                    yield {'op': 'isin', 'ft': 'fstr', 'level': 'mem' if k % 3 else 'h5', 'col': col, 'tests': t,
                           'tkind': KINDS4[k % 4], 'via': 'module' if k % 4 == 0 else 'method', 'strlen': L, 'hfam': hf}
    # ---- structured random: several groups in one column, members repeated after their partners
    pool = [g for _, g in groups if len(g[0]) <= 40]
    for _ in range((3000 if big else 300) * (3 if hot.changed() else 1)):
        gs = rng.sample(pool, rng.randint(1, 3))
        vals = [[ord(c) for c in bytes(x_).decode('utf-8')] for g in gs for x_ in g] + [[99], []]
        col = [rng.choice(vals) for _ in range(rng.randint(3, 12))]
        level = rng.choice(['ops', 'ops', 'mem', 'h5'])
        if rng.random() < 0.6:
            yield {'op': 'unique', 'ft': 'istr', 'level': level, 'col': col, 'flags': rng.choice(FLAGS8), 'hfam': 'random-mix'}
        else:
            tests = rng.sample(vals, rng.randint(1, len(vals) - 1)) + [None] * rng.choice([0, 0, 1])
            yield {'op': 'isin', 'ft': 'istr', 'level': level, 'col': col, 'tests': tests,
                   'tkind': 'list' if level == 'ops' else rng.choice(KINDS4),
                   'via': 'method' if level == 'ops' else rng.choice(['method', 'module']), 'hfam': 'random-mix'}


def gen(tier, rng):
    """small scope + malformed stream, then the regions beyond it; the (model-)expensive region cases are spread evenly
    over the sequence because the model shards are contiguous slices of it."""
    base = list(_gen_small(tier, rng))
    heavy, light = [], []
    for c in _gen_regions(tier, rng):
        (heavy if _weight(c) > 600 else light).append(c)
    light += list(_gen_coercion(tier, rng))
    if not os.environ.get('VERIF_C14_NOHASH'):      # (measurement switch: the tier without region (f))
        light += list(_gen_hash(tier, rng))
    base += light
    if not heavy:
        for c in base:
            yield c
        return
    step = max(1, len(base) // len(heavy))
    j = 0
    for i, c in enumerate(base):
        yield c
        if i % step == 0 and j < len(heavy):
            yield heavy[j]
            j += 1
    for c in heavy[j:]:
        yield c


def _weight(case):
    """rough size of a case (bytes / values it carries)"""
    n = 0
    for x in case.get('col', []):
        n += len(x) if isinstance(x, list) else 1
    for x in (case.get('tests') or []):
        n += len(x) if isinstance(x, list) else 1
    return n


def _gen_small(tier, rng):
    big = tier == 'thorough'
    A6 = [_cps(s) for s in ALPHA6]
    AB = [_cps(s) for s in ALPHA_BIG]
    # ---- unique, indexed strings, operations level: all columns over ALPHA6 x all flags
    nmax = 6 if big else 5
    for n in range(0, nmax + 1):
        for col in itertools.product(A6, repeat=n):
            for fl in FLAGS8:
                yield {'op': 'unique', 'ft': 'istr', 'level': 'ops', 'col': list(col), 'flags': fl}
    for fl in FLAGS8:
        yield {'op': 'unique', 'ft': 'istr', 'level': 'ops', 'col': [], 'idx0': 1, 'flags': fl}
    # ---- unique through real fields
    for level in ('mem', 'h5'):
        for n in range(0, (4 if big else 3) + 1):
            for col in itertools.product(A6, repeat=n):
                for fl in FLAGS8:
                    yield {'op': 'unique', 'ft': 'istr', 'level': level, 'col': list(col), 'flags': fl}
    # ---- isin, indexed strings
    T7 = A6 + [None]
    subsets = []
    for k in range(0, 8):
        for sub in itertools.combinations(range(7), k):
            subsets.append([T7[j] for j in sub])
    C7 = A6 + [_cps("abc")]
    for n in range(0, 3):
        for col in itertools.product(C7, repeat=n):
            for sub in subsets:
                sub2 = list(sub)
                rng.shuffle(sub2)
                yield {'op': 'isin', 'ft': 'istr', 'level': 'ops', 'col': list(col), 'tests': sub2, 'tkind': 'list',
                       'via': 'method'}
    kinds = ['list', 'set', 'array']
    k = 0
    for level in ('mem', 'h5'):
        for n in range(0, 3):
            cols = list(itertools.product(A6, repeat=n))
            for col in cols:
                for sub in (subsets if (big or n < 2) else rng.sample(subsets, 24)):
                    k += 1
                    sub2 = list(sub) + ([sub[0]] if (sub and k % 5 == 0) else [])
                    rng.shuffle(sub2)
                    yield {'op': 'isin', 'ft': 'istr', 'level': level, 'col': list(col), 'tests': sub2,
                           'tkind': kinds[k % 3], 'via': 'module' if k % 4 == 0 else 'method'}
    # ---- non-indexed field types
    for ft in PLAIN_FTS:
        pool, extra = _plain_pool(ft)
        ex = _plain_extra(ft)
        for level in ('mem', 'h5'):
            nm = (4 if level == 'mem' else 3) if not big else (5 if level == 'mem' else 4)
            for n in range(0, nm + 1):
                for col in itertools.product(pool, repeat=n):
                    for fl in (FLAGS8 if (level == 'mem' or n <= 2 or big) else [[0, 0, 0], [1, 1, 1], [0, 1, 0]]):
                        yield dict({'op': 'unique', 'ft': ft, 'level': level, 'col': list(col), 'flags': fl}, **ex)
            tp = pool + extra
            tsubs = []
            for kk in range(0, len(tp) + 1):
                for sub in itertools.combinations(range(len(tp)), kk):
                    tsubs.append([tp[j] for j in sub])
            for n in range(0, 3 if level == 'mem' else 2):
                for col in itertools.product(pool, repeat=n):
                    for sub in tsubs:
                        k += 1
                        sub2 = list(sub)
                        rng.shuffle(sub2)
                        yield dict({'op': 'isin', 'ft': ft, 'level': level, 'col': list(col), 'tests': sub2,
                                    'tkind': kinds[k % 3], 'via': 'module' if k % 4 == 0 else 'method'}, **ex)
    # ---- structured random, longer
    for _ in range(6000 if big else 1200):
        n = rng.randint(3, 14)
        pool = rng.sample(AB, rng.randint(2, 9))
        col = [rng.choice(pool) for _ in range(n)]
        level = rng.choice(['ops', 'ops', 'mem', 'h5'])
        if rng.random() < 0.5:
            yield {'op': 'unique', 'ft': 'istr', 'level': level, 'col': col, 'flags': rng.choice(FLAGS8)}
        else:
            tests = rng.sample(AB, rng.randint(1, 16)) + [None] * rng.choice([0, 0, 1, 2])
            if rng.random() < 0.3:
                tests = tests + tests[:2]
            rng.shuffle(tests)
            yield {'op': 'isin', 'ft': 'istr', 'level': level, 'col': col, 'tests': tests,
                   'tkind': 'list' if level == 'ops' else rng.choice(kinds),
                   'via': 'method' if level == 'ops' else rng.choice(['method', 'module'])}
    # columns with more than 16 distinct strings (numpy leaves its small-array insertion sort)
    for _ in range(600 if big else 150):
        n = rng.randint(20, 60)
        pool = rng.sample(AB, rng.randint(17, len(AB)))
        col = [rng.choice(pool) for _ in range(n)]
        level = rng.choice(['ops', 'ops', 'mem', 'h5'])
        if rng.random() < 0.6:
            yield {'op': 'unique', 'ft': 'istr', 'level': level, 'col': col, 'flags': rng.choice(FLAGS8[1:])}
        else:
            tests = rng.sample(AB, rng.randint(17, len(AB))) + [None]
            rng.shuffle(tests)
            yield {'op': 'isin', 'ft': 'istr', 'level': level, 'col': col, 'tests': tests,
                   'tkind': 'list' if level == 'ops' else rng.choice(kinds), 'via': 'method'}
    for _ in range(2000 if big else 400):
        ft = rng.choice(PLAIN_FTS)
        pool, extra = _plain_pool(ft)
        ex = _plain_extra(ft)
        n = rng.randint(3, 12)
        col = [rng.choice(pool) for _ in range(n)]
        level = rng.choice(['mem', 'h5'])
        if rng.random() < 0.5:
            yield dict({'op': 'unique', 'ft': ft, 'level': level, 'col': col, 'flags': rng.choice(FLAGS8)}, **ex)
        else:
            tp = pool + extra
            tests = [rng.choice(tp) for _ in range(rng.randint(0, 6))]
            yield dict({'op': 'isin', 'ft': ft, 'level': level, 'col': col, 'tests': tests, 'tkind': rng.choice(kinds),
                        'via': rng.choice(['method', 'module'])}, **ex)
    # ---- malformed / out-of-domain stream: model vs implementation only
    NUL = [[97, 0], [97], [0], [], [97, 0, 98], [0, 0]]
    for n in range(1, 4):
        for col in itertools.product(NUL, repeat=n):
            if not any(c and c[-1] == 0 for c in col):
                continue
            for fl in ([0, 0, 0], [1, 1, 1]):
                yield {'op': 'unique', 'ft': 'istr', 'level': 'ops', 'col': list(col), 'flags': fl, 'ood': 1}
    for col in itertools.product(NUL[:4], repeat=2):
        for tests in ([[97, 0]], [[97]], [[0], [97, 0]], [[], [0]]):
            yield {'op': 'isin', 'ft': 'istr', 'level': 'ops', 'col': list(col), 'tests': tests, 'tkind': 'list',
                   'via': 'method', 'ood': 1}
    for col in ([], [[97]], [[98], [97]]):
        for level in ('ops', 'mem'):
            yield {'op': 'isin', 'ft': 'istr', 'level': level, 'col': col, 'tests': None, 'tkind': 'list',
                   'via': 'method', 'ood': 1}
    RAW = [([0, 1, 2], [255, 97]), ([0, 2], [195, 40]), ([0, 3], [237, 160, 128]), ([0, 2], [192, 128]),
           ([0, 4], [244, 144, 128, 128]), ([0, 1, 1, 3], [97, 195, 169]), ([0, 2, 1, 3], [97, 98, 99]),
           ([0, 5, 6], [97, 98]), ([1, 2], [97, 98]), ([0, 1, 3], [97, 98]), ([2, 1, 0], [97, 98]),
           ([0], []), ([0, 0, 0], []), ([0, 3], [224, 160, 128]), ([0, 3], [224, 159, 128]),
           ([0, 4], [240, 144, 128, 128]), ([0, 4], [240, 143, 191, 191]), ([0, 1], [128]), ([0, 2], [194, 128])]
    for ind, vals in RAW:
        for fl in ([0, 0, 0], [1, 1, 1]):
            yield {'op': 'unique', 'ft': 'istr', 'level': 'ops', 'raw': {'indices': ind, 'values': vals}, 'flags': fl,
                   'ood': 1}
        yield {'op': 'isin', 'ft': 'istr', 'level': 'ops', 'raw': {'indices': ind, 'values': vals},
               'tests': [[97], [233]], 'tkind': 'list', 'via': 'method', 'ood': 1}


def shrink(case):
    if 'raw' in case:
        return
    col = case['col']
    if len(col) > 8:                       # halves first (long columns)
        for part in (col[:len(col) // 2], col[len(col) // 2:]):
            c = dict(case); c['col'] = part
            yield c
    if case['op'] == 'isin' and case['tests'] and len(case['tests']) > 8:
        t = case['tests']
        for part in (t[:len(t) // 2], t[len(t) // 2:]):
            c = dict(case); c['tests'] = part
            yield c
    for i in range(len(col)):
        c = dict(case); c['col'] = col[:i] + col[i + 1:]
        yield c
    if case['op'] == 'isin' and case['tests']:
        t = case['tests']
        for i in range(len(t)):
            c = dict(case); c['tests'] = t[:i] + t[i + 1:]
            yield c
    if case['op'] == 'unique':
        for j in range(3):
            if case['flags'][j]:
                c = dict(case); c['flags'] = [0 if k == j else x for k, x in enumerate(case['flags'])]
                yield c
    if case['level'] != 'ops' and case['ft'] == 'istr':
        c = dict(case); c['level'] = 'ops'; c['tkind'] = 'list'; c['via'] = 'method'
        yield c
