"""C14 — isin / unique set semantics (operations.py unique_for_indexed_string, get_indexed_string_unique,
isin_for_indexed_string_field, isin_indexed_string_speedup, compare_arrays; fields.py apply_isin / apply_unique)
vs coq/Model/Unique.v and coq/Spec/UniqueSpec.v.

Case forms (all JSON-able):
  {'op':'unique','ft':FT,'level':LV,'col':[...],'flags':[ri,rv,rc]}
  {'op':'isin','ft':FT,'level':LV,'col':[...],'tests':[...]|None,'tkind':'list'|'set'|'array','via':'method'|'module'}
  FT = 'istr' (col = list of code-point lists) | 'fstr' (col = list of byte lists, 'strlen') |
       'int8' | 'int16' | 'int32' | 'int64' | 'uint8' | 'uint16' | 'uint32' | 'uint64' | 'bool' | 'float32' | 'float64' | 'cat' | 'ts'
       (col = ints; float/ts values are quarter units); 'tkind' may also be 'tuple'; 'tdtype' (with tkind 'array') forces
       the dtype of the test ndarray; 'keys' the values of a categorical field
  LV = 'ops' (istr only: the operations.py functions on (indices, values)) | 'mem' (…MemField) | 'h5' (HDF5 field)
  istr/ops cases may carry 'raw': {'indices':[…],'values':[…]} instead of 'col' (malformed stream) and
  'idx0': 1 (an empty column stored as indices=[0] instead of []).
  'ood': 1 marks inputs outside the property's domain (NUL code points, invalid UTF-8, test set None): model vs
  implementation only.
"""
import itertools, math
from harness import hot

PROP, NUM = 'C14', 14
PROPS_FILES = ['Props/C14.v']
MODES = ['jit', 'nojit']
MODES_THOROUGH = ['jit', 'nojit', 'bounds']
LEVEL = 'proof'
TIMEOUT_S = 60.0

ALPHA6 = ["", "a", "ab", "b", "é", "aé"]
# larger alphabet for the structured random phase: equal length / different bytes, prefixes, 2-, 3-, 4-byte
# characters whose code-point order must agree with the byte order (U+E000 < U+FFFD < U+10000), a space, digits
ALPHA_BIG = ALPHA6 + ["ba", "bb", "abc", "ab ", "\u00e8", "\u00ea", "e\u0301", "\u20ac", "\ue000", "\ufffd",
                      "\U00010000", "\U0010ffff", "a\U00010000", "\u07ff", "\u0800", "\x7f", "\x80", "z", "Z", "0"]

RULE = ('exhaustive small scope: unique on every indexed-string column of length <= 5 (quick) / 6 (thorough) over '
        '{"", "a", "ab", "b", "e-acute", "a+e-acute"} x all 8 return_* flag combinations at the operations level, '
        'every column of length <= 3 through real in-memory and HDF5 fields; isin on every column of length <= 2 over '
        '7 strings x all 128 subsets of the 6 strings + None as list, and through real fields as list/set/array; '
        'numeric (int32/int8/bool/float32), categorical, timestamp and fixed-string fields: all columns of length <= 4 '
        'over 4 values x 8 flag combinations, isin over all 64 test subsets incl. None; then seeded random longer '
        'columns (up to 60 rows, up to 26 distinct) over a 26-string alphabet (1- to 4-byte characters, prefixes, equal lengths) and a malformed stream '
        '(NUL code points, invalid UTF-8, inconsistent offsets, test set None). Regions beyond the small scope are covered '
        'systematically: (a) indexed and fixed strings of 255..1000 (thorough: ..4097) UTF-8 bytes on and around the '
        'multiples of 256, in 1-/2-/3-/4-byte-character encodings, with same-length neighbours differing in the last / '
        'first byte and lengths congruent mod 256, every distinct value and every absent same-length value looked up alone; '
        '(b) row counts, distinct counts, multiplicities and test-set sizes 255..300 (thorough: 127..1000); (c) isin on every '
        'non-indexed field type (incl. int64 at its extremes and around 2^53, float64, uint16) for every column of length '
        '<= 3 (mem) / <= 2 (HDF5) over 4 values x all 16 subsets of those values accompanied by 24 further members, as '
        'list / set / ndarray / tuple, so that numpy.isin takes its sort- and table-based algorithms instead of the '
        'per-element loop, plus collection sizes around the switch-over 10 * rows ** 0.145 for 1..100 rows; (d) every '
        'small integer literal that is new in the tree under test (harness/hot.py) is planted as byte length, row count, '
        'distinct count and test-set size (K-1, K, K+1, 2K-1, 2K, 2K+1, 3K), and the random budgets are tripled when any '
        'library source differs from the recorded tree; (e) implicit dtype coercions: for every integer dtype (int8 .. int64, '
        'uint8 .. uint64, categorical) pairs (row value v, test value t != v) that collide under binary64 / binary32 / '
        'binary16 rounding (beyond 2^53, 2^24, 2^11, at the int64 / uint64 extremes), under two\'s complement '
        'reinterpretation at the column\'s width (int64 <-> uint64) and under narrowing to 8 / 16 / 32 bits, each looked up '
        'alone, with a None entry, with a small value, inside 24 further members (narrow and wide), together with v, as '
        'list / set / tuple / ndarray (inferred dtype, every exact explicit integer dtype, object); all pairs at once; '
        'structured random mixtures; the 64-bit small scope (all columns <= 2 over 4 values x all 128 subsets of 7 test '
        'values incl. None). HDF5-backed cases cost ~5 ms each, '
        'hence the smaller bounds at that level. Non-trivial = reaches a planted feature.')
EXHAUSTIVE = {'quick': True, 'thorough': True}
TRUSTED = ['numpy sort/argsort of str arrays (code-point order, trailing NULs insignificant), np.unique, np.isin and '
           'CPython\'s UTF-8 codec are defined in Gallina (Model/Unique.v) and tied to the real ones by this '
           'correspondence only',
           'for non-indexed field types the model of the numpy dispatch IS the specification; the theorem for them is '
           'definitional and the evidence is the differential run; for integer columns the model is the repaired '
           'FieldDataOps._exact_integer_tests (None and out-of-dtype integers dropped) followed by np.isin on two arrays '
           'of one integer dtype = membership (theorem isin_int_exact)']
ASSUMPTIONS = ['strings contain no NUL code point at their end (numpy U/S dtypes drop trailing NULs: finding F-C14b)',
               'no NaN in float/timestamp columns',
               'test-set entries are None or values of the field\'s kind (integers of any magnitude for integer / bool / '
               'categorical fields, inside or outside the column dtype, also beyond uint64; quarter-unit floats; bytes; str); '
               'containers list, set, tuple, ndarray (of the dtype numpy infers when that holds the integers exactly, of an '
               'explicit integer dtype, or of dtype object); a float among the test values of an integer column is outside '
               'the domain (numpy compares in binary64 then)']
TECHNIQUE = ('Coq proof (faithful model of the indexed-string kernels and their Python drivers = sort/unique/membership '
             'specification over UTF-8 bytes) + exhaustive small-scope differential correspondence against /repo')
LEVEL_TEXT = ('Theorems in coq/Props/C14.v prove for all columns, flag combinations and test sets that the Gallina model '
              'of unique_for_indexed_string / get_indexed_string_unique / isin_for_indexed_string_field / '
              'isin_indexed_string_speedup / compare_arrays returns the specified sorted distinct values, '
              'first-occurrence indices, reconstructing inverse, counts and membership flags; the model is tied to '
              '/repo by running the extracted model and the real functions / fields on the same generated cases.')
LEVEL_NOTE = ('Trusted: Coq kernel, extraction, harness. numpy and the UTF-8 codec are modelled in Gallina, not verified. '
              'Non-indexed field types delegate to numpy: for them only the correspondence speaks.')

# integer field types: the range of the column's dtype ('cat' = categorical with int8 values)
INT_RANGE = {'int8': (-2 ** 7, 2 ** 7 - 1), 'int16': (-2 ** 15, 2 ** 15 - 1), 'int32': (-2 ** 31, 2 ** 31 - 1),
             'int64': (-2 ** 63, 2 ** 63 - 1), 'uint8': (0, 2 ** 8 - 1), 'uint16': (0, 2 ** 16 - 1),
             'uint32': (0, 2 ** 32 - 1), 'uint64': (0, 2 ** 64 - 1), 'cat': (-2 ** 7, 2 ** 7 - 1)}
INT_BITS = {'int8': 8, 'int16': 16, 'int32': 32, 'int64': 64, 'uint8': 8, 'uint16': 16, 'uint32': 32, 'uint64': 64,
            'cat': 8}

_np = _ops = _fields = _session = _df = None
_ctr = [0]


def setup():
    global _np, _ops, _fields, _session, _df
    import io, warnings
    warnings.filterwarnings('ignore')
    import numpy as np
    from exetera.core import operations as ops, fields, session as sess
    _np, _ops, _fields = np, ops, fields
    _session = sess.Session()
    ds = _session.open_dataset(io.BytesIO(), 'w', 'ds')
    _df = ds.create_dataframe('df')


def warmup():
    for flags in ([0, 0, 0], [1, 1, 1]):
        run({'op': 'unique', 'ft': 'istr', 'level': 'ops', 'col': [[97], [98], [97]], 'flags': flags})
    run({'op': 'isin', 'ft': 'istr', 'level': 'ops', 'col': [[97], [98]], 'tests': [[97]], 'tkind': 'list', 'via': 'method'})


# ------------------------------------------------------------------------------------------ helpers
def _s(cps):
    return ''.join(chr(c) for c in cps)


def _enc(cps):
    return list(_s(cps).encode('utf-8', 'surrogatepass'))


def storage(case):
    """(indices, values) of an istr case, as the field stores them."""
    if 'raw' in case:
        return list(case['raw']['indices']), list(case['raw']['values'])
    rows = [_enc(c) for c in case['col']]
    if not rows:
        return ([0] if case.get('idx0') else []), []
    ind = [0]
    for r in rows:
        ind.append(ind[-1] + len(r))
    return ind, [b for r in rows for b in r]


def _ticks(x):
    y = float(x) * 4
    if y != int(y):
        raise AssertionError('non-quarter value %r' % (x,))
    return int(y)


def _mk_field(case):
    """Create a real field holding the column."""
    np, fields = _np, _fields
    ft, level, col = case['ft'], case['level'], case['col']
    _ctr[0] += 1
    name = 'f%d' % _ctr[0]
    h5 = level == 'h5'
    if ft == 'istr':
        f = _df.create_indexed_string(name) if h5 else fields.IndexedStringMemField(_session)
        f.data.write([_s(c) for c in col])
    elif ft == 'fstr':
        n = case['strlen']
        f = _df.create_fixed_string(name, n) if h5 else fields.FixedStringMemField(_session, n)
        f.data.write(np.array([bytes(c) for c in col], dtype='S%d' % n))
    elif ft == 'cat':
        keys = {'k%d' % v: v for v in case['keys']}
        f = _df.create_categorical(name, 'int8', keys) if h5 else fields.CategoricalMemField(_session, 'int8', keys)
        f.data.write(np.array(col, dtype=np.int8))
    elif ft == 'ts':
        f = _df.create_timestamp(name) if h5 else fields.TimestampMemField(_session)
        f.data.write(np.array([c / 4 for c in col], dtype=np.float64))
    else:
        data = np.array([c / 4 for c in col], dtype=ft) if ft.startswith('float') else np.array(col, dtype=ft)
        f = _df.create_numeric(name, ft) if h5 else fields.NumericMemField(_session, ft)
        f.data.write(data)
    return f, (name if h5 else None)


def _canon_values(ft, arr):
    if ft == 'istr':
        return [list(str(x).encode('utf-8', 'surrogatepass')) for x in arr]
    if ft == 'fstr':
        return [list(bytes(x)) for x in arr]
    if ft == 'ts' or ft.startswith('float'):
        return [_ticks(x) for x in arr]
    return [int(x) for x in arr]


def _tests_obj(case):
    """The test_elements object handed to isin."""
    np = _np
    ft, tests, kind = case['ft'], case['tests'], case.get('tkind', 'list')
    if tests is None:
        return None

    def conv(t):
        if t is None:
            return None
        if ft == 'istr':
            return _s(t)
        if ft == 'fstr':
            return bytes(t)
        if ft == 'ts' or ft.startswith('float'):
            return t / 4
        if ft == 'bool':
            return bool(t) if t in (0, 1) else int(t)
        return int(t)
    l = [conv(t) for t in tests]
    if kind == 'set':
        return set(l)
    if kind == 'tuple':
        return tuple(l)
    if kind == 'array':
        if case.get('tdtype'):
            return np.array(l, dtype=case['tdtype'])
        if any(x is None for x in l) or not l:
            return np.array(l, dtype=object)
        a = np.array(l)
        if a.dtype.kind == 'f' and ft in INT_RANGE:
            # numpy types a mixture of values >= 2**63 and smaller ones float64: that array would not hold the
            # case's integers any more; hand over the integers themselves
            a = np.array(l, dtype=object)
        return a
    return l


def run(case):
    np, ops = _np, _ops
    op, ft, level = case['op'], case['ft'], case['level']
    name = None
    try:
        if level == 'ops':
            ind, vals = storage(case)
            indices = np.array(ind, dtype=np.int64)
            values = np.array(vals, dtype=np.uint8)
            if op == 'unique':
                ri, rv, rc = (bool(x) for x in case['flags'])
                r = ops.unique_for_indexed_string(indices, values, ri, rv, rc)
            else:
                r = ops.isin_for_indexed_string_field(_tests_obj(case), indices, values)
        else:
            f, name = _mk_field(case)
            if op == 'unique':
                ri, rv, rc = (bool(x) for x in case['flags'])
                r = f.unique(return_index=ri, return_inverse=rv, return_counts=rc)
            elif case.get('via') == 'module':
                r = _fields.isin(f, _tests_obj(case))
                if not isinstance(r, _fields.NumericMemField):
                    raise AssertionError('fields.isin did not return a NumericMemField')
                r = r.data[:]
            else:
                r = f.isin(_tests_obj(case))
        if op == 'isin':
            r = np.asarray(r)
            if r.dtype != np.bool_:
                raise AssertionError('isin result dtype %s' % r.dtype)
            return [1 if x else 0 for x in r]
        flags = case['flags']
        nret = 1 + sum(1 for x in flags if x)
        if nret == 1:
            if isinstance(r, tuple):
                raise AssertionError('tuple returned without flags')
            parts = [r]
        else:
            if not isinstance(r, tuple) or len(r) != nret:
                raise AssertionError('expected a %d-tuple' % nret)
            parts = list(r)
        out = [_canon_values(ft, parts[0]), None, None, None]
        k = 1
        for j in range(3):
            if flags[j]:
                out[j + 1] = [int(x) for x in parts[k]]
                k += 1
        return out
    finally:
        if name is not None:
            try:
                del _df[name]
            except Exception:
                pass


# ------------------------------------------------------------------------------------------ wire
def _opt(x):
    return [] if x is None else [x]


def to_val(case):
    op, ft = case['op'], case['ft']
    if op == 'unique':
        fl = [int(bool(x)) for x in case['flags']]
        if ft == 'istr':
            ind, vals = storage(case)
            return [1, 1, ind, vals] + fl
        if ft == 'fstr':
            return [2, 1, case['col']] + fl
        return [2, 0, case['col']] + fl
    tests = case['tests']
    if ft == 'istr':
        ind, vals = storage(case)
        return [3, ind, vals, ([] if tests is None else [[_opt(t) for t in tests]])]
    if ft in INT_RANGE:      # integer column: the repaired code filters the test values by the column's dtype
        lo, hi = INT_RANGE[ft]
        return [5, lo, hi, case['col'], [_opt(t) for t in tests]]
    return [4, 1 if ft == 'fstr' else 0, case['col'], [_opt(t) for t in tests]]


def _dec_ures(v):
    u, i, w, c = v
    return [u, (i[0] if i else None), (w[0] if w else None), (c[0] if c else None)]


def from_val(case, v):
    from harness.core import decode_err
    m, s = v
    e = decode_err(m)
    if case['op'] == 'unique':
        model = e if e is not None else _dec_ures(m)
        spec = _dec_ures(s)
    else:
        model = e if e is not None else m
        spec = s
    if case.get('ood'):
        return model
    return (model, spec)


# ------------------------------------------------------------------------------------------ features
def _first_occ_perm(rows):
    """permutation indices_sort: sorted position -> first-occurrence position of the distinct rows."""
    d = []
    for r in rows:
        if r not in d:
            d.append(r)
    order = sorted(range(len(d)), key=lambda k: d[k])
    return d, order


def features(case, model):
    f = ['%s:%s:%s' % (case['op'], case['ft'], case['level'])]
    if isinstance(model, str):
        f.append('err:' + model.split(':')[0])
    if case.get('ood'):
        f.append('out-of-domain')
    if 'raw' in case:
        f.append('raw-storage')
        return f
    col = case['col']
    ft = case['ft']
    rows = [tuple(_enc(c)) for c in col] if ft == 'istr' else [tuple(c) if isinstance(c, list) else c for c in col]
    if not rows:
        f.append('empty-column')
    if len(set(rows)) < len(rows):
        f.append('duplicates')
    if len(rows) >= 256: f.append('rows>=256')
    if len(set(rows)) >= 256: f.append('distinct>=256')
    if ft in ('istr', 'fstr'):
        mx = max([len(r) for r in rows] + [0])
        if mx >= 256: f.append('row-bytes>=256')
        if mx >= 512: f.append('row-bytes>=512')
        ds_ = set(rows)
        if any(len(a) >= 256 and len(a) == len(b) and a[:-1] == b[:-1] and a != b for a in ds_ for b in ds_):
            f.append('long-rows-differ-in-last-byte')
        if any(len(a) >= 256 and len(a) != len(b) and (len(a) - len(b)) % 256 == 0 for a in ds_ for b in ds_):
            f.append('row-lengths-congruent-mod-256')
    if ft == 'istr' and any(len(c) != len(r) and len(r) >= 256 for c, r in zip(col, rows)):
        f.append('long-row-chars!=bytes')
    if ft in ('int64', 'uint64') and any(abs(r) > 2 ** 53 for r in rows): f.append('beyond-2^53')
    if ft == 'istr':
        if any(len(r) == 0 for r in rows): f.append('empty-string')
        if any(any(b >= 128 for b in r) for r in rows): f.append('multi-byte')
        if any(any(b >= 240 for b in r) for r in rows): f.append('4-byte-char')
        ds = list(dict.fromkeys(rows))
        if any(a != b and len(a) == len(b) for a in ds for b in ds): f.append('equal-length-different-bytes')
        if any(a != b and b[:len(a)] == a for a in ds for b in ds): f.append('prefix-pair')
    if case['op'] == 'unique':
        f.append('flags:%d%d%d' % tuple(int(bool(x)) for x in case['flags']))
        d, order = _first_occ_perm(rows)
        if len(d) > 16: f.append('>16-distinct')
        if rows and max(rows.count(x) for x in d) >= 256: f.append('multiplicity>=256')
        if order != list(range(len(d))): f.append('sort-permutes')
        if any(order[order[k]] != k for k in range(len(d))): f.append('sort-perm-not-involution')
        if ft == 'istr':
            # states of the scan: a row whose length was seen before but whose bytes are new / old
            seen_len, seen = set(), []
            for r in rows:
                if len(r) not in seen_len:
                    seen_len.add(len(r)); seen.append(r); continue
                if r in seen:
                    f.append('scan-hit-at-%s' % ('0' if seen.index(r) == 0 else 'later'))
                else:
                    f.append('scan-miss-same-length'); seen.append(r)
            f = list(dict.fromkeys(f))
    else:
        tests = case['tests']
        if tests is None:
            f.append('tests-None')
            return f
        f.append('tkind:' + case.get('tkind', 'list'))
        f.append('via:' + case.get('via', 'method'))
        real = [t for t in tests if t is not None]
        if len(real) < len(tests): f.append('tests-with-None')
        if not tests: f.append('tests-empty')
        if tests and not real: f.append('tests-all-None')
        keyf = (lambda t: tuple(_enc(t))) if ft == 'istr' else (lambda t: tuple(t) if isinstance(t, list) else t)
        tk = [keyf(t) for t in real]
        if len(set(tk)) < len(tk): f.append('tests-duplicates')
        if len(set(tk)) >= 4: f.append('tests>=4-distinct')
        if len(set(tk)) >= 8: f.append('tests>=8-distinct')
        if len(set(tk)) > 16: f.append('tests>16-distinct')
        hit = [r in set(tk) for r in rows]
        if any(hit): f.append('row-hit')
        if not all(hit) and rows: f.append('row-miss')
        if len(set(tk)) >= 256: f.append('tests>=256-distinct')
        rg = dict(INT_RANGE, bool=(0, 1)).get(ft)
        if ft in INT_RANGE or ft in ('float32', 'float64', 'ts'):
            f += _coercion_features(case, rows, tk, len(real) < len(tests))
        if rg and any(not (rg[0] <= t <= rg[1]) for t in tk): f.append('test-value-outside-column-dtype')
        if len(set(tk)) >= max(_near_sort_threshold(len(rows)), 1):
            f.append('tests>=numpy-sort-threshold')     # np.isin leaves its per-element loop (non-object dtypes)
            if any((not h) and rows.count(r) > 1 for r, h in zip(rows, hit)): f.append('large-tests+duplicated-absent-row')
            if any(h and rows.count(r) > 1 for r, h in zip(rows, hit)): f.append('large-tests+duplicated-member-row')
        if ft in ('istr', 'fstr') and tk:
            if any(len(t) >= 256 for t in tk): f.append('test-bytes>=256')
            if any(len(r) >= 256 and h for r, h in zip(rows, hit)): f.append('long-row-hit')
            if any(len(r) >= 256 and not h and any(len(t) == len(r) for t in tk) for r, h in zip(rows, hit)):
                f.append('long-row-miss-same-length-test')
            if any(len(r) >= 256 and not h and any(len(t) != len(r) and (len(t) - len(r)) % 256 == 0 for t in tk)
                   for r, h in zip(rows, hit)):
                f.append('long-row-miss-test-length-congruent-mod-256')
        if ft == 'istr' and tk:
            if any(r not in tk and any(t[:len(r)] == r for t in tk) for r in rows): f.append('row-is-proper-prefix-of-test')
            if any(r not in tk and any(r[:len(t)] == t for t in tk) for r in rows): f.append('test-is-proper-prefix-of-row')
            if any(r < min(tk) for r in rows): f.append('row-below-all-tests')
            if any(r > max(tk) for r in rows): f.append('row-above-all-tests')
    return f


def _f32(z):
    import struct
    try:
        return struct.unpack('f', struct.pack('f', float(z)))[0]
    except OverflowError:
        return float('inf') if z > 0 else float('-inf')


def _collide(a, b):
    """the coercions under which the distinct integers a, b become equal"""
    out = []
    if float(a) == float(b): out.append('float64')
    if _f32(a) == _f32(b): out.append('float32')
    for w in (64, 32, 16, 8):
        if (a - b) % (1 << w) == 0:
            out.append('mod-2^%d' % w)
            break
    return out


def _coercion_features(case, rows, tk, has_none):
    """a row that is NOT a member but would be one under an implicit coercion of the column or of the test values
    (binary64 / binary32 rounding, two's complement reinterpretation or narrowing at 64 / 32 / 16 / 8 bits)"""
    ft = case['ft']
    if ft not in INT_RANGE:         # float columns hold quarter units: compare the values
        if len(rows) * len(tk) > 4000:
            return []
        rows = [r / 4 for r in rows]
        tk = [t / 4 for t in tk]
    tks = set(tk)
    if len(rows) * len(tk) > 40000:
        return []
    kinds = set()
    for r in set(rows):
        if r in tks:
            continue
        for t in tks:
            if ft in INT_RANGE:
                kinds.update(_collide(r, t))
            elif _f32(r) == _f32(t):
                kinds.add('float32')
    out = []
    tkind = case.get('tkind', 'list') + (':' + case['tdtype'] if case.get('tdtype') else '')
    for kd in sorted(kinds):
        out.append('nonmember-row-collides-under:' + kd)
        out.append('nonmember-row-collides-under:%s%s' % (kd, '+None' if has_none else '-noNone'))
    if kinds:
        out.append('collision:%s:%s:%s' % (ft, tkind, 'None' if has_none else 'noNone'))
        if any(abs(x) > 2 ** 53 for x in tks) and ft in INT_RANGE: out.append('test-value-beyond-2^53')
    if ft in INT_RANGE:
        lo, hi = INT_RANGE[ft]
        if any(r in (lo, hi) for r in rows) and INT_BITS[ft] == 64: out.append('row-at-64-bit-extreme')
        if any(abs(r) > 2 ** 53 for r in rows): out.append('row-beyond-2^53')
    return out


_ADMIN = ('unique:', 'isin:', 'flags:', 'tkind:', 'via:')


def nontrivial(case, model):
    """reaches at least one planted feature other than the bookkeeping ones (category, flags, container kind)."""
    return model != 'BADCASE' and any(not x.startswith(_ADMIN) for x in features(case, model))


def known(case, impl, model, spec, mode):
    return None


# ------------------------------------------------------------------------------------------ generators
def _cps(s):
    return [ord(c) for c in s]


FLAGS8 = [list(f) for f in itertools.product([0, 1], repeat=3)]
PLAIN_FTS = ['int32', 'int8', 'bool', 'float32', 'cat', 'ts', 'fstr']


def _plain_pool(ft):
    if ft == 'bool':
        return [0, 1], [None]
    if ft == 'cat':
        return [0, 1, 5, -3], [None, 2]
    if ft == 'fstr':
        return [[], [97], [97, 98], [98]], [None, [99]]
    if ft in ('ts', 'float32'):
        return [0, 6, -5, 4000], [None, 7]
    if ft == 'int8':
        return [0, -128, 127, 3], [None, 5]
    if ft == 'int64':       # dtype extremes and neighbours beyond 2^53 (not representable as binary64)
        return [0, -2 ** 63, 2 ** 63 - 1, 2 ** 53 + 1], [None, 2 ** 53]
    if ft == 'float64':     # quarter units: 2^56 ticks = 2^54
        return [0, 6, -5, 2 ** 56], [None, 7]
    if ft == 'uint16':
        return [0, 65535, 256, 3], [None, 255]
    return [0, -7, 2 ** 31 - 1, 3], [None, 5]


def _plain_extra(ft):
    d = {}
    if ft == 'fstr':
        d['strlen'] = 2
    if ft == 'cat':
        d['keys'] = [0, 1, 5, -3, 2]
    return d


# ------------------------------------------------------------------------------------------ regions beyond the small scope
# (a) byte lengths >= 256 (one-byte length tables, `& 255`, `min(len, 255)`, uint8 counters): rows and test strings whose
#     UTF-8 length sits on / around multiples of 256 and powers of two, in four encodings (1- to 4-byte characters, so
#     that characters != bytes), with same-length neighbours that differ in the last / first byte and prefix pairs;
# (b) row counts, distinct counts and multiplicities >= 256;
# (c) test collections large enough for numpy to leave its per-element loop (np.isin switches to a sort- or table-based
#     algorithm at len(tests) >= 10 * rows ** 0.145), for every container form, with duplicated column values inside and
#     outside the collection;
# (d) whatever small literal is NEW in the tree under test (harness/hot.py) is planted as a byte length, a row count, a
#     distinct count and a test-collection size.
LEN_EDGES_Q = [255, 256, 257, 300, 511, 512, 513, 1000]
LEN_EDGES_T = [254, 255, 256, 257, 258, 300, 383, 384, 511, 512, 513, 767, 768, 769, 1000, 1023, 1024, 1025, 2047, 2048,
               2049, 4095, 4096, 4097]
COUNT_EDGES_Q = [255, 256, 257, 300]
COUNT_EDGES_T = [127, 128, 129, 255, 256, 257, 300, 511, 512, 513, 1000]
KINDS4 = ['list', 'set', 'array', 'tuple']
PLAIN_FTS_X = PLAIN_FTS + ['int64', 'float64', 'uint16']
_UNITS = ['n', 'é', '€', '\U00010000']      # 1-, 2-, 3-, 4-byte characters


def _hot_edges(cap):
    out = []
    for k in hot.hot_sizes():
        for v in (k - 1, k, k + 1, 2 * k - 1, 2 * k, 2 * k + 1, 3 * k):
            if 1 <= v <= cap and v not in out:
                out.append(v)
    return out


def _long(nbytes, style=0, tail='n', head=None):
    """code points of a string of exactly `nbytes` UTF-8 bytes: a body of `style+1`-byte characters, padded with 'n',
    ending in the ASCII character `tail` (and starting with `head` when given)."""
    if nbytes <= 0:
        return []
    pre = head if (head and nbytes >= 2) else ''
    n = nbytes - 1 - len(pre)
    w = style + 1
    body = _UNITS[style] * (n // w) + 'n' * (n % w)
    return _cps(pre + body + tail)


def _near_sort_threshold(nrows):
    """the smallest test-collection size at which np.isin leaves its per-element loop for `nrows` rows"""
    return int(math.ceil(10 * (max(nrows, 0) ** 0.145))) if nrows > 0 else 0


def _padding(ft, m, wide, rng=None):
    """m distinct values of the field type that are in neither _plain_pool(ft) list"""
    if ft == 'bool':
        return []
    m = min(m, 1800)        # every value below stays inside its dtype (and exact in float32)
    if ft in ('int8', 'cat'):
        return [10 + i for i in range(min(m, 100))]
    if ft == 'uint8':
        return [10 + i for i in range(min(m, 200))]
    if ft == 'int16':
        return [1000 + (17 if wide else 1) * i for i in range(m)]
    if ft == 'uint64':      # wide: members on both sides of 2^63 (numpy types such a list float64)
        return [2 ** 53 + 2 + i for i in range(m)] if not wide else [(2 ** 62 if i % 2 == 0 else 2 ** 63) + (2 ** 52 + 12345) * i for i in range(m)]
    if ft == 'uint32':
        return [100 + i for i in range(m)] if not wide else [100000 + 2000003 * i for i in range(m)]
    if ft == 'fstr':
        return [[99 + i // 12, 99 + i % 12] for i in range(m)]
    if ft in ('ts', 'float32', 'float64'):
        return [100 + (3 if not wide else 4001) * i for i in range(m)]
    if ft == 'uint16':
        return [1000 + (37 if wide else 1) * i for i in range(m)]
    if ft == 'int64':
        return [2 ** 53 + 2 + i for i in range(m)] if not wide else [2 ** 40 + 12345678901 * i for i in range(m)]
    step = min(7919 * 1000, (2 ** 31 - 1 - 100000) // max(m, 1))
    return [100 + i for i in range(m)] if not wide else [100000 + step * i for i in range(m)]


def _aliases(ft):
    """test values just outside the column dtype that a cast to that dtype would fold onto members of _plain_pool(ft)"""
    if ft in ('int8', 'cat'):
        return [256, 128, -129, 259, -253, 383]
    if ft == 'uint16':
        return [65536, -1, 65536 + 256, 65539, -65533]
    if ft == 'int32':
        return [2 ** 32, 2 ** 31, 2 ** 32 - 7, 2 ** 32 + 3, -2 ** 31 - 1]
    if ft == 'bool':
        return [2, -1, 256]
    return []


def _gen_regions(tier, rng):
    big = tier == 'thorough'
    boost = 3 if hot.changed() else 1
    hot_l = _hot_edges(6000 if big else 2100)
    edges = (LEN_EDGES_T if big else LEN_EDGES_Q) + [v for v in hot_l if v not in (LEN_EDGES_T if big else LEN_EDGES_Q)]
    k = 0
    # ---- (a) long indexed strings: isin.  One column per encoding holding, for every edge length, the string ending in
    #      'n' (twice for the first edges), its same-length neighbour ending in 'm', short strings; each distinct value is
    #      looked up alone, then each absent same-length value, then mixtures.
    for style in range(4):
        ed = edges if style < 2 else (edges[::2] if big else edges[:6])
        col = [_cps('a'), []]
        for j, L in enumerate(ed):
            col.append(_long(L, style, 'n'))
            if j % 2 == 0:
                col.append(_long(L, style, 'm'))
            if j < 3:
                col.append(_long(L, style, 'n'))
        col += [_cps('bb'), _long(ed[0], style, 'n', head='m'), _cps('a')]
        distinct = []
        for c in col:
            if c not in distinct:
                distinct.append(c)
        absent = [_long(L, style, 'q') for L in ed] + [_long(L, (style + 1) % 4, 'n') for L in ed[:4]] \
            + [_long(L + 1, style, 'n') for L in ed if (L + 1) not in ed][:4]
        lookups = [[d] for d in distinct] + [[a] for a in absent]
        longs = [d for d in distinct if len(_enc(d)) >= 200]
        lookups += [list(distinct), list(longs), [_cps('a'), longs[0], None, _cps('zz')], absent[:6] + [None],
                    longs[1::2] + absent[::2] + [longs[1]], [None, longs[-1]], distinct[::-1] + absent]
        for tests in lookups:
            k += 1
            yield {'op': 'isin', 'ft': 'istr', 'level': 'ops', 'col': col, 'tests': tests, 'tkind': 'list', 'via': 'method'}
            if k % 3 == 0 or len(tests) > 3:
                yield {'op': 'isin', 'ft': 'istr', 'level': 'mem' if k % 2 else 'h5', 'col': col, 'tests': tests,
                       'tkind': KINDS4[k % 4], 'via': 'module' if k % 4 == 0 else 'method'}
        # every (row length, test length) pair of edges, bodies identical: membership iff the lengths are equal
        for Lr in ed:
            yield {'op': 'isin', 'ft': 'istr', 'level': 'ops', 'col': [_long(Lr, style, 'n'), _cps('n')],
                   'tests': [_long(Lt, style, 'n') for Lt in ed if Lt != Lr], 'tkind': 'list', 'via': 'method'}
    # ---- (a) long indexed strings: unique
    for style in range(4):
        ed = edges if style < 2 else (edges[::2] if big else edges[:6])
        for j, L in enumerate(ed):
            L2 = ed[(j + 1) % len(ed)]
            col = [_long(L, style, 'n'), _cps('a'), _long(L, style, 'm'), _long(L, style, 'n'), _long(L2, style, 'n'),
                   _long(L, style, 'n', head='m'), _long(L, style, 'm')]
            for fl in ([1, 1, 1], [0, 0, 0], FLAGS8[1 + (j + style) % 6]):
                k += 1
                yield {'op': 'unique', 'ft': 'istr', 'level': ['ops', 'ops', 'mem', 'h5'][k % 4], 'col': col, 'flags': fl}
        allc = []
        for L in ed:
            allc += [_long(L, style, 'n'), _long(L, style, 'm')]
        allc = allc + allc[::3] + [[], _cps('a')]
        for fl in (FLAGS8 if big else [[1, 1, 1], [0, 1, 0], [1, 0, 1]]):
            c2 = list(allc)
            rng.shuffle(c2)
            k += 1
            yield {'op': 'unique', 'ft': 'istr', 'level': ['ops', 'mem', 'h5'][k % 3], 'col': c2, 'flags': fl}
    # ---- (a) structured random: lengths from the edges, their +-1 / +-256 neighbours and short ones
    pool_l = sorted(set(edges + [e + d for e in edges for d in (-256, 256, 1) if e + d > 0] + [0, 1, 2, 3]))
    for _ in range((1500 if big else 160) * boost):
        st = [rng.randrange(4), rng.randrange(4)]
        lens = rng.sample(pool_l, rng.randint(2, 4)) + rng.sample(edges, 2)
        vals = [_long(rng.choice(lens), rng.choice(st), rng.choice('nm')) for _ in range(rng.randint(2, 6))]
        col = [rng.choice(vals) for _ in range(rng.randint(3, 12))]
        level = rng.choice(['ops', 'ops', 'mem', 'h5'])
        if rng.random() < 0.4:
            yield {'op': 'unique', 'ft': 'istr', 'level': level, 'col': col, 'flags': rng.choice(FLAGS8)}
        else:
            near = [_long(rng.choice(lens), rng.choice(st), rng.choice('nmq')) for _ in range(rng.randint(0, 4))]
            tests = rng.sample(vals, rng.randint(1, len(vals))) + near + [None] * rng.choice([0, 0, 1])
            rng.shuffle(tests)
            yield {'op': 'isin', 'ft': 'istr', 'level': level, 'col': col, 'tests': tests,
                   'tkind': 'list' if level == 'ops' else rng.choice(KINDS4),
                   'via': 'method' if level == 'ops' else rng.choice(['method', 'module'])}
    # ---- (a) fixed strings of 256 and more bytes
    for n in ([256, 300] + ([257, 512, 1000] if big else []) + [v for v in hot_l if 2 <= v <= 2100][:3]):
        vals = [[110] * (n - 1) + [110], [110] * (n - 1) + [109], [110] * (n - 1), [109] + [110] * (n - 1), [97], [],
                [110] * 255, [110] * min(n, 256)]
        for lv in ('mem', 'h5'):
            for col in ([vals[0], vals[1], vals[0], vals[2], vals[3]], [vals[6], vals[7], vals[4], vals[5], vals[1], vals[7]]):
                for fl in ([1, 1, 1], [0, 0, 0]):
                    yield {'op': 'unique', 'ft': 'fstr', 'level': lv, 'col': col, 'flags': fl, 'strlen': n}
                for tests in ([vals[0]], [vals[1], None], [vals[2], vals[3]], [vals[6]], [vals[7], vals[4]], vals[:6]):
                    k += 1
                    yield {'op': 'isin', 'ft': 'fstr', 'level': lv, 'col': col, 'tests': tests, 'tkind': KINDS4[k % 4],
                           'via': 'module' if k % 4 == 0 else 'method', 'strlen': n}
    # ---- (b) row counts / distinct counts / multiplicities >= 256
    cedges = (COUNT_EDGES_T if big else COUNT_EDGES_Q) + [v for v in _hot_edges(4000 if big else 700)
                                                         if v not in (COUNT_EDGES_T if big else COUNT_EDGES_Q) and v >= 4]
    words = [_cps(a + b) for a in 'abcdefghijklmnopqrstuvwxyzé€' for b in ['', 'a', 'b', 'é', 'zz', 'c', 'ab']] \
        + [_cps(a + b + c) for a in 'abcdefghij' for b in 'klmnopqrst' for c in 'uvwxyzé€01']
    words = [w for j, w in enumerate(words) if w not in words[:j]]
    for d in cedges:
        lv = ['ops', 'mem', 'h5'][k % 3]
        k += 1
        dist = rng.sample(words, min(d, len(words)))
        col = dist + [rng.choice(dist) for _ in range(rng.randint(0, 40))]
        rng.shuffle(col)
        for fl in ([1, 1, 1], FLAGS8[1 + k % 6]):
            yield {'op': 'unique', 'ft': 'istr', 'level': lv, 'col': col, 'flags': fl}
        # one value d times (multiplicity >= 256) among a few others
        col2 = [dist[0]] * d + dist[1:4] * 2
        rng.shuffle(col2)
        yield {'op': 'unique', 'ft': 'istr', 'level': lv, 'col': col2, 'flags': [1, 1, 1]}
        yield {'op': 'isin', 'ft': 'istr', 'level': lv, 'col': col2[:40] + dist[4:8], 'tests': dist[1:d] + [None],
               'tkind': 'list' if lv == 'ops' else KINDS4[k % 4], 'via': 'method'}
        yield {'op': 'isin', 'ft': 'istr', 'level': lv, 'col': col, 'tests': dist[::2], 'tkind': 'list' if lv == 'ops' else
               KINDS4[(k + 1) % 4], 'via': 'method'}
        for ft in ('int8', 'int32', 'int64', 'float64', 'fstr', 'ts'):
            pool, _e = _plain_pool(ft)
            ex = _plain_extra(ft)
            pad = _padding(ft, d, k % 2 == 0)
            lv2 = 'mem' if k % 2 else 'h5'
            k += 1
            colp = [pool[k % 2]] * d + pool + pad[:3]          # one value d times: multiplicity >= 256
            rng.shuffle(colp)
            yield dict({'op': 'unique', 'ft': ft, 'level': lv2, 'col': colp, 'flags': [1, 1, 1]}, **ex)
            if len(pad) >= d:
                cold = pad + pool + [rng.choice(pad) for _ in range(20)]
                rng.shuffle(cold)
                yield dict({'op': 'unique', 'ft': ft, 'level': lv2, 'col': cold, 'flags': FLAGS8[1 + k % 7]}, **ex)
                yield dict({'op': 'isin', 'ft': ft, 'level': lv2, 'col': colp[:50] + pad[:6] + pad[:3], 'tests': pad[2:d] + pool[1:2],
                            'tkind': KINDS4[k % 4], 'via': 'method'}, **ex)
    # ---- (c) non-indexed isin with a large test collection: exhaustive columns x every subset of the pool, each time
    #      accompanied by 24 padding members (numpy's sort / table algorithms instead of the per-element loop)
    for ft in PLAIN_FTS_X:
        pool, extra = _plain_pool(ft)
        ex = _plain_extra(ft)
        subs = []
        for kk in range(0, len(pool) + 1):
            for sub in itertools.combinations(range(len(pool)), kk):
                subs.append([pool[j] for j in sub])
        for level in ('mem', 'h5'):
            for n in range(0, ((4 if level == 'mem' else 3) if big else (3 if level == 'mem' else 2)) + 1):
                for col in itertools.product(pool, repeat=n):
                    for sub in subs:
                        k += 1
                        pad = _padding(ft, 24, k % 2 == 0)
                        if ft == 'bool':
                            pad = list(sub) * 12
                        kinds = KINDS4[:3] if (n <= 2 and level == 'mem') else [KINDS4[k % 3]]
                        al = _aliases(ft)
                        for kind in kinds:
                            t = pad + list(sub) + ([None] if k % 11 == 0 else []) + (pad[:2] if k % 5 == 0 else []) \
                                + (al[k % 2::2] if (al and k % 3 == 0) else [])
                            rng.shuffle(t)
                            yield dict({'op': 'isin', 'ft': ft, 'level': level, 'col': list(col), 'tests': t, 'tkind': kind,
                                        'via': 'module' if k % 4 == 0 else 'method'}, **ex)
        # sizes around numpy's switch-over for growing row counts, and around the new literals of the tree under test
        rows_list = [1, 2, 3, 5, 8, 13, 30, 100] + ([300, 1000] if big else []) + _hot_edges(1200)[:6]
        for nrows in rows_list:
            thr = _near_sort_threshold(nrows)
            sizes = [thr - 1, thr, thr + 1, 2 * thr + 3] + _hot_edges(400)[:4]
            for m in sizes:
                for kind in KINDS4:
                    k += 1
                    pad = _padding(ft, m + 4, k % 2 == 0)
                    members = rng.sample(pool, rng.randint(0, len(pool) - 1))
                    t = (pad[4:4 + max(m - len(members), 0)] + members) if ft != 'bool' else (members * max(m // 2, 1))[:max(m, 1)]
                    colv = [p for p in pool] + pad[:4]
                    col = [rng.choice(colv) for _ in range(nrows)]
                    rng.shuffle(t)
                    yield dict({'op': 'isin', 'ft': ft, 'level': 'mem' if k % 3 else 'h5', 'col': col, 'tests': t,
                                'tkind': kind, 'via': 'module' if k % 4 == 0 else 'method'}, **ex)
    # structured random, all field types incl. indexed strings: 8..48 test values, rows with duplicates
    for _ in range((3000 if big else 500) * boost):
        ft = rng.choice(PLAIN_FTS_X + ['istr'])
        nrows = rng.choice([1, 2, 3, 4, 6, 10, 20, 40])
        m = rng.randint(8, 48)
        level = rng.choice(['mem', 'mem', 'h5'])
        kind = rng.choice(KINDS4)
        via = rng.choice(['method', 'method', 'module'])
        if ft == 'istr':
            AB = [_cps(s_) for s_ in ALPHA_BIG]
            extra_words = words[:60]
            colv = rng.sample(AB, 5) + rng.sample(extra_words, 3)
            col = [rng.choice(colv) for _ in range(nrows)]
            t = rng.sample(AB + extra_words, min(m, len(AB) + len(extra_words)))
            yield {'op': 'isin', 'ft': 'istr', 'level': level, 'col': col, 'tests': t, 'tkind': kind, 'via': via}
            continue
        pool, extra = _plain_pool(ft)
        ex = _plain_extra(ft)
        pad = _padding(ft, m + 6, rng.random() < 0.5)
        colv = pool + pad[:6]
        col = [rng.choice(colv) for _ in range(nrows)]
        t = rng.sample(pad, min(m, len(pad))) + rng.sample(pool, rng.randint(0, len(pool))) if pad else \
            [rng.choice(pool) for _ in range(m)]
        if rng.random() < 0.15:
            t.append(None)
        if rng.random() < 0.25 and _aliases(ft):
            t += rng.sample(_aliases(ft), 2)
        if rng.random() < 0.3 and kind != 'set':
            t += t[:3]
        rng.shuffle(t)
        yield dict({'op': 'isin', 'ft': ft, 'level': level, 'col': col, 'tests': t, 'tkind': kind, 'via': via}, **ex)


# (e) implicit dtype coercions.  isin must compare the integers themselves; a defect of this class converts the test
#     collection or the column to another dtype on some path (a None entry turned into NaN types the test values
#     float64; numpy itself types a list mixing values >= 2^63 and smaller ones float64 and merges int64 with uint64 in
#     float64; a cast to the column's dtype wraps).  Such a conversion is observable only on a pair (row value v,
#     test value t != v) that it merges (theorems isin_coercion_injective / isin_coercion_collision), so for every
#     integer dtype every plausible coercion gets its pairs, each looked up without and with a None entry, alone and
#     inside a collection large enough for numpy's sort / table algorithms, in every container form (list, set, tuple,
#     ndarray of the inferred dtype, of an explicit integer dtype, of dtype object).
COERCE_FTS = ['int64', 'uint64', 'int32', 'uint32', 'int16', 'uint16', 'int8', 'uint8', 'cat']


def _same_f64(v):
    """integers != v that round to the same binary64 as v (nearest first)"""
    out = []
    for d in (1, 2, 3, 4, 255, 256, 511, 512, 1023, 1024):
        for t in (v - d, v + d):
            if float(t) == float(v) and t not in out:
                out.append(t)
    r = int(float(v))
    if r != v and r not in out:
        out.insert(0, r)
    return out


def _same_f32(v):
    out = []
    for d in (1, 2, 3, 4, 63, 64, 127, 128):
        for t in (v - d, v + d):
            if _f32(t) == _f32(v) and t not in out:
                out.append(t)
    return out


def _collision_pairs(ft):
    """[(v, t, coercion)]: v a value of the column's dtype, t != v an integer (inside or outside the dtype) that the
    coercion merges with v"""
    lo, hi = INT_RANGE[ft]
    w = INT_BITS[ft]
    pairs = []

    def add(v, t, why):
        if lo <= v <= hi and t != v and (v, t) not in [(a, b) for a, b, _ in pairs]:
            pairs.append((v, t, why))
    # binary64: beyond 2^53 (spacing 2), 2^54 (4), 2^62, at the extremes of the 64-bit types (spacing 1024 / 2048)
    for v in (2 ** 53 + 1, 2 ** 53 + 3, 2 ** 53, -(2 ** 53) - 1, 2 ** 54 + 2, 2 ** 54 + 1, 2 ** 62 + 1, -(2 ** 62) - 255, hi, hi - 1,
              hi - 1024, lo, lo + 1, lo + 513, 2 ** 63, 2 ** 63 + 1, 2 ** 63 - 1, 2 ** 63 + 2049):
        if lo <= v <= hi and abs(v) >= 2 ** 53:
            ts = _same_f64(v)
            inside = [t for t in ts if lo <= t <= hi][:2]
            outside = [t for t in ts if not (lo <= t <= hi)][:1]
            for t in inside + outside:
                add(v, t, 'float64')
    # binary32: beyond 2^24
    for v in (2 ** 24 + 1, 2 ** 24 + 3, 2 ** 24, -(2 ** 24) - 1, 2 ** 31 - 1, -(2 ** 31) + 1, 2 ** 32 - 1, 2 ** 31 + 129, 2 ** 40 + 1,
              hi if w == 32 else 2 ** 25 + 2):
        if lo <= v <= hi and abs(v) >= 2 ** 24:
            for t in _same_f32(v)[:2]:
                add(v, t, 'float32')
    # binary16: beyond 2^11
    if hi >= 2049:
        add(2049, 2048, 'float16'); add(2048, 2049, 'float16'); add(4098, 4097, 'float16')
    # two's complement reinterpretation at the column's width (int64 <-> uint64 ...), and of a wider test value
    for v in (lo, hi, -1, 0, 5, 1 << (w - 1), (1 << (w - 1)) - 1, lo + 1, hi - 1):
        for k in (1, -1, 2):
            add(v, v + k * (1 << w), 'mod-2^%d' % w)
    if w < 64:
        add(5, 5 + 2 ** 64, 'mod-2^64'); add(hi, hi - 2 ** 64, 'mod-2^64')
    # narrowing of the column / of both sides to a smaller width
    for w2 in (8, 16, 32):
        if w2 < w:
            for v, t in ((2 ** w2 + 5, 5), (5, 2 ** w2 + 5), (2 ** (w2 - 1), -2 ** (w2 - 1)), (2 ** w2 - 1, -1), (2 ** w2, 0),
                         (hi, hi % 2 ** w2), (hi - 2 ** w2, hi), (3 * 2 ** w2 + 7, 2 ** w2 + 7)):
                add(v, t, 'mod-2^%d' % w2)
    return pairs


def _int_arrays(ft, tests):
    """explicit ndarray dtypes that can hold the integer test values exactly (besides the one numpy infers)"""
    if not tests or any(t is None for t in tests):
        return ['object']
    out = []
    for dt in ('int8', 'uint8', 'int16', 'uint16', 'int32', 'uint32', 'int64', 'uint64'):
        lo, hi = INT_RANGE[dt]
        if all(lo <= t <= hi for t in tests):
            out.append(dt)
    # the narrowest, the 64-bit ones (signed vs unsigned against the column), and object
    keep = out[:1] + [d for d in out if d in ('int64', 'uint64')]
    return list(dict.fromkeys(keep)) + ['object']


def _gen_coercion(tier, rng):
    big = tier == 'thorough'
    boost = 3 if hot.changed() else 1
    k = 0
    for ft in COERCE_FTS:
        lo, hi = INT_RANGE[ft]
        pairs = _collision_pairs(ft)
        small = [s_ for s_ in (3, 0, 7) if lo <= s_ <= hi]

        def mk(col, tests, kind, level, via, tdtype=None):
            c = {'op': 'isin', 'ft': ft, 'level': level, 'col': list(col), 'tests': list(tests), 'tkind': kind, 'via': via}
            if tdtype:
                c['tdtype'] = tdtype
            if ft == 'cat':
                c['keys'] = sorted(set(col) | {0})
            return c
        for (v, t, why) in pairs:
            col = [v, small[0], v] + ([t] if lo <= t <= hi else []) + [small[1]]
            for wide in (False, True):
                pad = [x for x in _padding(ft, 26, wide) if x != v and x != t][:24]
                variants = [[t], [t, None], [None, small[0], t], [t, small[0]], [t] + pad, [None, t] + pad, [t, v], [v, None, t],
                            [None]]
                if wide:
                    variants = variants[4:6]
                for vi, tests in enumerate(variants):
                    for kind in KINDS4:
                        k += 1
                        tt = list(tests)
                        if len(tt) > 3:
                            rng.shuffle(tt)
                        yield mk(col, tt, kind, 'h5' if k % 5 == 0 else 'mem', 'module' if k % 4 == 0 else 'method')
                    if vi in (0, 1, 4, 5):
                        for dt in _int_arrays(ft, tests):
                            k += 1
                            yield mk(col, tests, 'array', 'h5' if k % 5 == 0 else 'mem', 'module' if k % 4 == 0 else 'method', dt)
        # unique on the colliding values themselves (a coercion of the column would merge or alter them)
        for j, (v, t, why) in enumerate(pairs):
            if lo <= t <= hi:
                k += 1
                c = {'op': 'unique', 'ft': ft, 'level': 'h5' if k % 5 == 0 else 'mem', 'col': [v, t, small[0], v],
                     'flags': [1, 1, 1] if j % 2 == 0 else FLAGS8[j % 8]}
                if ft == 'cat':
                    c['keys'] = sorted({v, t, small[0], 0})
                yield c
        # all pairs at once: every v in the column, every t looked up
        vs = list(dict.fromkeys(v for v, _, _ in pairs))
        ts_ = list(dict.fromkeys(t for _, t, _ in pairs if t not in vs))
        for none in (0, 1):
            for kind in KINDS4:
                for level in ('mem', 'h5'):
                    k += 1
                    yield mk(vs + small, ts_ + [None] * none, kind, level, 'module' if k % 2 else 'method')
        # structured random: some pairs, rows with duplicates, a random part of the partners looked up
        for _ in range((2000 if big else 150) * boost):
            ps = rng.sample(pairs, min(len(pairs), rng.randint(1, 4)))
            vals = [v for v, _, _ in ps] + [t for _, t, _ in ps if lo <= t <= hi and rng.random() < 0.5] + small[:2]
            col = [rng.choice(vals) for _ in range(rng.choice([1, 2, 3, 5, 8, 12, 30]))]
            tests = [t for _, t, _ in ps if rng.random() < 0.8] + [v for v, _, _ in ps if rng.random() < 0.25]
            m = rng.choice([0, 0, 2, 12, 24, 40])
            tests += [x for x in _padding(ft, m + 2, rng.random() < 0.5) if x not in vals][:m]
            if rng.random() < 0.5:
                tests += [None] * rng.choice([1, 1, 2])
            kind = rng.choice(KINDS4)
            if rng.random() < 0.3 and kind != 'set':
                tests += tests[:2]
            rng.shuffle(tests)
            tdt = None
            if kind == 'array' and rng.random() < 0.5:
                tdt = rng.choice(_int_arrays(ft, tests))
            yield mk(col, tests, kind, rng.choice(['mem', 'mem', 'h5']), rng.choice(['method', 'method', 'module']), tdt)
    # the small scope of the 64-bit types: every column of length <= 2 over 4 values x every subset of those values, their
    # binary64 neighbours and None, rotating list / set / ndarray / tuple (what the small scope does for the narrow types)
    for ft, pool, extra in (('int64', [0, -2 ** 63, 2 ** 63 - 1, 2 ** 53 + 1], [None, 2 ** 53, 2 ** 63 - 2]),
                            ('uint64', [0, 2 ** 64 - 1, 2 ** 63, 2 ** 53 + 1], [None, 2 ** 53, 2 ** 64 - 2])):
        tp = pool + extra
        for level in ('mem', 'h5'):
            for n in range(0, 3 if level == 'mem' else 2):
                for col in itertools.product(pool, repeat=n):
                    for kk in range(0, len(tp) + 1):
                        for sub in itertools.combinations(range(len(tp)), kk):
                            k += 1
                            sub2 = [tp[j] for j in sub]
                            rng.shuffle(sub2)
                            yield {'op': 'isin', 'ft': ft, 'level': level, 'col': list(col), 'tests': sub2, 'tkind': KINDS4[k % 4],
                                   'via': 'module' if k % 4 == 0 else 'method'}
    # float columns: binary32 neighbours (quarter units) with and without None
    for ft, (v, t) in (('float32', (2 ** 26, 2 ** 26 + 4)), ('float64', (2 ** 26 + 4, 2 ** 26)), ('ts', (2 ** 26 + 4, 2 ** 26)),
                       ('float64', (2 ** 56, 2 ** 56 + 1024)), ('ts', (2 ** 40 + 1, 2 ** 40))):
        for tests in ([t], [t, None], [None, t, 6], [t] + _padding(ft, 24, False), [None, t] + _padding(ft, 24, True), [t, v]):
            for kind in KINDS4:
                k += 1
                yield {'op': 'isin', 'ft': ft, 'level': 'h5' if k % 3 == 0 else 'mem', 'col': [v, 6, v] + ([t] if ft != 'float32' else []),
                       'tests': list(tests), 'tkind': kind, 'via': 'module' if k % 4 == 0 else 'method'}


def gen(tier, rng):
    """small scope + malformed stream, then the regions beyond it; the (model-)expensive region cases are spread evenly
    over the sequence because the model shards are contiguous slices of it."""
    base = list(_gen_small(tier, rng))
    heavy, light = [], []
    for c in _gen_regions(tier, rng):
        (heavy if _weight(c) > 600 else light).append(c)
    light += list(_gen_coercion(tier, rng))
    base += light
    if not heavy:
        for c in base:
            yield c
        return
    step = max(1, len(base) // len(heavy))
    j = 0
    for i, c in enumerate(base):
        yield c
        if i % step == 0 and j < len(heavy):
            yield heavy[j]
            j += 1
    for c in heavy[j:]:
        yield c


def _weight(case):
    """rough size of a case (bytes / values it carries)"""
    n = 0
    for x in case.get('col', []):
        n += len(x) if isinstance(x, list) else 1
    for x in (case.get('tests') or []):
        n += len(x) if isinstance(x, list) else 1
    return n


def _gen_small(tier, rng):
    big = tier == 'thorough'
    A6 = [_cps(s) for s in ALPHA6]
    AB = [_cps(s) for s in ALPHA_BIG]
    # ---- unique, indexed strings, operations level: all columns over ALPHA6 x all flags
    nmax = 6 if big else 5
    for n in range(0, nmax + 1):
        for col in itertools.product(A6, repeat=n):
            for fl in FLAGS8:
                yield {'op': 'unique', 'ft': 'istr', 'level': 'ops', 'col': list(col), 'flags': fl}
    for fl in FLAGS8:
        yield {'op': 'unique', 'ft': 'istr', 'level': 'ops', 'col': [], 'idx0': 1, 'flags': fl}
    # ---- unique through real fields
    for level in ('mem', 'h5'):
        for n in range(0, (4 if big else 3) + 1):
            for col in itertools.product(A6, repeat=n):
                for fl in FLAGS8:
                    yield {'op': 'unique', 'ft': 'istr', 'level': level, 'col': list(col), 'flags': fl}
    # ---- isin, indexed strings
    T7 = A6 + [None]
    subsets = []
    for k in range(0, 8):
        for sub in itertools.combinations(range(7), k):
            subsets.append([T7[j] for j in sub])
    C7 = A6 + [_cps("abc")]
    for n in range(0, 3):
        for col in itertools.product(C7, repeat=n):
            for sub in subsets:
                sub2 = list(sub)
                rng.shuffle(sub2)
                yield {'op': 'isin', 'ft': 'istr', 'level': 'ops', 'col': list(col), 'tests': sub2, 'tkind': 'list',
                       'via': 'method'}
    kinds = ['list', 'set', 'array']
    k = 0
    for level in ('mem', 'h5'):
        for n in range(0, 3):
            cols = list(itertools.product(A6, repeat=n))
            for col in cols:
                for sub in (subsets if (big or n < 2) else rng.sample(subsets, 24)):
                    k += 1
                    sub2 = list(sub) + ([sub[0]] if (sub and k % 5 == 0) else [])
                    rng.shuffle(sub2)
                    yield {'op': 'isin', 'ft': 'istr', 'level': level, 'col': list(col), 'tests': sub2,
                           'tkind': kinds[k % 3], 'via': 'module' if k % 4 == 0 else 'method'}
    # ---- non-indexed field types
    for ft in PLAIN_FTS:
        pool, extra = _plain_pool(ft)
        ex = _plain_extra(ft)
        for level in ('mem', 'h5'):
            nm = (4 if level == 'mem' else 3) if not big else (5 if level == 'mem' else 4)
            for n in range(0, nm + 1):
                for col in itertools.product(pool, repeat=n):
                    for fl in (FLAGS8 if (level == 'mem' or n <= 2 or big) else [[0, 0, 0], [1, 1, 1], [0, 1, 0]]):
                        yield dict({'op': 'unique', 'ft': ft, 'level': level, 'col': list(col), 'flags': fl}, **ex)
            tp = pool + extra
            tsubs = []
            for kk in range(0, len(tp) + 1):
                for sub in itertools.combinations(range(len(tp)), kk):
                    tsubs.append([tp[j] for j in sub])
            for n in range(0, 3 if level == 'mem' else 2):
                for col in itertools.product(pool, repeat=n):
                    for sub in tsubs:
                        k += 1
                        sub2 = list(sub)
                        rng.shuffle(sub2)
                        yield dict({'op': 'isin', 'ft': ft, 'level': level, 'col': list(col), 'tests': sub2,
                                    'tkind': kinds[k % 3], 'via': 'module' if k % 4 == 0 else 'method'}, **ex)
    # ---- structured random, longer
    for _ in range(6000 if big else 1200):
        n = rng.randint(3, 14)
        pool = rng.sample(AB, rng.randint(2, 9))
        col = [rng.choice(pool) for _ in range(n)]
        level = rng.choice(['ops', 'ops', 'mem', 'h5'])
        if rng.random() < 0.5:
            yield {'op': 'unique', 'ft': 'istr', 'level': level, 'col': col, 'flags': rng.choice(FLAGS8)}
        else:
            tests = rng.sample(AB, rng.randint(1, 16)) + [None] * rng.choice([0, 0, 1, 2])
            if rng.random() < 0.3:
                tests = tests + tests[:2]
            rng.shuffle(tests)
            yield {'op': 'isin', 'ft': 'istr', 'level': level, 'col': col, 'tests': tests,
                   'tkind': 'list' if level == 'ops' else rng.choice(kinds),
                   'via': 'method' if level == 'ops' else rng.choice(['method', 'module'])}
    # columns with more than 16 distinct strings (numpy leaves its small-array insertion sort)
    for _ in range(600 if big else 150):
        n = rng.randint(20, 60)
        pool = rng.sample(AB, rng.randint(17, len(AB)))
        col = [rng.choice(pool) for _ in range(n)]
        level = rng.choice(['ops', 'ops', 'mem', 'h5'])
        if rng.random() < 0.6:
            yield {'op': 'unique', 'ft': 'istr', 'level': level, 'col': col, 'flags': rng.choice(FLAGS8[1:])}
        else:
            tests = rng.sample(AB, rng.randint(17, len(AB))) + [None]
            rng.shuffle(tests)
            yield {'op': 'isin', 'ft': 'istr', 'level': level, 'col': col, 'tests': tests,
                   'tkind': 'list' if level == 'ops' else rng.choice(kinds), 'via': 'method'}
    for _ in range(2000 if big else 400):
        ft = rng.choice(PLAIN_FTS)
        pool, extra = _plain_pool(ft)
        ex = _plain_extra(ft)
        n = rng.randint(3, 12)
        col = [rng.choice(pool) for _ in range(n)]
        level = rng.choice(['mem', 'h5'])
        if rng.random() < 0.5:
            yield dict({'op': 'unique', 'ft': ft, 'level': level, 'col': col, 'flags': rng.choice(FLAGS8)}, **ex)
        else:
            tp = pool + extra
            tests = [rng.choice(tp) for _ in range(rng.randint(0, 6))]
            yield dict({'op': 'isin', 'ft': ft, 'level': level, 'col': col, 'tests': tests, 'tkind': rng.choice(kinds),
                        'via': rng.choice(['method', 'module'])}, **ex)
    # ---- malformed / out-of-domain stream: model vs implementation only
    NUL = [[97, 0], [97], [0], [], [97, 0, 98], [0, 0]]
    for n in range(1, 4):
        for col in itertools.product(NUL, repeat=n):
            if not any(c and c[-1] == 0 for c in col):
                continue
            for fl in ([0, 0, 0], [1, 1, 1]):
                yield {'op': 'unique', 'ft': 'istr', 'level': 'ops', 'col': list(col), 'flags': fl, 'ood': 1}
    for col in itertools.product(NUL[:4], repeat=2):
        for tests in ([[97, 0]], [[97]], [[0], [97, 0]], [[], [0]]):
            yield {'op': 'isin', 'ft': 'istr', 'level': 'ops', 'col': list(col), 'tests': tests, 'tkind': 'list',
                   'via': 'method', 'ood': 1}
    for col in ([], [[97]], [[98], [97]]):
        for level in ('ops', 'mem'):
            yield {'op': 'isin', 'ft': 'istr', 'level': level, 'col': col, 'tests': None, 'tkind': 'list',
                   'via': 'method', 'ood': 1}
    RAW = [([0, 1, 2], [255, 97]), ([0, 2], [195, 40]), ([0, 3], [237, 160, 128]), ([0, 2], [192, 128]),
           ([0, 4], [244, 144, 128, 128]), ([0, 1, 1, 3], [97, 195, 169]), ([0, 2, 1, 3], [97, 98, 99]),
           ([0, 5, 6], [97, 98]), ([1, 2], [97, 98]), ([0, 1, 3], [97, 98]), ([2, 1, 0], [97, 98]),
           ([0], []), ([0, 0, 0], []), ([0, 3], [224, 160, 128]), ([0, 3], [224, 159, 128]),
           ([0, 4], [240, 144, 128, 128]), ([0, 4], [240, 143, 191, 191]), ([0, 1], [128]), ([0, 2], [194, 128])]
    for ind, vals in RAW:
        for fl in ([0, 0, 0], [1, 1, 1]):
            yield {'op': 'unique', 'ft': 'istr', 'level': 'ops', 'raw': {'indices': ind, 'values': vals}, 'flags': fl,
                   'ood': 1}
        yield {'op': 'isin', 'ft': 'istr', 'level': 'ops', 'raw': {'indices': ind, 'values': vals},
               'tests': [[97], [233]], 'tkind': 'list', 'via': 'method', 'ood': 1}


def shrink(case):
    if 'raw' in case:
        return
    col = case['col']
    if len(col) > 8:                       # halves first (long columns)
        for part in (col[:len(col) // 2], col[len(col) // 2:]):
            c = dict(case); c['col'] = part
            yield c
    if case['op'] == 'isin' and case['tests'] and len(case['tests']) > 8:
        t = case['tests']
        for part in (t[:len(t) // 2], t[len(t) // 2:]):
            c = dict(case); c['tests'] = part
            yield c
    for i in range(len(col)):
        c = dict(case); c['col'] = col[:i] + col[i + 1:]
        yield c
    if case['op'] == 'isin' and case['tests']:
        t = case['tests']
        for i in range(len(t)):
            c = dict(case); c['tests'] = t[:i] + t[i + 1:]
            yield c
    if case['op'] == 'unique':
        for j in range(3):
            if case['flags'][j]:
                c = dict(case); c['flags'] = [0 if k == j else x for k, x in enumerate(case['flags'])]
                yield c
    if case['level'] != 'ops' and case['ft'] == 'istr':
        c = dict(case); c['level'] = 'ops'; c['tkind'] = 'list'; c['via'] = 'method'
        yield c
