"""C14 — isin / unique set semantics (operations.py unique_for_indexed_string, get_indexed_string_unique,
isin_for_indexed_string_field, isin_indexed_string_speedup, compare_arrays; fields.py apply_isin / apply_unique)
vs coq/Model/Unique.v and coq/Spec/UniqueSpec.v.

Case forms (all JSON-able):
  {'op':'unique','ft':FT,'level':LV,'col':[...],'flags':[ri,rv,rc]}
  {'op':'isin','ft':FT,'level':LV,'col':[...],'tests':[...]|None,'tkind':'list'|'set'|'array','via':'method'|'module'}
  FT = 'istr' (col = list of code-point lists) | 'fstr' (col = list of byte lists, 'strlen') |
       'int32' | 'int8' | 'bool' | 'float32' | 'cat' | 'ts'   (col = ints; float/ts values are quarter units)
  LV = 'ops' (istr only: the operations.py functions on (indices, values)) | 'mem' (…MemField) | 'h5' (HDF5 field)
  istr/ops cases may carry 'raw': {'indices':[…],'values':[…]} instead of 'col' (malformed stream) and
  'idx0': 1 (an empty column stored as indices=[0] instead of []).
  'ood': 1 marks inputs outside the property's domain (NUL code points, invalid UTF-8, test set None): model vs
  implementation only.
"""
import itertools

PROP, NUM = 'C14', 14
PROPS_FILES = ['Props/C14.v']
MODES = ['jit', 'nojit']
MODES_THOROUGH = ['jit', 'nojit', 'bounds']
LEVEL = 'proof'
TIMEOUT_S = 60.0

ALPHA6 = ["", "a", "ab", "b", "é", "aé"]
# larger alphabet for the structured random phase: equal length / different bytes, prefixes, 2-, 3-, 4-byte
# characters whose code-point order must agree with the byte order (U+E000 < U+FFFD < U+10000), a space, digits
ALPHA_BIG = ALPHA6 + ["ba", "bb", "abc", "ab ", "\u00e8", "\u00ea", "e\u0301", "\u20ac", "\ue000", "\ufffd",
                      "\U00010000", "\U0010ffff", "a\U00010000", "\u07ff", "\u0800", "\x7f", "\x80", "z", "Z", "0"]

RULE = ('exhaustive small scope: unique on every indexed-string column of length <= 5 (quick) / 6 (thorough) over '
        '{"", "a", "ab", "b", "e-acute", "a+e-acute"} x all 8 return_* flag combinations at the operations level, '
        'every column of length <= 3 through real in-memory and HDF5 fields; isin on every column of length <= 2 over '
        '7 strings x all 128 subsets of the 6 strings + None as list, and through real fields as list/set/array; '
        'numeric (int32/int8/bool/float32), categorical, timestamp and fixed-string fields: all columns of length <= 4 '
        'over 4 values x 8 flag combinations, isin over all 64 test subsets incl. None; then seeded random longer '
        'columns (up to 60 rows, up to 26 distinct) over a 26-string alphabet (1- to 4-byte characters, prefixes, equal lengths) and a malformed stream '
        '(NUL code points, invalid UTF-8, inconsistent offsets, test set None). HDF5-backed cases cost ~5 ms each, '
        'hence the smaller bounds at that level. Non-trivial = reaches a planted feature.')
EXHAUSTIVE = {'quick': True, 'thorough': True}
TRUSTED = ['numpy sort/argsort of str arrays (code-point order, trailing NULs insignificant), np.unique, np.isin and '
           'CPython\'s UTF-8 codec are defined in Gallina (Model/Unique.v) and tied to the real ones by this '
           'correspondence only',
           'for non-indexed field types the model of the numpy dispatch IS the specification; the theorem for them is '
           'definitional and the evidence is the differential run']
ASSUMPTIONS = ['strings contain no NUL code point at their end (numpy U/S dtypes drop trailing NULs: finding F-C14b)',
               'no NaN in float/timestamp columns', 'test-set entries have the field\'s value type or are None']
TECHNIQUE = ('Coq proof (faithful model of the indexed-string kernels and their Python drivers = sort/unique/membership '
             'specification over UTF-8 bytes) + exhaustive small-scope differential correspondence against /repo')
LEVEL_TEXT = ('Theorems in coq/Props/C14.v prove for all columns, flag combinations and test sets that the Gallina model '
              'of unique_for_indexed_string / get_indexed_string_unique / isin_for_indexed_string_field / '
              'isin_indexed_string_speedup / compare_arrays returns the specified sorted distinct values, '
              'first-occurrence indices, reconstructing inverse, counts and membership flags; the model is tied to '
              '/repo by running the extracted model and the real functions / fields on the same generated cases.')
LEVEL_NOTE = ('Trusted: Coq kernel, extraction, harness. numpy and the UTF-8 codec are modelled in Gallina, not verified. '
              'Non-indexed field types delegate to numpy: for them only the correspondence speaks.')

_np = _ops = _fields = _session = _df = None
_ctr = [0]


def setup():
    global _np, _ops, _fields, _session, _df
    import io, warnings
    warnings.filterwarnings('ignore')
    import numpy as np
    from exetera.core import operations as ops, fields, session as sess
    _np, _ops, _fields = np, ops, fields
    _session = sess.Session()
    ds = _session.open_dataset(io.BytesIO(), 'w', 'ds')
    _df = ds.create_dataframe('df')


def warmup():
    for flags in ([0, 0, 0], [1, 1, 1]):
        run({'op': 'unique', 'ft': 'istr', 'level': 'ops', 'col': [[97], [98], [97]], 'flags': flags})
    run({'op': 'isin', 'ft': 'istr', 'level': 'ops', 'col': [[97], [98]], 'tests': [[97]], 'tkind': 'list', 'via': 'method'})


# ------------------------------------------------------------------------------------------ helpers
def _s(cps):
    return ''.join(chr(c) for c in cps)


def _enc(cps):
    return list(_s(cps).encode('utf-8', 'surrogatepass'))


def storage(case):
    """(indices, values) of an istr case, as the field stores them."""
    if 'raw' in case:
        return list(case['raw']['indices']), list(case['raw']['values'])
    rows = [_enc(c) for c in case['col']]
    if not rows:
        return ([0] if case.get('idx0') else []), []
    ind = [0]
    for r in rows:
        ind.append(ind[-1] + len(r))
    return ind, [b for r in rows for b in r]


def _ticks(x):
    y = float(x) * 4
    if y != int(y):
        raise AssertionError('non-quarter value %r' % (x,))
    return int(y)


def _mk_field(case):
    """Create a real field holding the column."""
    np, fields = _np, _fields
    ft, level, col = case['ft'], case['level'], case['col']
    _ctr[0] += 1
    name = 'f%d' % _ctr[0]
    h5 = level == 'h5'
    if ft == 'istr':
        f = _df.create_indexed_string(name) if h5 else fields.IndexedStringMemField(_session)
        f.data.write([_s(c) for c in col])
    elif ft == 'fstr':
        n = case['strlen']
        f = _df.create_fixed_string(name, n) if h5 else fields.FixedStringMemField(_session, n)
        f.data.write(np.array([bytes(c) for c in col], dtype='S%d' % n))
    elif ft == 'cat':
        keys = {'k%d' % v: v for v in case['keys']}
        f = _df.create_categorical(name, 'int8', keys) if h5 else fields.CategoricalMemField(_session, 'int8', keys)
        f.data.write(np.array(col, dtype=np.int8))
    elif ft == 'ts':
        f = _df.create_timestamp(name) if h5 else fields.TimestampMemField(_session)
        f.data.write(np.array([c / 4 for c in col], dtype=np.float64))
    else:
        data = np.array([c / 4 for c in col], dtype=ft) if ft.startswith('float') else np.array(col, dtype=ft)
        f = _df.create_numeric(name, ft) if h5 else fields.NumericMemField(_session, ft)
        f.data.write(data)
    return f, (name if h5 else None)


def _canon_values(ft, arr):
    if ft == 'istr':
        return [list(str(x).encode('utf-8', 'surrogatepass')) for x in arr]
    if ft == 'fstr':
        return [list(bytes(x)) for x in arr]
    if ft == 'ts' or ft.startswith('float'):
        return [_ticks(x) for x in arr]
    return [int(x) for x in arr]


def _tests_obj(case):
    """The test_elements object handed to isin."""
    np = _np
    ft, tests, kind = case['ft'], case['tests'], case.get('tkind', 'list')
    if tests is None:
        return None

    def conv(t):
        if t is None:
            return None
        if ft == 'istr':
            return _s(t)
        if ft == 'fstr':
            return bytes(t)
        if ft == 'ts' or ft.startswith('float'):
            return t / 4
        if ft == 'bool':
            return bool(t)
        return int(t)
    l = [conv(t) for t in tests]
    if kind == 'set':
        return set(l)
    if kind == 'tuple':
        return tuple(l)
    if kind == 'array':
        if any(x is None for x in l) or not l:
            return np.array(l, dtype=object)
        return np.array(l)
    return l


def run(case):
    np, ops = _np, _ops
    op, ft, level = case['op'], case['ft'], case['level']
    name = None
    try:
        if level == 'ops':
            ind, vals = storage(case)
            indices = np.array(ind, dtype=np.int64)
            values = np.array(vals, dtype=np.uint8)
            if op == 'unique':
                ri, rv, rc = (bool(x) for x in case['flags'])
                r = ops.unique_for_indexed_string(indices, values, ri, rv, rc)
            else:
                r = ops.isin_for_indexed_string_field(_tests_obj(case), indices, values)
        else:
            f, name = _mk_field(case)
            if op == 'unique':
                ri, rv, rc = (bool(x) for x in case['flags'])
                r = f.unique(return_index=ri, return_inverse=rv, return_counts=rc)
            elif case.get('via') == 'module':
                r = _fields.isin(f, _tests_obj(case))
                if not isinstance(r, _fields.NumericMemField):
                    raise AssertionError('fields.isin did not return a NumericMemField')
                r = r.data[:]
            else:
                r = f.isin(_tests_obj(case))
        if op == 'isin':
            r = np.asarray(r)
            if r.dtype != np.bool_:
                raise AssertionError('isin result dtype %s' % r.dtype)
            return [1 if x else 0 for x in r]
        flags = case['flags']
        nret = 1 + sum(1 for x in flags if x)
        if nret == 1:
            if isinstance(r, tuple):
                raise AssertionError('tuple returned without flags')
            parts = [r]
        else:
            if not isinstance(r, tuple) or len(r) != nret:
                raise AssertionError('expected a %d-tuple' % nret)
            parts = list(r)
        out = [_canon_values(ft, parts[0]), None, None, None]
        k = 1
        for j in range(3):
            if flags[j]:
                out[j + 1] = [int(x) for x in parts[k]]
                k += 1
        return out
    finally:
        if name is not None:
            try:
                del _df[name]
            except Exception:
                pass


# ------------------------------------------------------------------------------------------ wire
def _opt(x):
    return [] if x is None else [x]


def to_val(case):
    op, ft = case['op'], case['ft']
    if op == 'unique':
        fl = [int(bool(x)) for x in case['flags']]
        if ft == 'istr':
            ind, vals = storage(case)
            return [1, 1, ind, vals] + fl
        if ft == 'fstr':
            return [2, 1, case['col']] + fl
        return [2, 0, case['col']] + fl
    tests = case['tests']
    if ft == 'istr':
        ind, vals = storage(case)
        return [3, ind, vals, ([] if tests is None else [[_opt(t) for t in tests]])]
    return [4, 1 if ft == 'fstr' else 0, case['col'], [_opt(t) for t in tests]]


def _dec_ures(v):
    u, i, w, c = v
    return [u, (i[0] if i else None), (w[0] if w else None), (c[0] if c else None)]


def from_val(case, v):
    from harness.core import decode_err
    m, s = v
    e = decode_err(m)
    if case['op'] == 'unique':
        model = e if e is not None else _dec_ures(m)
        spec = _dec_ures(s)
    else:
        model = e if e is not None else m
        spec = s
    if case.get('ood'):
        return model
    return (model, spec)


# ------------------------------------------------------------------------------------------ features
def _first_occ_perm(rows):
    """permutation indices_sort: sorted position -> first-occurrence position of the distinct rows."""
    d = []
    for r in rows:
        if r not in d:
            d.append(r)
    order = sorted(range(len(d)), key=lambda k: d[k])
    return d, order


def features(case, model):
    f = ['%s:%s:%s' % (case['op'], case['ft'], case['level'])]
    if isinstance(model, str):
        f.append('err:' + model.split(':')[0])
    if case.get('ood'):
        f.append('out-of-domain')
    if 'raw' in case:
        f.append('raw-storage')
        return f
    col = case['col']
    ft = case['ft']
    rows = [tuple(_enc(c)) for c in col] if ft == 'istr' else [tuple(c) if isinstance(c, list) else c for c in col]
    if not rows:
        f.append('empty-column')
    if len(set(rows)) < len(rows):
        f.append('duplicates')
    if ft == 'istr':
        if any(len(r) == 0 for r in rows): f.append('empty-string')
        if any(any(b >= 128 for b in r) for r in rows): f.append('multi-byte')
        if any(any(b >= 240 for b in r) for r in rows): f.append('4-byte-char')
        ds = list(dict.fromkeys(rows))
        if any(a != b and len(a) == len(b) for a in ds for b in ds): f.append('equal-length-different-bytes')
        if any(a != b and b[:len(a)] == a for a in ds for b in ds): f.append('prefix-pair')
    if case['op'] == 'unique':
        f.append('flags:%d%d%d' % tuple(int(bool(x)) for x in case['flags']))
        d, order = _first_occ_perm(rows)
        if len(d) > 16: f.append('>16-distinct')
        if order != list(range(len(d))): f.append('sort-permutes')
        if any(order[order[k]] != k for k in range(len(d))): f.append('sort-perm-not-involution')
        if ft == 'istr':
            # states of the scan: a row whose length was seen before but whose bytes are new / old
            seen_len, seen = set(), []
            for r in rows:
                if len(r) not in seen_len:
                    seen_len.add(len(r)); seen.append(r); continue
                if r in seen:
                    f.append('scan-hit-at-%s' % ('0' if seen.index(r) == 0 else 'later'))
                else:
                    f.append('scan-miss-same-length'); seen.append(r)
            f = list(dict.fromkeys(f))
    else:
        tests = case['tests']
        if tests is None:
            f.append('tests-None')
            return f
        f.append('tkind:' + case.get('tkind', 'list'))
        f.append('via:' + case.get('via', 'method'))
        real = [t for t in tests if t is not None]
        if len(real) < len(tests): f.append('tests-with-None')
        if not tests: f.append('tests-empty')
        if tests and not real: f.append('tests-all-None')
        keyf = (lambda t: tuple(_enc(t))) if ft == 'istr' else (lambda t: tuple(t) if isinstance(t, list) else t)
        tk = [keyf(t) for t in real]
        if len(set(tk)) < len(tk): f.append('tests-duplicates')
        if len(set(tk)) >= 4: f.append('tests>=4-distinct')
        if len(set(tk)) >= 8: f.append('tests>=8-distinct')
        if len(set(tk)) > 16: f.append('tests>16-distinct')
        hit = [r in set(tk) for r in rows]
        if any(hit): f.append('row-hit')
        if not all(hit) and rows: f.append('row-miss')
        if ft == 'istr' and tk:
            if any(r not in tk and any(t[:len(r)] == r for t in tk) for r in rows): f.append('row-is-proper-prefix-of-test')
            if any(r not in tk and any(r[:len(t)] == t for t in tk) for r in rows): f.append('test-is-proper-prefix-of-row')
            if any(r < min(tk) for r in rows): f.append('row-below-all-tests')
            if any(r > max(tk) for r in rows): f.append('row-above-all-tests')
    return f


_ADMIN = ('unique:', 'isin:', 'flags:', 'tkind:', 'via:')


def nontrivial(case, model):
    """reaches at least one planted feature other than the bookkeeping ones (category, flags, container kind)."""
    return model != 'BADCASE' and any(not x.startswith(_ADMIN) for x in features(case, model))


def known(case, impl, model, spec, mode):
    return None


# ------------------------------------------------------------------------------------------ generators
def _cps(s):
    return [ord(c) for c in s]


FLAGS8 = [list(f) for f in itertools.product([0, 1], repeat=3)]
PLAIN_FTS = ['int32', 'int8', 'bool', 'float32', 'cat', 'ts', 'fstr']


def _plain_pool(ft):
    if ft == 'bool':
        return [0, 1], [None]
    if ft == 'cat':
        return [0, 1, 5, -3], [None, 2]
    if ft == 'fstr':
        return [[], [97], [97, 98], [98]], [None, [99]]
    if ft in ('ts', 'float32'):
        return [0, 6, -5, 4000], [None, 7]
    if ft == 'int8':
        return [0, -128, 127, 3], [None, 5]
    return [0, -7, 2 ** 31 - 1, 3], [None, 5]


def _plain_extra(ft):
    d = {}
    if ft == 'fstr':
        d['strlen'] = 2
    if ft == 'cat':
        d['keys'] = [0, 1, 5, -3, 2]
    return d


def gen(tier, rng):
    big = tier == 'thorough'
    A6 = [_cps(s) for s in ALPHA6]
    AB = [_cps(s) for s in ALPHA_BIG]
    # ---- unique, indexed strings, operations level: all columns over ALPHA6 x all flags
    nmax = 6 if big else 5
    for n in range(0, nmax + 1):
        for col in itertools.product(A6, repeat=n):
            for fl in FLAGS8:
                yield {'op': 'unique', 'ft': 'istr', 'level': 'ops', 'col': list(col), 'flags': fl}
    for fl in FLAGS8:
        yield {'op': 'unique', 'ft': 'istr', 'level': 'ops', 'col': [], 'idx0': 1, 'flags': fl}
    # ---- unique through real fields
    for level in ('mem', 'h5'):
        for n in range(0, (4 if big else 3) + 1):
            for col in itertools.product(A6, repeat=n):
                for fl in FLAGS8:
                    yield {'op': 'unique', 'ft': 'istr', 'level': level, 'col': list(col), 'flags': fl}
    # ---- isin, indexed strings
    T7 = A6 + [None]
    subsets = []
    for k in range(0, 8):
        for sub in itertools.combinations(range(7), k):
            subsets.append([T7[j] for j in sub])
    C7 = A6 + [_cps("abc")]
    for n in range(0, 3):
        for col in itertools.product(C7, repeat=n):
            for sub in subsets:
                sub2 = list(sub)
                rng.shuffle(sub2)
                yield {'op': 'isin', 'ft': 'istr', 'level': 'ops', 'col': list(col), 'tests': sub2, 'tkind': 'list',
                       'via': 'method'}
    kinds = ['list', 'set', 'array']
    k = 0
    for level in ('mem', 'h5'):
        for n in range(0, 3):
            cols = list(itertools.product(A6, repeat=n))
            for col in cols:
                for sub in (subsets if (big or n < 2) else rng.sample(subsets, 24)):
                    k += 1
                    sub2 = list(sub) + ([sub[0]] if (sub and k % 5 == 0) else [])
                    rng.shuffle(sub2)
                    yield {'op': 'isin', 'ft': 'istr', 'level': level, 'col': list(col), 'tests': sub2,
                           'tkind': kinds[k % 3], 'via': 'module' if k % 4 == 0 else 'method'}
    # ---- non-indexed field types
    for ft in PLAIN_FTS:
        pool, extra = _plain_pool(ft)
        ex = _plain_extra(ft)
        for level in ('mem', 'h5'):
            nm = (4 if level == 'mem' else 3) if not big else (5 if level == 'mem' else 4)
            for n in range(0, nm + 1):
                for col in itertools.product(pool, repeat=n):
                    for fl in (FLAGS8 if (level == 'mem' or n <= 2 or big) else [[0, 0, 0], [1, 1, 1], [0, 1, 0]]):
                        yield dict({'op': 'unique', 'ft': ft, 'level': level, 'col': list(col), 'flags': fl}, **ex)
            tp = pool + extra
            tsubs = []
            for kk in range(0, len(tp) + 1):
                for sub in itertools.combinations(range(len(tp)), kk):
                    tsubs.append([tp[j] for j in sub])
            for n in range(0, 3 if level == 'mem' else 2):
                for col in itertools.product(pool, repeat=n):
                    for sub in tsubs:
                        k += 1
                        sub2 = list(sub)
                        rng.shuffle(sub2)
                        yield dict({'op': 'isin', 'ft': ft, 'level': level, 'col': list(col), 'tests': sub2,
                                    'tkind': kinds[k % 3], 'via': 'module' if k % 4 == 0 else 'method'}, **ex)
    # ---- structured random, longer
    for _ in range(6000 if big else 1200):
        n = rng.randint(3, 14)
        pool = rng.sample(AB, rng.randint(2, 9))
        col = [rng.choice(pool) for _ in range(n)]
        level = rng.choice(['ops', 'ops', 'mem', 'h5'])
        if rng.random() < 0.5:
            yield {'op': 'unique', 'ft': 'istr', 'level': level, 'col': col, 'flags': rng.choice(FLAGS8)}
        else:
            tests = rng.sample(AB, rng.randint(1, 16)) + [None] * rng.choice([0, 0, 1, 2])
            if rng.random() < 0.3:
                tests = tests + tests[:2]
            rng.shuffle(tests)
            yield {'op': 'isin', 'ft': 'istr', 'level': level, 'col': col, 'tests': tests,
                   'tkind': 'list' if level == 'ops' else rng.choice(kinds),
                   'via': 'method' if level == 'ops' else rng.choice(['method', 'module'])}
    # columns with more than 16 distinct strings (numpy leaves its small-array insertion sort)
    for _ in range(600 if big else 150):
        n = rng.randint(20, 60)
        pool = rng.sample(AB, rng.randint(17, len(AB)))
        col = [rng.choice(pool) for _ in range(n)]
        level = rng.choice(['ops', 'ops', 'mem', 'h5'])
        if rng.random() < 0.6:
            yield {'op': 'unique', 'ft': 'istr', 'level': level, 'col': col, 'flags': rng.choice(FLAGS8[1:])}
        else:
            tests = rng.sample(AB, rng.randint(17, len(AB))) + [None]
            rng.shuffle(tests)
            yield {'op': 'isin', 'ft': 'istr', 'level': level, 'col': col, 'tests': tests,
                   'tkind': 'list' if level == 'ops' else rng.choice(kinds), 'via': 'method'}
    for _ in range(2000 if big else 400):
        ft = rng.choice(PLAIN_FTS)
        pool, extra = _plain_pool(ft)
        ex = _plain_extra(ft)
        n = rng.randint(3, 12)
        col = [rng.choice(pool) for _ in range(n)]
        level = rng.choice(['mem', 'h5'])
        if rng.random() < 0.5:
            yield dict({'op': 'unique', 'ft': ft, 'level': level, 'col': col, 'flags': rng.choice(FLAGS8)}, **ex)
        else:
            tp = pool + extra
            tests = [rng.choice(tp) for _ in range(rng.randint(0, 6))]
            yield dict({'op': 'isin', 'ft': ft, 'level': level, 'col': col, 'tests': tests, 'tkind': rng.choice(kinds),
                        'via': rng.choice(['method', 'module'])}, **ex)
    # ---- malformed / out-of-domain stream: model vs implementation only
    NUL = [[97, 0], [97], [0], [], [97, 0, 98], [0, 0]]
    for n in range(1, 4):
        for col in itertools.product(NUL, repeat=n):
            if not any(c and c[-1] == 0 for c in col):
                continue
            for fl in ([0, 0, 0], [1, 1, 1]):
                yield {'op': 'unique', 'ft': 'istr', 'level': 'ops', 'col': list(col), 'flags': fl, 'ood': 1}
    for col in itertools.product(NUL[:4], repeat=2):
        for tests in ([[97, 0]], [[97]], [[0], [97, 0]], [[], [0]]):
            yield {'op': 'isin', 'ft': 'istr', 'level': 'ops', 'col': list(col), 'tests': tests, 'tkind': 'list',
                   'via': 'method', 'ood': 1}
    for col in ([], [[97]], [[98], [97]]):
        for level in ('ops', 'mem'):
            yield {'op': 'isin', 'ft': 'istr', 'level': level, 'col': col, 'tests': None, 'tkind': 'list',
                   'via': 'method', 'ood': 1}
    RAW = [([0, 1, 2], [255, 97]), ([0, 2], [195, 40]), ([0, 3], [237, 160, 128]), ([0, 2], [192, 128]),
           ([0, 4], [244, 144, 128, 128]), ([0, 1, 1, 3], [97, 195, 169]), ([0, 2, 1, 3], [97, 98, 99]),
           ([0, 5, 6], [97, 98]), ([1, 2], [97, 98]), ([0, 1, 3], [97, 98]), ([2, 1, 0], [97, 98]),
           ([0], []), ([0, 0, 0], []), ([0, 3], [224, 160, 128]), ([0, 3], [224, 159, 128]),
           ([0, 4], [240, 144, 128, 128]), ([0, 4], [240, 143, 191, 191]), ([0, 1], [128]), ([0, 2], [194, 128])]
    for ind, vals in RAW:
        for fl in ([0, 0, 0], [1, 1, 1]):
            yield {'op': 'unique', 'ft': 'istr', 'level': 'ops', 'raw': {'indices': ind, 'values': vals}, 'flags': fl,
                   'ood': 1}
        yield {'op': 'isin', 'ft': 'istr', 'level': 'ops', 'raw': {'indices': ind, 'values': vals},
               'tests': [[97], [233]], 'tkind': 'list', 'via': 'method', 'ood': 1}


def shrink(case):
    if 'raw' in case:
        return
    col = case['col']
    for i in range(len(col)):
        c = dict(case); c['col'] = col[:i] + col[i + 1:]
        yield c
    if case['op'] == 'isin' and case['tests']:
        t = case['tests']
        for i in range(len(t)):
            c = dict(case); c['tests'] = t[:i] + t[i + 1:]
            yield c
    if case['op'] == 'unique':
        for j in range(3):
            if case['flags'][j]:
                c = dict(case); c['flags'] = [0 if k == j else x for k, x in enumerate(case['flags'])]
                yield c
    if case['level'] != 'ops' and case['ft'] == 'istr':
        c = dict(case); c['level'] = 'ops'; c['tkind'] = 'list'; c['via'] = 'method'
        yield c
