"""C02 — DataFrame.merge (exetera/core/dataframe.py) vs coq/Model/Merge.v (composed with Join.v, MapStream.v).

Case dict (JSON):
  {'how': 'left'|'right'|'inner'|'outer',
   'hints': [lo, lu, ro, ru]          each None | True | False  (hint_left_keys_ordered, ..._unique, right ...)
   'L': frame, 'R': frame             frame = {'keys': [[int...], ...] key columns, 'kn': [names], 'cols': [[name, [values]], ...]}
   'lf': None | [names], 'rf': ...    left_fields / right_fields
   'cs':  n | None                    chunksize injected into the 8 generate_ordered_map_to_*_streamed (None: 1<<20)
   'mcs': n | None, 'vf': n | None    chunksize / value_factor injected into ordered_map_valid(_indexed)_stream
   'ccs': n | None                    merge(chunk_size=...) (chunked_copy)
  }
A frame may carry 'dt': {key column name: dtype} (strengthening SC02: key columns of any numpy dtype ExeTera stores —
int8..int64, uint8..uint64, bool, float32/64, fixed strings S1..S8 — possibly different on the two sides).  The values
of such a key column are given in the EXACT integer encoding the model joins on (see _key_enc): integers as
themselves, floats (and integers compared with floats) times 2**60, byte strings big-endian padded to 8 bytes.  The
encoding is strictly monotone and injective on the values compared, so the relational join on the encoded keys is the
relational join on the keys (Props/C02.v: join_pairs_key_embedding, merge_spec_key_embedding).
The first letter of a column name is its kind: k int32 (key), K int64 (key), i int32, l int64, f float64, b bool,
s fixed string S3, c categorical int8, t timestamp, x indexed string.  Values are ints (strings for s/x).
C02_VARIANT=orig makes the model the dataframe.py call-site table as found (used to tie the *_refuted theorems
to the unrepaired tree); the default model is the repaired code (work/C02/fix-F-C02[a-e].diff).
"""
import itertools, os, functools

PROP, NUM = 'C02', 2
PROPS_FILES = ['Props/C02.v']
MODES = ['jit', 'nojit']
MODES_THOROUGH = ['jit', 'nojit', 'bounds']
LEVEL = 'proof'
HANG_TIMEOUT_S = 3.0
TIMEOUT_S = 20.0
VARIANT = 1 if os.environ.get('C02_VARIANT', 'fixed') == 'orig' else 0

S32, S64 = (1 << 31) - 1, 1 << 62
HOWS = ['left', 'right', 'inner', 'outer']
AUX = ('_left_map', '_right_map')

RULE = ('(VC02) field NAMES as data: every name merge / _ordered_merge / _unordered_merge use for a field or a pandas column of '
        'their own (_left_map, _right_map, _a_map, _b_map, valid_l, valid_r, valid, l_i, r_i, l_k, r_k, l_k_0, r_k_0, the '
        'suffixes _l / _r themselves, and suffixed variants of these and of ordinary names) as the name of a payload field of '
        'the left frame, of the right frame, of both, or as the name of the key fields, x 4 modes x every truthful hint '
        'set (streamed path with each truthful pair of unique hints, hint-free, non-selecting) on 11 small key-column pairs '
        '(quick: the two map names with 4 pairs x all hint sets, the other names in rotation), payload kinds rotating (values '
        'that look like a join map); destinations that already hold a field (10 names incl. the internal ones) x the same; '
        'chains of two merges: the destination of the first (all its fields, _left_map/_right_map/valid_* included, or all '
        'that do not collide) is the left or the right frame of the second, first merge 4 modes x truthful hint sets, second '
        'merge 4 modes x every truthful hint set (streamed when the first was streamed), other frame with internal names. '
        'Then (SC02) key columns of every dtype: all 146 ordered pairs of key dtypes within {int8..int64, uint8..uint64, bool} x '
        '{the same}, {float32, float64}^2, integer x float (both orders) and {S1,S2,S3,S5,S8}^2, each x 4 modes on the pandas '
        'path (hint-free / non-selecting truthful hints, sorted and unsorted, some with a second key column) and x '
        '{left,right,inner} on the streamed path (truthful unique hints, small and production chunk sizes), 2 structured-'
        'random frames per combination in the quick tier (12 thorough; doubled when a library source differs from the '
        'recorded tree): common values, values at the extremes of each dtype and around 2^7..2^64, and on each side aliases '
        'of the other side\'s keys under every conversion between the two dtypes (wrap-around at 8/16/32/64 bits, sign '
        'reinterpretation, rounding to 24/53 significant bits, truncated fractions, truncated byte strings); keys are sent '
        'to the model in an exact monotone integer encoding; new small literals of the tree under test are planted as key '
        'values, key-column lengths and chunk sizes. Then: exhaustive small scope: every pair of non-decreasing single-key columns of length <= N over 3 symbols '
        '(quick N=3: 400 pairs; thorough N=4: 1225 pairs) x how in {left,right,inner} x every truthful (unique-left, '
        'unique-right) hint combination with both ordered hints set (the streamed path) x join chunk size 1..3 and the '
        'production 1<<20, the map-stream chunk size / value_factor / chunked_copy size rotating over 1..4; the same pairs x '
        '4 modes without hints and with every truthful hint combination that does not select the streamed path (pandas '
        'path, rotated); payload columns rotate over int32, int64, float64, bool, fixed string, categorical, timestamp and '
        'indexed string, left_fields/right_fields over None / [] / key only / payload only / all; then compound keys, '
        'unsorted keys, clashing names and seeded random longer frames with runs planted at chunk boundaries. Each case '
        'is one real merge on HDF5-backed frames (about 15-60 ms), which is what bounds N. Non-trivial = reaches a planted '
        'feature beyond its how/path tags.')
EXHAUSTIVE = {'quick': True, 'thorough': True}
TRUSTED = ['the encoding of key values as integers (harness/props/C02.py _dec_key/_enc_key: integers as themselves, floats '
           'times 2^60, byte strings big-endian in 8 bytes), checked by a round trip on every key column created; its '
           'soundness for the specification is Props/C02.v merge_spec_key_embedding',
           'pandas.merge on (key columns, row index): section variable of the model, instantiated with the relational join; '
           'results of the pandas path are compared up to row order',
           'h5py / HDF5 field storage, Field.create_like, DataFrame.rename (modelled as association-list updates)',
           'numba code generation; numpy slicing semantics (np_slice / np_get of Model/MapStream.v)',
           'chunk sizes are injected by wrapping exetera.core.operations attributes with functools.partial (no source edit)']
ASSUMPTIONS = ['the destination names the documented rule gives (name, or name + suffix when the other side maps a field of the same '
               'name) are distinct and none of them is already in the destination (else no destination can hold the join: '
               'ValueError on every path, checked); none of them is the name of a field the call creates for itself '
               '(else known finding F-C02j); the destination holds no field called _a_map/_b_map/_left_map/_right_map when '
               'the streamed path is taken (F-C02k, repaired)',
               'key values are finite (no NaN: no order, so no truthful ordered hint), floats are multiples of 2^-60 below 1e305, '
               'fixed-string keys at most 8 bytes; the two key columns of a pair are both numeric or both fixed strings',
               'no two keys of opposite sides of an int64/uint64 or integer/float key pair have the same binary64 value '
               '(else known finding F-C02i)',
               'hints are truthful; chunk sizes >= 1; every mapped indexed-string entry fits chunksize*value_factor bytes',
               'no run of equal keys on a trimmed side reaches the join chunk size (else the repaired get_next_chunk raises '
               'a clear ValueError: known finding F-C02g, production chunk size 1<<20)']

_np = _ops = _df = _session = _fields = None
_h5 = {}
_GENS = ['generate_ordered_map_to_left_streamed', 'generate_ordered_map_to_left_left_unique_streamed',
         'generate_ordered_map_to_left_right_unique_streamed', 'generate_ordered_map_to_left_both_unique_streamed',
         'generate_ordered_map_to_inner_streamed', 'generate_ordered_map_to_inner_left_unique_streamed',
         'generate_ordered_map_to_inner_right_unique_streamed', 'generate_ordered_map_to_inner_both_unique_streamed']


def setup():
    global _np, _ops, _df, _session, _fields
    import numpy as np
    from exetera.core import operations as ops, dataframe, session, fields
    _np, _ops, _df, _session, _fields = np, ops, dataframe, session, fields


# ------------------------------------------------------------------ frames
CAT_KEY = {b'a': 0, b'b': 1, b'c': 2, b'd': 3}


def _dataset():
    import io
    if 'ds' not in _h5 or _h5['n'] > 400:
        if 's' in _h5:
            try:
                _h5['s'].close()
            except Exception:
                pass
        s = _session.Session()
        _h5['s'] = s
        _h5['ds'] = s.open_dataset(io.BytesIO(), 'w', 'ds')
        _h5['n'] = 0
    _h5['n'] += 1
    return _h5['ds']


INT_RANGE = {'bool': (0, 1)}
for _b in (8, 16, 32, 64):
    INT_RANGE['int%d' % _b] = (-(1 << (_b - 1)), (1 << (_b - 1)) - 1)
    INT_RANGE['uint%d' % _b] = (0, (1 << _b) - 1)
FLOATS = ('float32', 'float64')
FSCALE = 60                      # float keys are multiples of 2**-60: encoded as value * 2**60
SWIDTH = 8                       # fixed-string keys are at most 8 bytes: encoded big-endian, NUL padded


def _key_enc(ldt, rdt):
    """the encoding of a pair of key columns: 'S' byte strings, 'f' some float involved, 'i' integers only"""
    if ldt[0] == 'S' or rdt[0] == 'S':
        return 'S'
    if ldt in FLOATS or rdt in FLOATS:
        return 'f'
    return 'i'


def _dec_key(z, dt, enc):
    """encoded integer -> the python value stored in a column of dtype dt (exact, checked)"""
    if enc == 'S':
        b = int(z).to_bytes(SWIDTH, 'big').rstrip(b'\0')
        assert len(b) <= int(dt[1:]), (z, dt)
        return b
    if enc == 'f':
        if dt in FLOATS:
            from fractions import Fraction
            import struct
            v = float(Fraction(int(z), 1 << FSCALE))
            assert Fraction(v) * (1 << FSCALE) == z, (z, dt)
            if dt == 'float32':
                assert struct.unpack('f', struct.pack('f', v))[0] == v, (z, dt)
            return v
        assert z % (1 << FSCALE) == 0, (z, dt)
        z = z >> FSCALE
    lo, hi = INT_RANGE[dt]
    assert lo <= z <= hi, (z, dt)
    return int(z)


def _enc_key(x, dt, enc):
    """value read back from a destination column -> encoded integer"""
    if enc == 'S':
        return int.from_bytes(bytes(x).ljust(SWIDTH, b'\0'), 'big')
    if enc == 'f':
        from fractions import Fraction
        if dt in FLOATS:
            fx = float(x)
            if fx != fx or fx in (float('inf'), float('-inf')):
                return 'nonfinite:' + repr(fx)
            q = Fraction(fx) * (1 << FSCALE)
            return int(q) if q.denominator == 1 else 'unencodable:' + repr(fx)
        return int(x) << FSCALE
    return int(x)


def _frame_dt(fr):
    return fr.get('dt') or {}


def _case_encs(case):
    """per key column: encoding of the pair ('i' when the case has no dtype tags)"""
    ld, rd = _frame_dt(case['L']), _frame_dt(case['R'])
    out = []
    for ln, rn in zip(case['L']['kn'], case['R']['kn']):
        a, b = ld.get(ln), rd.get(rn)
        if a is None and b is None:
            out.append(None)
        else:
            out.append(_key_enc(a or _NAME_DT[_kind(case['L'], ln)], b or _NAME_DT[_kind(case['R'], rn)]))
    return out


_NAME_DT = {'k': 'int32', 'i': 'int32', 'K': 'int64', 'l': 'int64'}


def _tagged(case, side):
    """{key column name: (dtype, encoding)} of the dtype-tagged key columns of one side"""
    fr = case[side]
    d = _frame_dt(fr)
    out = {}
    for n, e in zip(fr['kn'], _case_encs(case)):
        if n in d:
            out[n] = (d[n], e)
    return out


def _create_key(df, name, zs, dt, enc):
    np = _np
    vals = [_dec_key(z, dt, enc) for z in zs]
    if dt[0] == 'S':
        f = df.create_fixed_string(name, int(dt[1:])); arr = np.asarray(vals, dtype=dt)
    else:
        f = df.create_numeric(name, dt); arr = np.asarray(vals, dtype=dt)
    assert [_enc_key(x, dt, enc) for x in arr] == [int(z) for z in zs], (name, dt, zs)
    if len(arr) > 0:
        f.data.write(arr)
    return f


def _kd(fr):
    """{field name: kind letter} for the fields whose name does not start with their kind (strengthening VC02)"""
    return fr.get('kd') or {}


def _kind(fr, name):
    return _kd(fr).get(name, name[0])


def _create(df, name, values, kind=None):
    np = _np
    k = kind or name[0]
    if k in 'kiKl':
        f = df.create_numeric(name, 'int32' if k in 'ki' else 'int64')
        arr = np.asarray(values, dtype='int32' if k in 'ki' else 'int64')
    elif k == 'f':
        f = df.create_numeric(name, 'float64'); arr = np.asarray(values, dtype='float64')
    elif k == 'b':
        f = df.create_numeric(name, 'bool'); arr = np.asarray([bool(v) for v in values], dtype=bool)
    elif k == 's':
        f = df.create_fixed_string(name, 3); arr = np.asarray([v.encode() for v in values], dtype='S3')
    elif k == 'c':
        f = df.create_categorical(name, 'int8', CAT_KEY); arr = np.asarray(values, dtype='int8')
    elif k == 't':
        f = df.create_timestamp(name); arr = np.asarray(values, dtype='float64')
    elif k == 'x':
        f = df.create_indexed_string(name)
        if len(values) > 0:
            f.data.write(list(values))
        return f
    else:
        raise ValueError(name)
    if len(arr) > 0:
        f.data.write(arr)
    return f


def _frame_fields(fr):
    return [(n, col) for n, col in zip(fr['kn'], fr['keys'])] + [(n, v) for n, v in fr['cols']]


def _build(ds, tag, fr, tagged=None):
    df = ds.create_dataframe('%s%d' % (tag, _h5['n']))
    for n, v in _frame_fields(fr):
        if tagged and n in tagged:
            _create_key(df, n, v, *tagged[n])
        else:
            _create(df, n, v, _kind(fr, n))
    return df


def _dest_source(case, n):
    """(side, source name) of destination column n under the documented naming rule"""
    ln = [x for x, _ in _mapped(case['L'], case['lf'])]
    rn = [x for x, _ in _mapped(case['R'], case['rf'])]
    if n.endswith('_l') and n[:-2] in ln and n[:-2] in rn:
        return 'L', n[:-2]
    if n.endswith('_r') and n[:-2] in ln and n[:-2] in rn:
        return 'R', n[:-2]
    if n in ln and n not in rn:
        return 'L', n
    if n in rn and n not in ln:
        return 'R', n
    return None, n


def _canon_key(f, dt, enc):
    return [[_enc_key(x, dt, enc)] for x in f.data[:]]


def _key_kind_ok(f, dt):
    tn = type(f).__name__
    if dt[0] == 'S':
        return tn == 'FixedStringField' and f.data.dtype.itemsize == int(dt[1:])
    return tn == 'NumericField' and str(f.data.dtype) == dt


def _canon_field(name, f):
    if f.indexed:
        return [list(s.encode()) for s in f.data[:]]
    d = f.data[:]
    if d.dtype.kind == 'S':
        return [list(bytes(x)) for x in d]
    return [[int(x)] for x in d]


def _kind_ok(name, f):
    fields = _fields
    k = name[0]
    tn = type(f).__name__
    if k in 'kiKlfb':
        want = {'k': 'int32', 'i': 'int32', 'K': 'int64', 'l': 'int64', 'f': 'float64', 'b': 'bool'}[k]
        return tn == 'NumericField' and str(f.data.dtype) == want
    if k == 's':
        return tn == 'FixedStringField' and f.data.dtype.itemsize == 3
    if k == 'c':
        return tn == 'CategoricalField' and dict(f.keys) == {v: kk for kk, v in CAT_KEY.items()}
    if k == 't':
        return tn == 'TimestampField'
    if k == 'x':
        return tn == 'IndexedStringField'
    return False


def _sort_rows(cols):
    """cols: list of [name, values]; jointly sort the rows (canonical form of a result whose order is free)"""
    if not cols:
        return cols
    n = {len(v) for _, v in cols}
    if len(n) != 1:
        return cols
    rows = sorted(zip(*[v for _, v in cols]))
    return [[name, [r[i] for r in rows]] for i, (name, _) in enumerate(cols)]


class _Patched(object):
    """chunk sizes hard-wired at the call sites, injected by wrapping exetera.core.operations attributes"""

    def __init__(self, case):
        self.case, self.saved = case, {}

    def __enter__(self):
        ops, case, saved = _ops, self.case, self.saved
        if case.get('cs') is not None:
            for g in _GENS:
                saved[g] = getattr(ops, g)
                setattr(ops, g, functools.partial(saved[g], chunksize=case['cs']))
        if case.get('mcs') is not None:
            saved['ordered_map_valid_stream'] = ops.ordered_map_valid_stream
            ops.ordered_map_valid_stream = functools.partial(saved['ordered_map_valid_stream'], chunksize=case['mcs'])
            saved['ordered_map_valid_indexed_stream'] = ops.ordered_map_valid_indexed_stream
            ops.ordered_map_valid_indexed_stream = functools.partial(
                saved['ordered_map_valid_indexed_stream'], chunksize=case['mcs'], value_factor=case['vf'])
        return self

    def __exit__(self, *a):
        for k, v in self.saved.items():
            setattr(_ops, k, v)
        return False


def _merge(left, right, dest, lkn, rkn, lf, rf, how, hints, ccs):
    lo, lu, ro, ru = hints
    kw = {}
    if ccs is not None:
        kw['chunk_size'] = ccs
    _df.merge(left, right, dest,
              left_on=lkn[0] if len(lkn) == 1 else tuple(lkn),
              right_on=rkn[0] if len(rkn) == 1 else tuple(rkn),
              left_fields=lf, right_fields=rf, how=how,
              hint_left_keys_ordered=lo, hint_left_keys_unique=lu,
              hint_right_keys_ordered=ro, hint_right_keys_unique=ru, **kw)


def run(case):
    if _generic(case):
        return _run_generic(case)
    ds = _dataset()
    tag = {'L': _tagged(case, 'L'), 'R': _tagged(case, 'R')}
    left = _build(ds, 'l', case['L'], tag['L'])
    right = _build(ds, 'r', case['R'], tag['R'])
    dest = ds.create_dataframe('d%d' % _h5['n'])
    with _Patched(case):
        _merge(left, right, dest, case['L']['kn'], case['R']['kn'], case['lf'], case['rf'], case['how'], case['hints'],
               case.get('ccs'))
    names = sorted(dest.keys())
    cols = []
    for n in names:
        f = dest[n]
        if n in AUX:
            if type(f).__name__ != 'NumericField':
                raise AssertionError('map field type')
            cols.append([n, [[int(x)] for x in f.data[:]]])
            continue
        if n.startswith('valid'):
            if str(f.data.dtype) != 'bool':
                raise AssertionError('valid field dtype')
        else:
            side, src = _dest_source(case, n) if (tag['L'] or tag['R']) else (None, n)
            if side is not None and src in tag[side]:
                if not _key_kind_ok(f, tag[side][src][0]):
                    raise AssertionError('destination key field %s has type %s %s' % (n, type(f).__name__, f.data.dtype))
                cols.append([n, _canon_key(f, *tag[side][src])])
                continue
            if not _kind_ok(n, f):
                raise AssertionError('destination field %s has type %s' % (n, type(f).__name__))
        cols.append([n, _canon_field(n, f)])
    ordered = any(n in AUX for n in names)
    inv = None
    if ordered:
        dts = {str(dest[n].data.dtype) for n in names if n in AUX}
        inv = 1 if dts == {'int32'} else 2 if dts == {'int64'} else 0
    for nm in ('l%d' % _h5['n'], 'r%d' % _h5['n'], 'd%d' % _h5['n']):
        try:
            del ds[nm]
        except Exception:
            pass
    return [1 if ordered else 0, inv, cols if ordered else _sort_rows(cols)]


# ------------------------------------------------------------------ names as data, non-empty destinations, chains (VC02)
# A case is "generic" when a frame carries 'kd' (field kinds independent of the names), when the destination holds
# fields before the call ('pre': [[name, [int32 values]], ...]) or when a second merge follows ('chain'):
#   'chain': {'left': bool      the destination of the first merge is the LEFT (else the RIGHT) frame of the second
#             'how', 'hints'    of the second merge
#             'key': name       key field of the second merge in the first destination (an int32 field)
#             'sel': None|[..]  left_fields / right_fields for the first destination (None: every field it holds,
#                               '_left_map' / '_right_map' / 'valid_l' / 'valid_r' included)
#             'O': frame, 'of': None|[..]   the other frame and its fields}
# Result of a generic case: [ordered?, map dtype code, columns (rows jointly sorted on the pandas path), the fields
# that were in the destination before the call].  Field types are checked against the SOURCE fields under the
# documented naming rule; which fields are join maps / valid flags is decided by the names the rule does not produce.
INTERNAL = ('_left_map', '_right_map', 'valid_l', 'valid_r')
TRANSIENT = ('_a_map', '_b_map')


def _generic(case):
    return bool(case.get('chain') or case.get('pre') or case['L'].get('kd') or case['R'].get('kd'))


def _final(case):
    """(how, hints) of the last merge of the case"""
    ch = case.get('chain')
    return (ch['how'], ch['hints']) if ch else (case['how'], case['hints'])


def _sig(f):
    tn = type(f).__name__
    if tn == 'IndexedStringField':
        return (tn,)
    if tn == 'CategoricalField':
        return (tn, str(f.data.dtype), tuple(sorted((int(k), bytes(v)) for k, v in dict(f.keys).items())))
    d = f.data
    return (tn, str(d.dtype))


def _canon_any(f):
    if f.indexed:
        return [list(s.encode()) for s in f.data[:]]
    d = f.data[:]
    if d.dtype.kind == 'S':
        return [list(bytes(x)) for x in d]
    return [[int(x)] for x in d]


def _run_generic(case):
    ds = _dataset()
    i = _h5['n']
    made = []

    def frame(tag, fr):
        made.append('%s%d' % (tag, i))
        return _build(ds, tag, fr)

    def empty(tag):
        made.append('%s%d' % (tag, i))
        return ds.create_dataframe('%s%d' % (tag, i))
    try:
        left, right = frame('l', case['L']), frame('r', case['R'])
        dest = empty('d')
        pre = case.get('pre') or []
        for n, v in pre:
            _create(dest, n, v, 'i')
        with _Patched(case):
            _merge(left, right, dest, case['L']['kn'], case['R']['kn'], case['lf'], case['rf'], case['how'],
                   case['hints'], case.get('ccs'))
            l2, r2, lf2, rf2, final = left, right, case['lf'], case['rf'], dest
            ch = case.get('chain')
            if ch:
                other = frame('o', ch['O'])
                final = empty('e')
                if ch['left']:
                    l2, r2, lf2, rf2, lk2, rk2 = dest, other, ch['sel'], ch['of'], [ch['key']], ch['O']['kn']
                else:
                    l2, r2, lf2, rf2, lk2, rk2 = other, dest, ch['of'], ch['sel'], ch['O']['kn'], [ch['key']]
                _merge(l2, r2, final, lk2, rk2, lf2, rf2, ch['how'], ch['hints'], case.get('ccs'))
        ln = list(l2.keys()) if lf2 is None else list(lf2)
        rn = list(r2.keys()) if rf2 is None else list(rf2)
        expect = {}
        for n in ln:
            expect[n + '_l' if n in rn else n] = _sig(l2[n])
        for n in rn:
            expect[n + '_r' if n in ln else n] = _sig(r2[n])
        pre_names = [] if ch else [n for n, _ in pre]
        cols, held, mapdts = [], [], set()
        for n in sorted(final.keys()):
            f = final[n]
            if n in pre_names:
                held.append([n, _canon_any(f)])
                continue
            if n in expect:
                if _sig(f) != expect[n]:
                    raise AssertionError('destination field %s is %s, its source is %s' % (n, _sig(f), expect[n]))
            elif n in AUX:
                if type(f).__name__ != 'NumericField':
                    raise AssertionError('map field type')
                mapdts.add(str(f.data.dtype))
            elif n in ('valid_l', 'valid_r'):
                if _sig(f) != ('NumericField', 'bool'):
                    raise AssertionError('valid field dtype')
            else:
                raise AssertionError('unexpected destination field %s' % n)
            cols.append([n, _canon_any(f)])
        how, hints = _final(case)
        ordered = bool(hints[0] and hints[2] and how != 'outer')
        inv = None
        if ordered:
            inv = 1 if mapdts == {'int32'} else 2 if mapdts == {'int64'} else 0
        return [1 if ordered else 0, inv, cols if ordered else _sort_rows(cols), held]
    finally:
        for nm in made:
            try:
                del ds[nm]
            except Exception:
                pass


def warmup():
    L = {'keys': [[1, 2, 2, 4]], 'kn': ['k'], 'cols': [['ia', [1, 2, 3, 4]], ['xa', ['a', '', 'cc', 'd']],
                                                        ['sa', ['a', '', 'cc', 'd']], ['fa', [1, 2, 3, 4]],
                                                        ['ba', [1, 0, 1, 0]], ['ca', [0, 1, 2, 3]], ['ta', [1, 2, 3, 4]],
                                                        ['la', [1, 2, 3, 4]]]}
    R = {'keys': [[0, 2, 3, 4, 4]], 'kn': ['k'], 'cols': [['ib', [1, 2, 3, 4, 5]], ['xb', ['a', '', 'cc', 'd', 'e']],
                                                           ['sb', ['a', '', 'cc', 'd', 'e']], ['fb', [1, 2, 3, 4, 5]],
                                                           ['bb', [1, 0, 1, 0, 1]], ['cb', [0, 1, 2, 3, 0]],
                                                           ['tb', [1, 2, 3, 4, 5]], ['lb', [1, 2, 3, 4, 5]]]}
    Lu = dict(L, keys=[[1, 2, 3, 4]])
    Ru = dict(R, keys=[[0, 2, 3, 4, 5]])
    # how='right' is warmed up with every right row matched: on the unrepaired tree (F-C02c) an unmatched right row
    # makes the compiled kernels read out of bounds, which must not happen in the zygote process
    Rm = dict(R, keys=[[2, 2, 4, 4, 4]])
    R3 = dict(R, keys=[[1, 2, 4]], cols=[[n, v[:3]] for n, v in R['cols']])
    for how in HOWS:
        for (l, r, hints) in ((L, R, [None] * 4), (L, R, [True, False, True, False]), (Lu, R, [True, True, True, False]),
                              (L, Ru, [True, False, True, True]), (Lu, Ru, [True, True, True, True])):
            if how == 'right' and hints[0]:
                lu, ru = hints[1], hints[3]
                r = R3 if ru else Rm
                l = dict(l, keys=[[1, 2, 4, 7]] if lu else ([[1, 2, 4, 4]] if ru else [[1, 2, 2, 4]]))
            for cs in (2, None):
                try:
                    run({'how': how, 'hints': hints, 'L': l, 'R': r, 'lf': None, 'rf': None,
                         'cs': cs, 'mcs': cs, 'vf': 2 if cs else None, 'ccs': cs})
                except Exception:
                    pass


# ------------------------------------------------------------------ wire
def _bytes(s):
    return list(s.encode())


def _wire_col(name, values, kind=None):
    k = kind or name[0]
    if k == 'x':
        idx, vals = [0], []
        for s in values:
            vals.extend(s.encode()); idx.append(len(vals))
        return [_bytes(name), 1, idx, vals]
    if k == 's':
        return [_bytes(name), 0, [48], [], [list(v.encode()) for v in values]]
    return [_bytes(name), 0, [0], [0], [[int(v)] for v in values]]


def _mapped(fr, sel):
    fs = _frame_fields(fr)
    if sel is None:
        return fs
    d = dict(fs)
    return [(n, d[n]) for n in sel]


def _wire_cols(case, side, sel):
    tg = _tagged(case, side)
    return [([_bytes(n), 0, [0], [0], [[int(z)] for z in v]] if n in tg else _wire_col(n, v, _kind(case[side], n)))
            for n, v in _mapped(case[side], sel)]


def _pair_dts(case):
    ld, rd = _frame_dt(case['L']), _frame_dt(case['R'])
    return [(ld.get(ln) or _NAME_DT[_kind(case['L'], ln)], rd.get(rn) or _NAME_DT[_kind(case['R'], rn)])
            for ln, rn in zip(case['L']['kn'], case['R']['kn'])]


def _is_int(dt):
    return dt in INT_RANGE


def binary64_pairs(case):
    """per key column: 1 when the code under test may compare keys of the two columns after converting them to binary64.
      streamed path: the numba kernels compare left[i] with right[j] on the two arrays' own dtypes; numba's rule for a
                     mixed pair is binary64 as soon as one side is a float or the pair is uint64 with a signed integer
                     (comparisons inside one column stay exact);
      pandas path:   pandas casts both columns of an integer/float pair to float64; an int64/uint64 pair is compared
                     exactly when both columns are sorted and one is unique and as float64 otherwise (pandas 3.0);
                     narrower integer pairs are compared exactly (since fix F-C02h widens them in dataframe.py)."""
    out = []
    for a, b in _pair_dts(case):
        if a[0] == 'S' or b[0] == 'S':
            out.append(0)
            continue
        fl = (a in FLOATS or b in FLOATS) and a != b
        mixed64 = _is_int(a) and _is_int(b) and a != b and 'uint64' in (a, b) and (a.startswith('int') or b.startswith('int'))
        out.append(1 if fl or mixed64 else 0)
    return out


def whole_column_cast(case):
    """per key column: 1 on the pandas path for an integer/float pair (both columns are cast to float64 as a whole)"""
    if is_ordered(case):
        return [0] * len(case['L']['kn'])
    return [1 if a[0] != 'S' and b[0] != 'S' and ((a in FLOATS) != (b in FLOATS)) else 0 for a, b in _pair_dts(case)]


def key_views(case):
    """the wire flags kvs of Extract/E_C02.v: the model joins on round_sig 53 of both key columns (Model/KeyView.v).  That
    is exactly what the pandas path does to an integer/float pair (whole-column astype).  The streamed path converts only
    inside cross-column comparisons, which no per-column view expresses, and what pandas does to an int64/uint64 pair
    depends on its internal route: there the model compares exactly and the region where binary64 cannot tell two keys of
    opposite sides apart is delimited by float_collapse()."""
    return whole_column_cast(case)


def _hint(h):
    return 1 if h else 0


BIG = 1 << 20
# The extracted model keeps its buffers as lists: a buffer of 1<<20 entries per kernel step is not affordable.
# For the cases that run the implementation with the production sizes the model is evaluated with MODEL_BIG,
# which (like 1<<20) exceeds every input and output length of such a case (asserted below): no driver refills
# or flushes more than once in either.
MODEL_BIG = 64


def to_val(case):
    lo, lu, ro, ru = case['hints']
    nl, nr = len(case['L']['keys'][0]), len(case['R']['keys'][0])
    if None in (case.get('cs'), case.get('mcs'), case.get('ccs')):
        assert nl * nr + nl + nr < MODEL_BIG
    cs = case['cs'] if case.get('cs') is not None else MODEL_BIG
    mcs = case['mcs'] if case.get('mcs') is not None else MODEL_BIG
    vf = case['vf'] if case.get('vf') is not None else 8
    ccs = case['ccs'] if case.get('ccs') is not None else MODEL_BIG
    v = [VARIANT, HOWS.index(case['how']), _hint(lo), _hint(lu), _hint(ro), _hint(ru),
         case['L']['keys'], case['R']['keys'],
         _wire_cols(case, 'L', case['lf']), _wire_cols(case, 'R', case['rf']),
         _bytes('_l'), _bytes('_r'), cs, mcs, vf, ccs, key_views(case)]
    if _generic(case):
        pre = [_wire_col(n, vals, 'i') for n, vals in (case.get('pre') or [])]
        ch = case.get('chain')
        chain = []
        if ch:
            O = ch['O']
            assert len(O['keys']) == 1
            ocols = [_wire_col(n, vals, _kind(O, n)) for n, vals in _mapped(O, ch['of'])]
            chain = [[1 if ch['left'] else 0, HOWS.index(ch['how'])] + [_hint(h) for h in ch['hints']] +
                     [_bytes(ch['key']), [] if ch['sel'] is None else [[_bytes(n) for n in ch['sel']]], O['keys'][0], ocols]]
        v.append([pre, chain])
    return v


def _dec_cols(cols):
    out = []
    for c in cols:
        name = bytes(c[0]).decode()
        if c[1] == 0:
            vals = c[2]
        else:
            idx, vs = c[2], c[3]
            vals = [vs[idx[i]:idx[i + 1]] for i in range(len(idx) - 1)]
        out.append([name, vals])
    return sorted(out, key=lambda x: x[0])


def _inv_code(case):
    lo, lu, ro, ru = case['hints']
    return 1 if (lu or ru) else 2


def from_val(case, v):
    from harness.core import decode_err
    model, spec = v
    e = decode_err(model)
    if e is not None:
        m = e
    else:
        ordered, cols = model
        cols = _dec_cols(cols)
        if _generic(case):
            pre = [] if case.get('chain') else [n for n, _ in (case.get('pre') or [])]
            held = [c for c in cols if c[0] in pre]
            cols = [c for c in cols if c[0] not in pre]
            hints = _final(case)[1]
            m = [ordered, (1 if (hints[1] or hints[3]) else 2) if ordered else None, cols if ordered else _sort_rows(cols), held]
        else:
            m = [ordered, _inv_code(case) if ordered else None, cols if ordered else _sort_rows(cols)]
    if _generic(case) and not case.get('chain'):
        pre = [n for n, _ in (case.get('pre') or [])]
        k = len(pre)
        return m, _sort_rows(_dec_cols(spec[k:]))          # the specification answer starts with the fields already held
    return m, _sort_rows(_dec_cols(spec))


# ------------------------------------------------------------------ judgement
def is_ordered(case):
    lo, lu, ro, ru = case['hints']
    return bool(lo and ro and len(case['L']['keys']) == 1 and len(case['R']['keys']) == 1 and case['how'] != 'outer')


def variant(case):
    """(kind, a keys, b keys) of the streamed generator the repaired table selects"""
    lo, lu, ro, ru = case['hints']
    L, R = case['L']['keys'][0], case['R']['keys'][0]
    lu, ru = bool(lu), bool(ru)
    if case['how'] == 'right':
        a, b, au, bu = R, L, ru, lu
    else:
        a, b, au, bu = L, R, lu, ru
    kind = ('bu' if bu else 'lu') if au else ('ru' if bu else 'gen')
    return kind, a, b


def _runs(xs):
    out, k = [], 0
    while k < len(xs):
        m = k
        while m + 1 < len(xs) and xs[m + 1] == xs[k]:
            m += 1
        out.append((k, m + 1)); k = m + 1
    return out


def long_run(case):
    if not is_ordered(case):
        return False
    cs = case['cs'] if case.get('cs') is not None else BIG
    kind, a, b = variant(case)
    for trim, xs in ((kind in ('gen', 'ru'), a), (kind in ('gen', 'lu'), b)):
        if trim:
            for (s, e) in _runs(xs):
                if e - s > cs or (e - s == cs and e != len(xs)):
                    return True
    return False


def nonmonotone(case):
    """streamed path, general variant, one key duplicated on both sides: the b-side map is not monotone"""
    if not is_ordered(case):
        return False
    kind, a, b = variant(case)
    if kind != 'gen':
        return False
    da = {a[s] for s, e in _runs(a) if e - s > 1}
    db = {b[s] for s, e in _runs(b) if e - s > 1}
    return bool(da & db)


def _strip(cols):
    return [c for c in cols if c[0] not in AUX and not c[0].startswith('valid')]


def entry_too_long(case):
    """streamed path and some indexed-string entry of a mapped column exceeds the value buffer
    (chunksize*value_factor; 8 MiB in production): outside the property, the repaired stream raises ValueError"""
    if not is_ordered(case) or case.get('mcs') is None:
        return False
    B = case['mcs'] * case['vf']
    for fr, sel in ((case['L'], case['lf']), (case['R'], case['rf'])):
        for n, v in _mapped(fr, sel):
            if n[0] == 'x' and any(len(s.encode()) > B for s in v):
                return True
    return False


def _round_sig(p, z):
    """Model/KeyView.v round_sig: round to nearest, ties to even, p significant bits"""
    a = abs(z)
    if a < (1 << p):
        return z
    e = a.bit_length() - p
    q, r = a >> e, a & ((1 << e) - 1)
    half = 1 << (e - 1)
    if r > half or (r == half and (q & 1)):
        q += 1
    return (q << e) if z >= 0 else -(q << e)


def _cast(z, enc, dt):
    """numpy astype(dt) on an encoded key (what a conversion of one key column to the other's dtype would do)"""
    if enc == 'S':
        w = int(dt[1:])
        return (z >> (8 * (SWIDTH - w))) << (8 * (SWIDTH - w)) if w < SWIDTH else z
    if dt in FLOATS:
        return _round_sig(24 if dt == 'float32' else 53, z)
    sc = FSCALE if enc == 'f' else 0
    v = abs(z) >> sc                          # truncation toward zero
    v = v if z >= 0 else -v
    if dt == 'bool':
        return (1 if z != 0 else 0) << sc
    bits = int(''.join(ch for ch in dt if ch.isdigit()))
    v &= (1 << bits) - 1
    if dt.startswith('int') and v >= (1 << (bits - 1)):
        v -= 1 << bits
    return v << sc


def _dt_width(dt):
    return int(dt[1:]) if dt[0] == 'S' else 1 if dt == 'bool' else int(''.join(ch for ch in dt if ch.isdigit()))


def float_collapse(case):
    """F-C02i: a pair of key columns the code compares as binary64 (key_views) holds, on opposite sides, two different
    keys with the same binary64 value"""
    for j, v in enumerate(binary64_pairs(case)):
        if not v:
            continue
        seen = {}
        for x in set(case['L']['keys'][j]):
            seen.setdefault(_round_sig(53, x), set()).add(x)
        for y in set(case['R']['keys'][j]):
            if seen.get(_round_sig(53, y), set()) - {y}:
                return True
    return False


def cast_alias(case):
    """some conversion of one key column to the other column's dtype would make two different keys of opposite sides equal
    (the region a 'harmonising' astype on either path falls into)"""
    encs = _case_encs(case)
    for j, (a, b) in enumerate(_pair_dts(case)):
        if encs[j] is None or a == b:
            continue
        L, R = set(case['L']['keys'][j]), set(case['R']['keys'][j])
        for (src, dst, dt) in ((R, L, a), (L, R, b)):
            for y in src:
                c = _cast(y, encs[j], dt)
                if c != y and c in dst:
                    return True
    return False


def spec_ok(case, impl, spec, mode):
    """the property itself: names as documented, equal lengths, the multiset of rows of the relational join,
    non-decreasing key order on the streamed path"""
    if impl == 'EXC:ValueError' and entry_too_long(case):
        return True
    if _generic(case):
        return _spec_ok_generic(case, impl, spec)
    if not isinstance(impl, list):
        return False
    ordered, inv, cols = impl
    if len({len(v) for _, v in cols}) > 1:
        return False
    data = _strip(cols)
    if _sort_rows(data) != spec:
        return False
    if ordered:
        kn = case['L']['kn'][0] if case['how'] != 'right' else case['R']['kn'][0]
        sel = case['lf'] if case['how'] != 'right' else case['rf']
        other = case['rf'] if case['how'] != 'right' else case['lf']
        other_names = [n for n, _ in _frame_fields(case['R'] if case['how'] != 'right' else case['L'])] \
            if other is None else other
        if sel is None or kn in sel:
            dn = kn + (('_l' if case['how'] != 'right' else '_r') if kn in other_names else '')
            col = [v for n, v in data if n == dn]
            if len(col) != 1 or any(a > b for a, b in zip(col[0], col[0][1:])):
                return False
    return True


def _spec_names(spec):
    return [n for n, _ in spec]


def names_not_distinct(case, spec):
    """the documented naming rule gives two destination fields the same name (a field 'p_l' next to a clashing 'p', or
    a field of the call that is already in the destination): no destination can hold the join; outside the property,
    every path refuses with ValueError"""
    ns = _spec_names(spec)
    pre = [] if case.get('chain') else [n for n, _ in (case.get('pre') or [])]
    return len(set(ns)) < len(ns) or bool(set(ns) & set(pre))


def _spec_ok_generic(case, impl, spec):
    if names_not_distinct(case, spec):
        return impl == 'EXC:ValueError'
    if not isinstance(impl, list):
        return False
    ordered, inv, cols, held = impl
    if len({len(v) for _, v in cols}) > 1:
        return False
    pay = set(_spec_names(spec))
    # the fields merge adds on its own account are those named like them that the naming rule does not produce
    data = [c for c in cols if c[0] in pay or c[0] not in INTERNAL]
    if _sort_rows(data) != spec:
        return False
    if not case.get('chain'):
        # the fields the destination held before the call are still there, unchanged
        if held != sorted([[n, [[int(x)] for x in v]] for n, v in (case.get('pre') or [])]):
            return False
    return True


def equal(case, impl, expected, mode):
    if isinstance(expected, str):
        if expected.startswith('OOB'):
            return impl == 'EXC:IndexError'
        if expected == 'FUEL':
            return impl == 'HANG'
        return impl == expected
    return impl == expected


def known(case, impl, model, spec, mode):
    if long_run(case) and impl == 'EXC:ValueError':
        return 'F-C02g'
    if _generic(case):
        pre = [n for n, _ in (case.get('pre') or [])]
        # F-C02k: the streamed path creates '_a_map' / '_b_map' / '_left_map' / '_right_map' in the destination and then
        # looks the maps up BY NAME: a destination that already holds a field of one of these names makes the hinted call
        # raise, or (as found) take that field for a join map
        # (F-C02k is repaired in /repo by 76b556a: the silent use of such a field as a join map is gone; what is left in that
        # region is the ValueError 'already exists' when the call has to create a field of that name itself — F-C02j below)
        # F-C02j: a payload field whose documented destination name is a name merge uses for a field of its own
        # ('_left_map' / '_right_map' on the streamed path, 'valid_l' / 'valid_r' on the pandas path when a side has
        # unmatched rows): the call raises ValueError (the model, statement by statement, says so too)
        if impl == 'EXC:ValueError' and model == 'EXC:ValueError' and not names_not_distinct(case, spec) \
                and ((set(_spec_names(spec)) | set(pre)) & set(INTERNAL) or set(pre) & set(TRANSIENT)):
            return 'F-C02j'
    # F-C02i: mixed int64/uint64/float key columns are compared as binary64; suppressed only where two keys of opposite
    # sides collapse AND (integer/float pair on the pandas path, where the conversion is a cast of both columns that the
    # model reproduces) the implementation does exactly what the model predicts
    if float_collapse(case) and isinstance(impl, list):
        if not any(whole_column_cast(case)) or equal(case, impl, model, mode):
            return 'F-C02i'
    # F-C02f (a key duplicated on both sides: non-monotone b-side map) is repaired by work/E7/fix-F-C02f.diff:
    # those cases are held to the specification like every other case, in every mode
    return None


def features(case, model):
    f = ['how:' + case['how'], 'path:' + ('streamed' if is_ordered(case) else 'pandas')]
    L, R = case['L']['keys'], case['R']['keys']
    lo, lu, ro, ru = case['hints']
    if all(h is None for h in case['hints']): f.append('hint-free')
    else: f.append('hints:%d%d%d%d' % tuple(_hint(h) for h in case['hints']))
    if len(L) > 1: f.append('compound-key')
    l0, r0 = list(zip(*L)), list(zip(*R))
    if not l0: f.append('empty-left')
    if not r0: f.append('empty-right')
    sl, sr = set(l0), set(r0)
    um_l = [i for i, k in enumerate(l0) if k not in sr]
    um_r = [i for i, k in enumerate(r0) if k not in sl]
    for nm, um, n in (('left', um_l, len(l0)), ('right', um_r, len(r0))):
        if um:
            if um[0] == 0: f.append('unmatched-%s-start' % nm)
            if um[-1] == n - 1: f.append('unmatched-%s-end' % nm)
            if any(0 < i < n - 1 for i in um): f.append('unmatched-%s-middle' % nm)
    dl = len(sl) < len(l0); dr = len(sr) < len(r0)
    if dl: f.append('dup-left')
    if dr: f.append('dup-right')
    if {k for k in sl if l0.count(k) > 1} & {k for k in sr if r0.count(k) > 1}: f.append('cartesian')
    if l0 != sorted(l0) or r0 != sorted(r0): f.append('unsorted-keys')
    if case['lf'] is not None or case['rf'] is not None: f.append('fields-subset')
    if case['lf'] == [] or case['rf'] == []: f.append('fields-empty-list')
    ln = [n for n, _ in _mapped(case['L'], case['lf'])]
    rn = [n for n, _ in _mapped(case['R'], case['rf'])]
    if set(ln) & set(rn): f.append('name-clash')
    for n in set([_kind(case['L'], x) for x in ln] + [_kind(case['R'], x) for x in rn]): f.append('kind:' + n)
    f += _name_features(case)
    encs = _case_encs(case)
    if any(e is not None for e in encs):
        for (a, b), e in zip(_pair_dts(case), encs):
            if e is None:
                continue
            fam = lambda d: 'S' if d[0] == 'S' else 'float' if d in FLOATS else 'bool' if d == 'bool' else \
                ('uint' if d[0] == 'u' else 'int')
            f.append('keys:%s-%s' % (fam(a), fam(b)))
            f.append('keys:same-dtype' if a == b else 'keys:different-dtype')
            if a != b and fam(a) == fam(b):
                f.append('keys:same-kind-%s' % ('right-wider' if _dt_width(b) > _dt_width(a) else 'left-wider'))
        if cast_alias(case): f.append('keys:cross-side-alias-under-astype')
        if float_collapse(case): f.append('keys:binary64-collapse(F-C02i)')
        if any(binary64_pairs(case)): f.append('keys:compared-as-binary64')
        allk = [z for fr in (case['L'], case['R']) for col in fr['keys'] for z in col]
        if any(abs(z) >> (FSCALE if 'f' in encs else 0) >= (1 << 53) for z in allk) and 'S' not in encs:
            f.append('keys:magnitude>=2^53')
    if is_ordered(case):
        kind, a, b = variant(case)
        f.append('variant:' + kind)
        f.append('sentinel:' + ('S32' if (lu or ru) else 'S64'))
        cs = case.get('cs') or BIG
        mcs = case.get('mcs') or BIG
        if cs < BIG:
            if len(a) > cs or len(b) > cs: f.append('join-multi-chunk')
            f.append('join-cs:%d' % cs)
        else:
            f.append('join-cs:production')
        if kind in ('ru', 'bu'): f.append('map-absent-chunked_copy')
        if long_run(case): f.append('long-run(F-C02g)')
        if entry_too_long(case): f.append('entry-longer-than-value-buffer(outside)')
        if nonmonotone(case): f.append('nonmonotone-map(F-C02f, fixed)')
        if isinstance(model, list):
            maps = [v for n, v in model[2] if n in AUX]
            n_out = len(maps[0]) if maps else 0
            if n_out > mcs: f.append('map-multi-chunk')
            if n_out > cs: f.append('join-buffer-flushed>1')
            if n_out == 0: f.append('empty-result')
            inv = S32 if (lu or ru) else S64
            for m in maps:
                flat = [x[0] if len(x) == 1 else None for x in m]      # (a payload field may be called like a map field)
                if inv in flat: f.append('map-has-sentinel')
                for s in range(0, len(flat), mcs):
                    if flat[s:s + mcs] and all(x == inv for x in flat[s:s + mcs]):
                        f.append('all-invalid-map-chunk'); break
        else:
            f.append('model:' + str(model))
    return sorted(set(f))


def nontrivial(case, model):
    fs = [x for x in features(case, model)
          if not x.startswith(('how:', 'path:', 'kind:', 'hint', 'sentinel', 'join-cs', 'keys:same-dtype', 'keys:different-dtype'))]
    return len(fs) > 0


# ------------------------------------------------------------------ generators
def _nondecr(n, k):
    for m in range(n + 1):
        for c in itertools.combinations_with_replacement(range(k), m):
            yield list(c)


def _strict(xs):
    return all(a < b for a, b in zip(xs, xs[1:]))


_STR = ['a', '', 'cc', 'dab', 'e', 'ff', 'g', 'hh', 'iii', 'j', 'kk', 'l', 'mmm', 'n', 'oo', 'p']
_LONG = ['a', '', 'cc', 'dddd', 'eeeee', 'f', 'gggggg', 'hh', 'iii', 'j', 'kk', 'l', 'mmm', 'n', 'oo', 'p']


def _payload(kind, n, side):
    base = 0 if side == 'l' else 50
    if kind in 'ilft':
        return [base + 10 * (i + 1) for i in range(n)]
    if kind == 'b':
        return [(i + (side == 'r')) % 2 for i in range(n)]
    if kind == 'c':
        return [(i + (side == 'r')) % 4 for i in range(n)]
    if kind == 's':
        return [_STR[(i + (3 if side == 'r' else 0)) % len(_STR)] for i in range(n)]
    if kind == 'x':
        return [_LONG[(i + (5 if side == 'r' else 0)) % len(_LONG)] for i in range(n)]
    raise ValueError(kind)


# payload templates: (left kinds, right kinds); names = kind + 'a'.. on the left, kind + 'p'.. on the right,
# a shared name when the letter is upper-cased in SHARED
_TEMPLATES = [('ix', 'is'), ('xs', 'xf'), ('fb', 'lx'), ('ct', 'xc'), ('sl', 'tb'), ('xi', 'xi'), ('i', 'x'), ('x', 'i')]


def _frame(keys, kn, kinds, side, shared=False):
    n = len(keys[0])
    cols = []
    for j, k in enumerate(kinds):
        name = k + ('z' if shared and j == 0 else ('abcdefgh'[j] if side == 'l' else 'pqrstuvw'[j]))
        cols.append([name, _payload(k, n, side)])
    return {'keys': keys, 'kn': kn, 'cols': cols}


_FIELD_SEL = [(None, None), (None, None), (None, None), ('pay', None), (None, 'key'), ([], None), (None, []), ('key', 'pay'),
              ('all', 'all')]


def _sel(fr, what):
    if what is None or isinstance(what, list):
        return what
    if what == 'key':
        return list(fr['kn'])
    if what == 'pay':
        return [n for n, _ in fr['cols']]
    return [n for n, _ in reversed(_frame_fields(fr))]


def _mk(how, hints, L, R, cnt, cs, same_key_name=True):
    tl, tr = _TEMPLATES[cnt % len(_TEMPLATES)]
    shared = (cnt % 5 == 2) and tl[0] == tr[0]
    fl = _frame([L], ['k'], tl, 'l', shared)
    fr = _frame([R], ['k' if same_key_name else 'kr'], tr, 'r', shared)
    sl, sr = _FIELD_SEL[(cnt // 3) % len(_FIELD_SEL)]
    rot = [1, 2, 3, 4]
    c = {'how': how, 'hints': hints, 'L': fl, 'R': fr, 'lf': _sel(fl, sl), 'rf': _sel(fr, sr)}
    if cs is None:
        c.update(cs=None, mcs=None, vf=None, ccs=None)
    else:
        c.update(cs=cs, mcs=rot[cnt % 4], vf=[8, 2, 8, 3, 8, 1][(cnt // 4) % 6], ccs=rot[(cnt // 2) % 4])
    return c


_PANDAS_HINTS = [[None] * 4, [True, None, False, None], [None, 'u', None, 'u'], [False, False, True, 'u'],
                 [True, 'u', None, None], [None, None, True, 'u']]


def _truth(h, L, R):
    """replace 'u' by the truthful unique flag"""
    lo, lu, ro, ru = h
    if lu == 'u': lu = True if _strict(L) else None
    if ru == 'u': ru = True if _strict(R) else None
    return [lo, lu, ro, ru]


def gen(tier, rng):
    if os.environ.get('C02_SECTIONS') == 'names':
        # dev knob: only sections G-I (names as data, destinations holding fields, chains); the corpus still runs first
        for c in _gen_names(tier, rng):
            yield c
        return
    n = 3 if tier == 'quick' else 4
    seqs = list(_nondecr(n, 3))
    cnt = 0
    css = [1, 2, 3, None] if tier == 'quick' else [1, 2, 3, 4, 5, None]
    css_trim = [2, 3, 4, None] if tier == 'quick' else [2, 3, 4, 5, 6, None]     # cs=1 on a trimmed side is always a long run
    # A. the streamed path, exhaustively
    for L in seqs:
        for R in seqs:
            for how in ('left', 'right', 'inner'):
                for lu in ((False, True) if _strict(L) else (False,)):
                    for ru in ((False, True) if _strict(R) else (False,)):
                        for cs in (css if (lu and ru) else css_trim):
                            if tier == 'quick' and cs is None and (cnt % 3):
                                cnt += 1
                                continue
                            if tier == 'quick' and len(L) + len(R) >= 5 and (cnt % 2):
                                cnt += 1          # quick tier: the largest pairs alternate over the chunk sizes
                                continue
                            yield _mk(how, [True, lu or None if cnt % 2 else lu, True, ru], L, R, cnt, cs,
                                      same_key_name=(cnt % 7 != 3))
                            cnt += 1
    # B. the pandas path: hint-free and every kind of non-selecting truthful hint
    for L in seqs:
        for R in seqs:
            for how in HOWS:
                hs = [_PANDAS_HINTS[0], _PANDAS_HINTS[1 + cnt % 5]] if how != 'outer' else \
                     [_PANDAS_HINTS[0], [True, 'u', True, 'u']]
                if tier == 'quick' and (cnt % 2):
                    hs = hs[1:]
                for h in hs:
                    if tier == 'quick' and len(L) + len(R) >= 5 and (cnt % 2):
                        cnt += 1
                        continue
                    yield _mk(how, _truth(h, L, R), L, R, cnt, None, same_key_name=(cnt % 7 != 3))
                    cnt += 1
    # C. compound keys (pandas path only, with and without ordered hints)
    pairs = [(a, b) for a in range(2) for b in range(2)]
    rows = [list(c) for m in range(0, 4) for c in itertools.combinations_with_replacement(pairs, m)]
    step = 7 if tier == 'quick' else 2
    for iL, Lr in enumerate(rows):
        for iR, Rr in enumerate(rows):
            if (iL * len(rows) + iR) % step:
                continue
            how = HOWS[cnt % 4]
            tl, tr = _TEMPLATES[cnt % len(_TEMPLATES)]
            Lk = [[r[0] for r in Lr], [r[1] for r in Lr]]
            Rk = [[r[0] for r in Rr], [r[1] for r in Rr]]
            fl = _frame(Lk, ['k', 'Kb'], tl, 'l')
            fr = _frame(Rk, ['k', 'Kq'], tr, 'r')
            yield {'how': how, 'hints': [True, None, True, None] if cnt % 2 else [None] * 4, 'L': fl, 'R': fr,
                   'lf': None, 'rf': None, 'cs': None, 'mcs': None, 'vf': None, 'ccs': None}
            cnt += 1
    # D. unsorted keys: the ordered hints must be absent/false
    for _ in range(150 if tier == 'quick' else 1500):
        L = [rng.randint(0, 3) for _ in range(rng.randint(0, 5))]
        R = [rng.randint(0, 3) for _ in range(rng.randint(0, 5))]
        h = [None if sorted(L) != L else rng.choice([None, True]), rng.choice([None, False]) if len(set(L)) < len(L) else True,
             None if sorted(R) != R else rng.choice([None, False]), None if len(set(R)) < len(R) else rng.choice([None, True])]
        if h[0] and h[2]:
            h[2] = False
        yield _mk(HOWS[cnt % 4], h, L, R, cnt, None)
        cnt += 1
    # E. structured random longer frames on the streamed path, runs planted around the chunk boundaries
    for _ in range(400 if tier == 'quick' else 6000):
        cs = rng.randint(2, 6)

        def side(unique):
            xs, key = [], 0
            target = rng.randint(0, 3 * cs)
            while len(xs) < target:
                key += rng.choice([1, 1, 2, 3])
                run = 1 if unique else rng.choice([1, 1, 1, 2, cs - 1, cs - 1, max(1, cs - 2)])
                xs.extend([key] * run)
            return xs
        lu, ru = rng.choice([(False, False), (True, False), (False, True), (True, True)])
        L, R = side(lu), side(ru)
        if not lu and not ru and rng.random() < 0.4:
            # general variant: part of the cases without a key duplicated on both sides (monotone b-side map), the rest
            # many-to-many (non-monotone b-side map, F-C02f region, repaired)
            dl = {k for k in L if L.count(k) > 1}
            R = [k for i, k in enumerate(R) if not (k in dl and i > 0 and R[i - 1] == k)]
        c = _mk(rng.choice(['left', 'right', 'inner']), [True, lu, True, ru], L, R, cnt, cs)
        c['mcs'] = rng.randint(1, 6); c['ccs'] = rng.randint(1, 6); c['vf'] = rng.choice([8, 2, 3])
        yield c
        cnt += 1
    # G-I. names as data: payload / key fields called like the fields merge creates itself, destinations that already
    # hold fields, chains of two merges (strengthening VC02); placed before F so that a budget cut never drops them
    for c in _gen_names(tier, rng):
        yield c
    # F. key columns of every dtype, different on the two sides, values at the extremes and their aliases
    for c in _gen_key_dtypes(tier, rng, cnt):
        yield c


# ------------------------------------------------------------------ F. key columns of every dtype, the two sides differing
# (strengthening SC02).  Values are exact rationals (Fraction) / bytes; _zenc gives the model's integer.
_INT_DTS = ['int8', 'int16', 'int32', 'int64', 'uint8', 'uint16', 'uint32', 'uint64', 'bool']
_S_DTS = ['S1', 'S2', 'S3', 'S5', 'S8']


def _f32(x):
    import struct
    try:
        return struct.unpack('f', struct.pack('f', x))[0]
    except OverflowError:
        return float('inf')


def _fits(x, dt):
    """x (Fraction | bytes) is a value of dtype dt that the encoding can carry"""
    from fractions import Fraction
    if dt[0] == 'S':
        return isinstance(x, bytes) and len(x) <= int(dt[1:]) and not x.endswith(b'\0')
    if isinstance(x, bytes):
        return False
    if dt in INT_RANGE:
        lo, hi = INT_RANGE[dt]
        return x.denominator == 1 and lo <= x <= hi
    if (x * (1 << FSCALE)).denominator != 1 or abs(x) > Fraction(10) ** 305:
        return False
    v = float(x)
    if Fraction(v) != x:
        return False
    return dt == 'float64' or _f32(v) == v


def _zenc(x, enc):
    if enc == 'S':
        return int.from_bytes(x.ljust(SWIDTH, b'\0'), 'big')
    if enc == 'f':
        return int(x * (1 << FSCALE))
    return int(x)


_POOL_CACHE = {}


def _pool(dt):
    """values at the extremes of dt and around every power of two at which an integer / float dtype ends"""
    from fractions import Fraction as F
    if dt in _POOL_CACHE:
        return _POOL_CACHE[dt]
    if dt[0] == 'S':
        c = [b'', b'a', b'b', b'ab', b'abc', b'abd', b'abcd', b'abcde', b'abcdefg', b'abcdefgh', b'\xff', b'a\x80', b'a\x00b',
             b'\x01', b'zzzzzzzz', b'\xc3\xa9', b'ab\xff']
    else:
        c = {F(v) for v in (0, 1, 2, 3, -1, -2)}
        for b in (7, 8, 15, 16, 23, 24, 31, 32, 52, 53, 63, 64, 127, 128):
            for d in (-2, -1, 0, 1, 2):
                c.add(F((1 << b) + d)); c.add(F(-(1 << b) + d))
        if dt in FLOATS:
            c |= {F(1, 2), F(3, 2), F(-3, 2), F(1, 4), 1 + F(1, 1 << 23), 1 + F(1, 1 << 24), 1 + F(1, 1 << 30), 1 + F(1, 1 << 52),
                  2 - F(1, 1 << 23), F(1 << 24) + F(1, 2), F((1 << 128) - (1 << 104)), F(1 << 128), F(10) ** 300 // 1,
                  F(float(10 ** 300)), -F(float(10 ** 300)), F(255) + F(1, 2), F(1, 1 << 40)}
    out = sorted(x for x in c if _fits(x, dt))
    _POOL_CACHE[dt] = out
    return out


def _aliases(x, dt_to, rng):
    """values of dt_to, different from x, that SOME conversion between key dtypes maps to x (or x to them): wrap-around at
    8/16/32/64 bits, sign reinterpretation, rounding to a 24- or 53-bit significand, truncation of a fraction, truncation
    of a byte string to a shorter width"""
    from fractions import Fraction as F
    out = []
    if isinstance(x, bytes):
        w = int(dt_to[1:]) if dt_to[0] == 'S' else 0
        for ext in (b'd', b'\x01', b'de', b'\xff', b'defgh', b' '):
            y = (x + ext)[:w]
            if len(y) > len(x):
                out.append(y)
        if len(x) > 1:
            out.append(x[:-1])
        return [y for y in out if y != x and _fits(y, dt_to)]
    if x.denominator == 1:
        for w in (8, 16, 32, 64):
            for m in (-2, -1, 1, 2):
                out.append(x + m * (1 << w))
        out += [x + 1, x - 1]
    if dt_to in FLOATS:
        out += [x + F(1, 2), x - F(1, 4), x + F(1, 1 << 40)]
        if x != 0:
            for p in (23, 24, 30, 52, 53):
                out += [x * (1 + F(1, 1 << p)), x * (1 - F(1, 1 << p))]
            lg = (abs(x.numerator).bit_length() - x.denominator.bit_length())
            for p in (23, 24, 52, 53):
                out += [x + F(2) ** (lg - p), x - F(2) ** (lg - p)]
    elif x.denominator != 1:
        out += [F(x.numerator // x.denominator), F(x.numerator // x.denominator + 1), F(round(x))]
    out = [y for y in out if y != x and _fits(y, dt_to)]
    rng.shuffle(out)
    return out


def _own_width_aliases(x, dt_from, dt_to):
    """the aliases of x under astype(dt_from) among the values of dt_to (conversion to one of the two columns' own dtypes)"""
    from fractions import Fraction as F
    out = []
    if isinstance(x, bytes):
        w = int(dt_from[1:])
        if len(x) == w:
            out = [x + b'd', x + b'\x01z']
    elif dt_from in INT_RANGE and dt_from != 'bool' and x.denominator == 1:
        bits = int(dt_from.lstrip('uint'))
        out = [x + m * (1 << bits) for m in (1, -1, 2)]
    elif dt_from in FLOATS and x != 0:
        p = 23 if dt_from == 'float32' else 52
        lg = (abs(x.numerator).bit_length() - x.denominator.bit_length())
        out = [x + F(2) ** (lg - p - 2), x - F(2) ** (lg - p - 2), x + F(2) ** (lg - p - 6)]
    elif dt_from == 'bool':
        out = [F(2), F(3), F(-1), F(256)]
    return [y for y in out if y != x and _fits(y, dt_to)]


def _dtype_pairs():
    ps = [(a, b) for a in _INT_DTS for b in _INT_DTS]
    ps += [(a, b) for a in FLOATS for b in FLOATS]
    ps += [(a, b) for a in _INT_DTS for b in FLOATS] + [(a, b) for a in FLOATS for b in _INT_DTS]
    ps += [(a, b) for a in _S_DTS for b in _S_DTS]
    return ps


def _key_sides(a, b, rng, sort, n_max=6):
    """two key columns (exact values) of dtypes a, b: common values (true matches), values at the extremes of each
    dtype, and on each side aliases of the other side's values under conversions between the two dtypes"""
    pa, pb = _pool(a), _pool(b)
    common = [x for x in pa if _fits(x, b)]
    base = rng.sample(common, min(len(common), rng.randint(1, 3)))
    L = [x for x in base if rng.random() < 0.8] + rng.sample(pa, min(len(pa), rng.randint(0, 2)))
    R = [x for x in base if rng.random() < 0.8] + rng.sample(pb, min(len(pb), rng.randint(0, 2)))
    for (src, dsrc, dst, ddst) in ((L, a, R, b), (R, b, L, a)):
        for x in list(src):
            al = _own_width_aliases(x, dsrc, ddst) if rng.random() < 0.7 else []
            if not al:
                al = _aliases(x, ddst, rng)
            if al and rng.random() < 0.75:
                dst.append(rng.choice(al[:4]))
    L, R = L[:n_max], R[:n_max]
    big = ('int64', 'uint64')
    if ((a in big and b in FLOATS) or (b in big and a in FLOATS) or (a in big and b in big)) and rng.random() < 0.35:
        # two keys one apart at a magnitude where binary64 cannot tell them apart (the comparison type of a mixed pair;
        # a same-dtype 64-bit pair must of course tell them apart)
        from fractions import Fraction as F
        v = F(1 << rng.choice([53, 54, 60, 62, 63]))
        for w, (sd, dt) in zip(rng.sample([v, v + 1, v - 1], 2), ((L, a), (R, b))):
            if _fits(w, dt):
                sd.append(w)
            elif _fits(v, dt):
                sd.append(v)
    L[:] = sorted(set(L)); R[:] = sorted(set(R))
    for side in (L, R):
        if side and rng.random() < 0.3:
            side.append(rng.choice(side))
    if sort:
        L.sort(); R.sort()
    else:
        rng.shuffle(L); rng.shuffle(R)
    return L, R


def _dtype_case(a, b, how, path, rng, cnt):
    enc = _key_enc(a, b)
    L, R = _key_sides(a, b, rng, sort=(path == 'streamed' or rng.random() < 0.7))
    Lz, Rz = [_zenc(x, enc) for x in L], [_zenc(x, enc) for x in R]
    same = (cnt % 3 == 0)
    fl = {'keys': [Lz], 'kn': ['k'], 'cols': [['ia', _payload('i', len(Lz), 'l')]], 'dt': {'k': a}}
    fr = {'keys': [Rz], 'kn': ['k' if same else 'kr'], 'cols': [['ip', _payload('i', len(Rz), 'r')]],
          'dt': {('k' if same else 'kr'): b}}
    if path == 'streamed':
        lu = _strict(Lz) and rng.random() < 0.5
        ru = _strict(Rz) and rng.random() < 0.5
        hints = [True, lu, True, ru]
        if rng.random() < 0.25:
            sizes = dict(cs=None, mcs=None, vf=None, ccs=None)
        else:
            sizes = dict(cs=rng.randint(3, 6), mcs=rng.randint(1, 4), vf=8, ccs=rng.randint(1, 4))
    else:
        srt = Lz == sorted(Lz) and Rz == sorted(Rz)
        h = rng.choice(_PANDAS_HINTS) if how != 'outer' else rng.choice([[None] * 4, [True, 'u', True, 'u']])
        if not srt:
            h = [None, h[1], None, h[3]]
        hints = _truth(h, Lz, Rz)
        if hints[1] and len(set(Lz)) < len(Lz): hints[1] = None
        if hints[3] and len(set(Rz)) < len(Rz): hints[3] = None
        sizes = dict(cs=None, mcs=None, vf=None, ccs=None)
        if rng.random() < 0.2 and enc == 'i':
            # compound key: a second, small int32 key column on both sides
            k2l = [rng.randint(0, 1) for _ in Lz]; k2r = [rng.randint(0, 1) for _ in Rz]
            fl['keys'].append(k2l); fl['kn'].append('kb')
            fr['keys'].append(k2r); fr['kn'].append('kb' if same else 'kq')
            hints = [None] * 4 if cnt % 2 else hints[:1] + [None] + hints[2:3] + [None]
    c = {'how': how, 'hints': hints, 'L': fl, 'R': fr, 'lf': None, 'rf': None}
    c.update(sizes)
    return c


def _gen_key_dtypes(tier, rng, cnt0):
    from harness import hot
    reps = 2 if tier == 'quick' else 12
    if hot.changed():
        reps *= 2            # some library source differs from the recorded tree: larger structured-random budget
    cnt = cnt0
    for rep in range(reps):
        for (a, b) in _dtype_pairs():
            for how, path in [(h, 'pandas') for h in HOWS] + [(h, 'streamed') for h in ('left', 'right', 'inner')]:
                c = _dtype_case(a, b, how, path, rng, cnt)
                cnt += 1
                nl, nr = len(c['L']['keys'][0]), len(c['R']['keys'][0])
                if c['cs'] is None and not (nl * nr + nl + nr < MODEL_BIG):
                    continue
                if float_collapse(c) and not any(whole_column_cast(c)):
                    # F-C02i where no per-column model predicts the result (numba's per-comparison conversion, pandas'
                    # int64/uint64 route): witnesses live in corpus/C02/F-C02i.json; the cross-cutting checks C10/C11 that
                    # re-run this generator compare with the model only
                    continue
                yield c
    # change-directed: a small integer literal K that is new in the tree under test may be a threshold on a key value, a
    # key-column length or a chunk size: key values and lengths K-1, K, K+1, 2K with chunk sizes around K, on both paths
    for K in hot.hot_sizes():
        if not (2 <= K <= 400):
            continue
        for n in (K - 1, K, K + 1, 2 * K):
            for how, path in [(h, 'pandas') for h in HOWS] + [(h, 'streamed') for h in ('left', 'right', 'inner')]:
                a, b = rng.choice([('int32', 'int64'), ('int64', 'int32'), ('uint16', 'int32'), ('int64', 'int64'),
                                   ('int16', 'uint32')])
                Lz = sorted(rng.sample(range(0, 2 * n + 2), n))
                Rz = sorted(rng.sample(range(0, 2 * n + 2), rng.choice([n, max(1, K - 1), min(n, 3)])))
                for side, dt in ((Lz, a), (Rz, b)):
                    for v in (K - 1, K, K + 1, 2 * K, K + (1 << 16), K + (1 << 32)):
                        if INT_RANGE[dt][0] <= v <= INT_RANGE[dt][1] and rng.random() < 0.5 and v not in side:
                            side.append(v)
                    side.sort()
                fl = {'keys': [Lz], 'kn': ['k'], 'cols': [['ia', _payload('i', len(Lz), 'l')]], 'dt': {'k': a}}
                fr = {'keys': [Rz], 'kn': ['kr'], 'cols': [['ip', _payload('i', len(Rz), 'r')]], 'dt': {'kr': b}}
                c = {'how': how, 'L': fl, 'R': fr, 'lf': None, 'rf': None}
                c['hints'] = [True, rng.random() < 0.5, True, rng.random() < 0.5] if path == 'streamed' else [None] * 4
                # (the pandas path reads none of the sizes; they are given so that the model is not asked for 1<<20 buffers)
                c.update(cs=max(2, rng.choice([K - 1, K, K + 1, 2 * K])), mcs=max(1, rng.choice([K - 1, K, K + 1])), vf=8,
                         ccs=max(1, rng.choice([K - 1, K, K + 1])))
                yield c


# ------------------------------------------------------------------ G-I. names as data (strengthening VC02)
# every name merge / _ordered_merge / _unordered_merge use for a field or a pandas column of their own
_INTERNAL_NAMES = ['_left_map', '_right_map', '_a_map', '_b_map', 'valid_l', 'valid_r', 'valid', 'l_i', 'r_i', 'l_k', 'r_k',
                   'l_k_0', 'r_k_0', '_l', '_r']
# key columns: (left, right) with every truthfulness of the unique hints, unmatched rows at start / middle / end
_NAME_KEYS = [([1, 2, 4], [2, 3, 4]), ([0, 1, 3, 5], [1, 2, 3, 6]), ([1, 2, 2, 4], [2, 3, 4]), ([1, 3, 3], [0, 1, 3, 5]),
              ([1, 2, 4], [2, 2, 5]), ([0, 2, 3], [0, 0, 3, 3, 4]), ([1, 1, 2], [1, 2, 2, 3]), ([2, 2, 3], [1, 2, 2]),
              ([], [1, 2]), ([1, 2], []), ([2], [2])]


def _ref_pairs(how, L, R):
    """the relational join as (left row | None, right row | None), in the order of Spec/MergeSpec.v join_pairs"""
    def left_pairs(A, B):
        out = []
        for i, x in enumerate(A):
            ms = [j for j, y in enumerate(B) if y == x]
            out += [(i, j) for j in ms] if ms else [(i, None)]
        return out
    if how == 'left':
        return left_pairs(L, R)
    if how == 'right':
        return [(i, j) for (j, i) in left_pairs(R, L)]
    inner = [(i, j) for i, x in enumerate(L) for j, y in enumerate(R) if x == y]
    if how == 'inner':
        return inner
    return left_pairs(L, R) + [(None, j) for j, y in enumerate(R) if y not in L]


def _hint_sets(how, L, R, quick, cnt):
    """truthful hint combinations: the streamed path with every truthful pair of unique hints, hint-free, and a
    non-selecting set"""
    out = []
    if how != 'outer':
        for lu in ((False, True) if _strict(L) else (False,)):
            for ru in ((False, True) if _strict(R) else (False,)):
                out.append([True, lu, True, ru])
    out.append([None] * 4)
    out.append(_truth([None, 'u', True, 'u'] if cnt % 2 else [True, 'u', None, None], L, R))
    return out


def _map_like(n, m, cnt):
    """payload values that look like a join map into a frame of m rows (so that code which takes the column for a map
    reads inside the frame and silently produces other rows)"""
    m = max(1, m)
    return [((n - 1 - i) if cnt % 2 else (i // 2)) % m for i in range(n)]


def _named_frames(L, R, lname, rname, kind, cnt, same_key=False, lkey='k', rkey='kr'):
    nl, nr = len(L), len(R)
    m = min(nl, nr)
    def col(name, n, side):
        if name is None:
            return []
        vals = _map_like(n, m, cnt) if kind in 'il' else _payload(kind, n, side)
        return [[name, vals]]
    rkey = lkey if same_key else rkey
    fl = {'keys': [L], 'kn': [lkey], 'cols': [['ia', _payload('i', nl, 'l')]] + col(lname, nl, 'l'), 'kd': {lkey: 'k'}}
    fr = {'keys': [R], 'kn': [rkey], 'cols': [['xp', _payload('x', nr, 'r')]] + col(rname, nr, 'r'), 'kd': {rkey: 'k'}}
    if lname: fl['kd'][lname] = kind
    if rname: fr['kd'][rname] = kind
    return fl, fr


def _sizes(cnt):
    if cnt % 3 == 0:
        return dict(cs=None, mcs=None, vf=None, ccs=None)
    return dict(cs=[4, 5, 3][cnt % 3], mcs=1 + cnt % 4, vf=8, ccs=1 + (cnt // 2) % 3)


def _dest1_names(case):
    """names of the fields the destination holds after the (first) merge of a case without internal-name clashes"""
    ln = [n for n, _ in _mapped(case['L'], case['lf'])]
    rn = [n for n, _ in _mapped(case['R'], case['rf'])]
    names = [n + '_l' if n in rn else n for n in ln] + [n + '_r' if n in ln else n for n in rn]
    L, R = case['L']['keys'][0], case['R']['keys'][0]
    lo, lu, ro, ru = case['hints']
    if is_ordered(case):
        if case['how'] == 'inner':
            names += ['_left_map', '_right_map']
        elif case['how'] == 'left':
            names += ['_right_map'] + ([] if ru else ['_left_map'])
        else:
            names += ['_left_map'] + ([] if lu else ['_right_map'])
    else:
        pairs = _ref_pairs(case['how'], L, R)
        if any(i is None for i, _ in pairs): names.append('valid_l')
        if any(j is None for _, j in pairs): names.append('valid_r')
    return names


def _gen_names(tier, rng):
    from harness import hot
    quick = (tier == 'quick')
    cnt = 0
    kinds = 'ilixsif'
    # G. one merge; a payload field of the left frame, of the right frame or of both is called like an internal field
    #    (or like an internal field with a suffix); the key fields are called like the pandas key columns
    names = list(_INTERNAL_NAMES) + [n + sfx for n in ('_left_map', '_right_map', 'valid', 'ia', 'k') for sfx in ('_l', '_r')]
    for name in names:
        other = {'_left_map': '_right_map', '_right_map': '_left_map', 'valid_l': 'valid_r', 'valid_r': 'valid_l',
                 '_a_map': '_b_map', '_b_map': '_a_map', 'l_i': 'r_i', 'r_i': 'l_i', 'l_k': 'r_k', 'r_k': 'l_k'}.get(name, 'ia')
        for place in ((name, None), (None, name), (name, name), (name, other)):
            for how in HOWS:
                # quick tier: the names of the two join-map fields with 4 key pairs (both / right / left / no side unique)
                # and every truthful hint set; every other name with one key pair and one hint set, both in rotation
                hot_name = name in AUX
                kps = [0, 1, 2, 4, 6, 8] if not quick else ([0, 2, 4, 6] if hot_name else [(cnt * 5) % len(_NAME_KEYS)])
                for kp in kps:
                    L, R = _NAME_KEYS[kp]
                    hs = _hint_sets(how, L, R, quick, cnt)
                    if quick and not hot_name:
                        hs = [hs[(cnt // 3) % len(hs)]]
                    for h in hs:
                        kind = kinds[cnt % len(kinds)]
                        lk, rk, same = [('k', 'kr', False), ('k', 'kr', True), ('l_k', 'r_k', False), ('r_k', 'l_k', False),
                                        ('l_i', 'r_i', False), ('_left_map', '_right_map', False)][(cnt // 3) % 6] \
                            if cnt % 4 == 1 else ('k', 'kr', cnt % 4 == 2)
                        if lk in place or rk in place:
                            lk, rk = 'k', 'kr'
                        fl, fr = _named_frames(L, R, place[0], place[1], kind, cnt, same, lk, rk)
                        c = {'how': how, 'hints': h, 'L': fl, 'R': fr, 'lf': None, 'rf': None}
                        c.update(_sizes(cnt))
                        if cnt % 5 == 4:
                            c['lf'] = [n for n, _ in reversed(_frame_fields(fl))]
                        yield c
                        cnt += 1
    # H. the destination already holds fields
    for pre_name in ['zz', '_a_map', '_b_map', '_left_map', '_right_map', 'valid_l', 'valid_r', 'ia', 'k', 'l_i']:
        for how in HOWS:
            for kp in (range(len(_NAME_KEYS)) if not quick else [[0, 2, 4, 6][cnt % 4]]):
                L, R = _NAME_KEYS[kp]
                for h in _hint_sets(how, L, R, quick, cnt):
                    # (incl. the region of F-C02k, repaired by /repo 76b556a: a destination that already holds '_a_map' /
                    # '_left_map' / '_right_map' while the call does not write that map itself)
                    fl, fr = _named_frames(L, R, None, None, 'i', cnt)
                    c = {'how': how, 'hints': h, 'L': fl, 'R': fr, 'lf': None, 'rf': None,
                         'pre': [[pre_name, _map_like(3 + cnt % 2, min(len(L), len(R)), cnt)]]}
                    c.update(_sizes(cnt))
                    yield c
                    cnt += 1
    # I. chains: the destination of one merge is the left / right frame of the next
    reps = 1
    if hot.changed():
        reps *= 2
    okeys = [[0, 1, 3, 4, 5], [1, 1, 2, 4], [2, 3], [0, 1, 2, 3, 4, 5, 9, 10], []]
    onames = [['xo'], ['_left_map'], ['_right_map'], ['valid_l', 'ia'], ['_left_map', '_right_map'], ['ia_l', 'xp'], ['k_l', 'valid_r']]
    for rep in range(reps):
        for kp in (range(len(_NAME_KEYS)) if not quick else [0, 2, 4, 6]):
            L, R = _NAME_KEYS[kp]
            for how1 in HOWS:
                hs1 = _hint_sets(how1, L, R, quick, cnt)
                if quick:
                    st = [h for h in hs1 if h[0] and h[2]]
                    hs1 = ([st[-1]] + ([st[(cnt + rep) % (len(st) - 1)]] if len(st) > 1 else []) if st else []) + [[None] * 4]
                for h1 in hs1:
                    same = (cnt % 3 == 0)
                    fl, fr = _named_frames(L, R, None, None, 'i', cnt, same)
                    c1 = {'how': how1, 'hints': h1, 'L': fl, 'R': fr, 'lf': None, 'rf': None}
                    pairs = _ref_pairs(how1, L, R)
                    streamed1 = is_ordered(c1)
                    # the key of the second merge: the key field of the side that is never empty (left for left / inner /
                    # outer-as-far-as-it-goes, right for right), under its destination name
                    if how1 == 'right':
                        kname = (fr['kn'][0] + '_r') if same else fr['kn'][0]
                        kcol = [R[j] for _, j in pairs]
                    else:
                        kname = (fl['kn'][0] + '_l') if same else fl['kn'][0]
                        kcol = [L[i] if i is not None else 0 for i, _ in pairs]
                    d1 = _dest1_names(c1)
                    for left2 in (True, False):
                        for how2 in HOWS:
                            O = okeys[cnt % len(okeys)]
                            hs2 = []
                            if streamed1 and how2 != 'outer' and kcol == sorted(kcol):
                                for du in ((False, True) if _strict(kcol) else (False,)):
                                    for ou in ((False, True) if _strict(O) else (False,)):
                                        hs2.append([True, du, True, ou] if left2 else [True, ou, True, du])
                            if quick and len(hs2) > 2:
                                hs2 = [hs2[-1], hs2[cnt % (len(hs2) - 1)]]
                            du = True if (len(set(kcol)) == len(kcol)) else None
                            hs2.append([None] * 4 if cnt % 2 else ([None, du, None, None] if left2 else [None, None, None, du]))
                            for h2 in hs2:
                                on = onames[cnt % len(onames)]
                                fo = {'keys': [O], 'kn': ['ko'], 'kd': {'ko': 'k'},
                                      'cols': [[n, _payload('x', len(O), 'r') if n[0] == 'x' else _map_like(len(O), len(kcol), cnt + j)]
                                               for j, n in enumerate(on)]}
                                for n in on:
                                    fo['kd'][n] = 'x' if n[0] == 'x' else 'i'
                                # fields of the first destination: all of them, or all that do not collide with a field
                                # the second merge creates for itself
                                c2probe = {'how': how2, 'hints': h2, 'L': {'keys': [kcol if left2 else O]}, 'R': {'keys': [O if left2 else kcol]}}
                                own2 = []
                                if is_ordered(c2probe):
                                    lu2, ru2 = h2[1], h2[3]
                                    own2 = ['_left_map', '_right_map'] if how2 == 'inner' else \
                                        (['_right_map'] + ([] if ru2 else ['_left_map'])) if how2 == 'left' else \
                                        (['_left_map'] + ([] if lu2 else ['_right_map']))
                                else:
                                    own2 = ['valid_l', 'valid_r']
                                for sel in ((None, 'safe') if not quick else (('safe',) if cnt % 3 else (None,))):
                                    c = dict(c1)
                                    c['chain'] = {'left': left2, 'how': how2, 'hints': h2, 'key': kname,
                                                  'sel': None if sel is None else [n for n in d1 if n not in own2],
                                                  'O': fo, 'of': None if sel is None else [n for n in ['ko'] + on if n not in own2]}
                                    c.update(_sizes(cnt))
                                    if c['cs'] is not None:
                                        c['cs'] = 6            # no run of equal keys of these frames reaches it
                                    yield c
                                    cnt += 1


def _name_features(case):
    if not _generic(case):
        return []
    f = ['names:generic']
    ln = [n for n, _ in _mapped(case['L'], case['lf'])]
    rn = [n for n, _ in _mapped(case['R'], case['rf'])]
    for side, ns in (('left', ln), ('right', rn)):
        for n in ns:
            if n in _INTERNAL_NAMES:
                f.append('names:%s-field-called:%s' % (side, n))
            elif n.endswith(('_l', '_r')):
                f.append('names:%s-field-with-suffix' % side)
    for n in case['L']['kn'] + case['R']['kn']:
        if n in _INTERNAL_NAMES:
            f.append('names:key-called:' + n)
    for n, _ in case.get('pre') or []:
        f.append('names:destination-holds:' + n)
    ch = case.get('chain')
    if ch:
        f.append('chain:first-%s-%s' % (case['how'], 'streamed' if is_ordered(case) else 'pandas'))
        h = ch['hints']
        st2 = bool(h[0] and h[2] and ch['how'] != 'outer')
        f.append('chain:second-%s-%s' % (ch['how'], 'streamed' if st2 else 'pandas'))
        f.append('chain:first-destination-is-' + ('left' if ch['left'] else 'right'))
        f.append('chain:fields-' + ('all' if ch['sel'] is None else 'subset'))
        if st2: f.append('chain:second-hints:%d%d%d%d' % tuple(_hint(x) for x in h))
        for n in (_dest1_names(case) if ch['sel'] is None else ch['sel']):
            if n in INTERNAL:
                f.append('chain:carries-' + n)
    return f


def shrink(case):
    for side in ('L', 'R'):
        fr = case[side]
        n = len(fr['keys'][0])
        for i in range(n):
            c = dict(case)
            c[side] = dict(fr, keys=[k[:i] + k[i + 1:] for k in fr['keys']],
                           cols=[[nm, v[:i] + v[i + 1:]] for nm, v in fr['cols']])
            yield c
        for j in range(len(fr['cols'])):
            nm = fr['cols'][j][0]
            if (case['lf' if side == 'L' else 'rf'] or []) and nm in case['lf' if side == 'L' else 'rf']:
                continue
            c = dict(case)
            c[side] = dict(fr, cols=fr['cols'][:j] + fr['cols'][j + 1:])
            yield c
    for p in ('cs', 'mcs', 'ccs'):
        if case.get(p) and case[p] > 1:
            c = dict(case); c[p] = case[p] - 1; yield c


TECHNIQUE = ('Coq proof about a faithful model of merge/_ordered_merge/_unordered_merge composed with the proved models of the '
             'streamed join generators (C03) and map streams (C04) + exhaustive small-scope correspondence on real HDF5 frames')
LEVEL_TEXT = ('Theorems in coq/Props/C02.v: the streamed path of the repaired merge equals the relational join (rows, key order, '
              'column lengths, names) for all sizes and chunk sizes, for every how in {left,right,inner} x every truthful '
              'unique-hint pair, keys repeated on both sides (many-to-many) included since fix-F-C02f, with no hypothesis left '
              'about C03 or C04 (ordered_merge_total_all / ordered_merge_correct_all / ordered_merge_is_relational_join '
              'instantiate C03 streamed_total for all eight generators and C04 for in-range maps in any order; the copied side of the '
              'right/left-unique variants is proved equal to the gather through all rows; equal column lengths and '
              'non-decreasing key order are separate corollaries); the pandas path is correspondence against the '
              'specification (pandas trusted). Key columns of any dtype: the relational join is invariant under every map '
              'of the key values that is injective on the values present (join_pairs_key_embedding, merge_spec_key_embedding, '
              'join_maps_key_embedding) and the streamed path run on keys seen through a strictly monotone map returns the '
              'destination of the join of the keys themselves (ordered_merge_key_embedding); conversions that are not '
              'injective on the keys present change the join (narrowing_key_cast_refuted: int64->int32, int64->uint16, '
              'float64->float32, S5->S3; binary64_key_comparison_refuted: F-C02i).')
LEVEL_TEXT += (' Names as data (VC02, Model/MergeChain.v): merge into a destination that holds fields and chains of two merges are '
               'modelled (merge_into_empty_destination); payload_called_like_absent_map_is_data and '
               'chained_merge_map_field_is_payload are worked instances (a field called _right_map is an ordinary column where '
               'the call writes no right map, also when it comes from an earlier merge); payload_called_like_map_refuted is F-C02j.')
LEVEL_NOTE = 'Model tied to /repo by the differential run only; see evidence for theorem list and which are full / partial / refuted.'
